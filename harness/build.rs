//! Derives, from the SOURCE of the dependency under test, the list of entry points the C02/C03
//! harness must account for: `ShardMessage` variants, the `pub fn`s of `ShardedActorState` and of
//! `ShardHandle`.  `src/api.rs` maps every name to how it is driven (or why it is not); a name
//! that appears in the source but not in that map is reported by `./check C03` as
//! `C03:api-not-covered:<name>`.
use std::fs;
use std::path::PathBuf;

fn main() {
    let manifest = fs::read_to_string("Cargo.toml").expect("Cargo.toml");
    let dep = manifest
        .lines()
        .find(|l| l.starts_with("redis-sim"))
        .and_then(|l| l.split("path = \"").nth(1))
        .and_then(|r| r.split('"').next())
        .expect("path of redis-sim in Cargo.toml")
        .to_string();
    // optional verification hooks of the tree this harness is built against:
    //   cfg `verif_h1c` = `production::verif_hooks::encode_reply` (hook H1c) is present.
    // (./check C15 reports `C15:coverage:hook-h1c-absent` when it is not: encoders 3 and 4 would
    // silently go undriven.)
    println!("cargo:rustc-check-cfg=cfg(verif_h1c)");
    let hooks = PathBuf::from(&dep).join("src/production/mod.rs");
    println!("cargo:rerun-if-changed={}", hooks.display());
    if fs::read_to_string(&hooks).map(|s| s.contains("pub fn encode_reply")).unwrap_or(false) {
        println!("cargo:rustc-cfg=verif_h1c");
    }
    // the reply encoders of the binary src/bin/server_persistent.rs (private to a bin target): their
    // SOURCE TEXT is compiled into the harness (cfg `verif_persist_enc`) so that C15 drives that very code
    println!("cargo:rustc-check-cfg=cfg(verif_persist_enc)");
    let persist = PathBuf::from(&dep).join("src/bin/server_persistent.rs");
    println!("cargo:rerun-if-changed={}", persist.display());
    if let Ok(ps) = fs::read_to_string(&persist) {
        // each function is cut out by NAME with brace matching (whatever its visibility, attributes,
        // position in the file or neighbours), together with the free functions of the same file it
        // calls: a reordering, a `pub(crate)`, an `#[inline]`, a new helper or an unrelated new
        // function next to them does not disturb the tie
        if let Some(text) = extract_fns(&ps, &["encode_resp_into", "encode_error_into"]) {
            let dest = PathBuf::from(std::env::var("OUT_DIR").unwrap()).join("persist_enc.rs");
            fs::write(dest, text).unwrap();
            println!("cargo:rustc-cfg=verif_persist_enc");
        }
    }
    // two more codec functions private to bin targets, cut out the same way: the CLI client's
    // `encode_command` (src/main.rs, encoder 7) and the shadow proxy's `parse_resp_command`
    // (src/bin/shadow_proxy.rs, the proxy's command-name extractor)
    for (cfg, rel, names, out) in [
        ("verif_main_enc", "src/main.rs", &["encode_command"][..], "main_enc.rs"),
        ("verif_proxy_dec", "src/bin/shadow_proxy.rs", &["parse_resp_command"][..], "proxy_dec.rs"),
    ] {
        println!("cargo:rustc-check-cfg=cfg({})", cfg);
        let path = PathBuf::from(&dep).join(rel);
        println!("cargo:rerun-if-changed={}", path.display());
        if let Ok(src) = fs::read_to_string(&path) {
            if let Some(text) = extract_fns(&src, names) {
                fs::write(PathBuf::from(std::env::var("OUT_DIR").unwrap()).join(out), text).unwrap();
                println!("cargo:rustc-cfg={}", cfg);
            }
        }
    }
    // C08: the WHOLE binary src/bin/server_persistent.rs (its `main` is the production start-up sequence:
    // recover → WAL replay → workers → listeners) is compiled as the harness-side binary `rvpersist`
    // (src/bin/rvpersist.rs includes this copy; only the leading inner attributes / `//!` lines are
    // dropped, which `include!` does not accept).  cfg `verif_persist_main` = the copy exists.
    println!("cargo:rustc-check-cfg=cfg(verif_persist_main)");
    if let Ok(ps) = fs::read_to_string(&persist) {
        // only crates the harness itself depends on can be named by the copy: a `use` of another crate
        // leaves the cfg off (C08 then reports `C08:coverage:persistent-server-main-not-built` with
        // the reason) instead of breaking the build of every check
        let known = ["std", "core", "alloc", "bytes", "parking_lot", "redis_sim", "tokio", "tracing", "tikv_jemallocator", "serde", "serde_json", "bincode", "crc32fast"];
        let foreign: Vec<String> = ps
            .lines()
            .filter_map(|l| l.trim_start().strip_prefix("use "))
            .map(|r| r.split(|c: char| !(c.is_alphanumeric() || c == '_')).next().unwrap_or("").to_string())
            .filter(|c| !c.is_empty() && !known.contains(&c.as_str()) && c != "super" && c != "crate" && c != "self")
            .collect();
        let reason = if !foreign.is_empty() { format!("src/bin/server_persistent.rs uses crate(s) the harness does not depend on: {}", foreign.join(", ")) } else if !ps.contains("async fn main()") { "src/bin/server_persistent.rs has no `async fn main()`".to_string() } else { String::new() };
        println!("cargo:rustc-env=RV_PERSIST_REASON={}", reason);
        if ps.contains("async fn main()") && foreign.is_empty() {
            let mut body = String::new();
            let mut head = true;
            for line in ps.lines() {
                let t = line.trim_start();
                if head && (t.starts_with("//!") || t.starts_with("#![") || t.is_empty()) {
                    body.push('\n');
                    continue;
                }
                head = false;
                body.push_str(line);
                body.push('\n');
            }
            let dest = PathBuf::from(std::env::var("OUT_DIR").unwrap()).join("persist_main.rs");
            fs::write(dest, body).unwrap();
            println!("cargo:rustc-cfg=verif_persist_main");
        }
    }
    let file = PathBuf::from(&dep).join("src/production/sharded_actor.rs");
    println!("cargo:rerun-if-changed={}", file.display());
    println!("cargo:rerun-if-changed=Cargo.toml");
    let src = fs::read_to_string(&file).expect("sharded_actor.rs");
    let mut messages = Vec::new();
    let mut handle = Vec::new();
    let mut handle_priv: Vec<String> = Vec::new();
    let mut state = Vec::new();
    let mut config = Vec::new();
    #[derive(PartialEq)]
    enum Sec {
        None,
        Msg,
        Handle,
        State,
        Config,
    }
    let mut sec = Sec::None;
    for line in src.lines() {
        let t = line.trim_start();
        if t.starts_with("pub enum ShardMessage") {
            sec = Sec::Msg;
            continue;
        }
        if t.starts_with("impl ShardHandle") {
            sec = Sec::Handle;
            continue;
        }
        if t.starts_with("impl ShardConfig") {
            sec = Sec::Config;
            continue;
        }
        if t.starts_with("impl ShardedActorState") || t.starts_with("impl<T: TimeSource> ShardedActorState") {
            sec = Sec::State;
            continue;
        }
        if line.starts_with('}') || t.starts_with("impl ShardActor ") || t.starts_with("impl Default for") {
            if line.starts_with('}') {
                sec = Sec::None;
            }
            continue;
        }
        match sec {
            Sec::Msg => {
                if line.starts_with("    ") && !line.starts_with("     ") {
                    let name: String = t.chars().take_while(|c| c.is_alphanumeric()).collect();
                    if !name.is_empty() && name.chars().next().unwrap().is_uppercase() {
                        messages.push(name);
                    }
                }
            }
            Sec::Handle | Sec::State | Sec::Config => {
                // visible outside the module: `pub`, `pub(crate)`, `pub(super)`, `pub(in …)`
                let is_pub = t.starts_with("pub fn ")
                    || t.starts_with("pub async fn ")
                    || (t.starts_with("pub(") && (t.contains(") fn ") || t.contains(") async fn ")));
                // a PRIVATE fn of ShardHandle is reachable only through the module's own fns: it is listed
                // (informational, `HANDLE_PRIVATE_FNS`), it cannot be an entry point nobody drives
                let is_priv_handle = sec == Sec::Handle && (t.starts_with("async fn ") || t.starts_with("fn "));
                if is_pub || is_priv_handle {
                    let after = t.split("fn ").nth(1).unwrap_or("");
                    let name: String = after.chars().take_while(|c| c.is_alphanumeric() || *c == '_').collect();
                    match sec {
                        Sec::Handle if !is_pub => handle_priv.push(name),
                        Sec::Handle => handle.push(name),
                        Sec::State => state.push(name),
                        _ => config.push(name),
                    }
                }
            }
            Sec::None => {}
        }
    }
    // ---- can routing change at run time?  Facts about the routing state, from the source:
    // the fields of ShardedActorState, every method taking `&mut self`, every assignment to
    // `num_shards` / in-place mutation of `shards`, and every consumer of a ScalingDecision outside
    // the load balancer / adaptive actor themselves (non-test code of the whole crate).
    let mut fields: Vec<(String, String)> = Vec::new();
    let mut mut_self: Vec<String> = Vec::new();
    let mut assigns: Vec<String> = Vec::new();
    {
        let mut in_struct = false;
        let mut in_state_impl = false;
        for (ln, line) in src.lines().enumerate() {
            let t = line.trim_start();
            if t.starts_with("#[cfg(test)]") {
                break;
            }
            if t.starts_with("pub struct ShardedActorState") {
                in_struct = true;
                continue;
            }
            if in_struct {
                if line.starts_with('}') {
                    in_struct = false;
                } else if !t.starts_with("//") && !t.starts_with('#') {
                    if let Some((n, ty)) = t.split_once(':') {
                        fields.push((n.trim().trim_start_matches("pub ").to_string(), ty.trim().trim_end_matches(',').to_string()));
                    }
                }
                continue;
            }
            if t.starts_with("impl") && t.contains("ShardedActorState") {
                in_state_impl = true;
            } else if line.starts_with('}') {
                in_state_impl = false;
            }
            if in_state_impl && t.contains("fn ") && t.contains("&mut self") {
                let after = t.split("fn ").nth(1).unwrap_or("");
                mut_self.push(after.chars().take_while(|c| c.is_alphanumeric() || *c == '_').collect());
            }
            let squeezed: String = t.split_whitespace().collect::<Vec<_>>().join(" ");
            let assigns_num = squeezed.contains(".num_shards =") && !squeezed.contains(".num_shards ==");
            if assigns_num || squeezed.contains("Arc::get_mut") || squeezed.contains("Arc::make_mut") || squeezed.contains("self.shards.push") || squeezed.contains("self.shards =") {
                assigns.push(format!("sharded_actor.rs:{}: {}", ln + 1, squeezed));
            }
        }
    }
    let mut consumers: Vec<String> = Vec::new();
    {
        fn walk(dir: &std::path::Path, acc: &mut Vec<PathBuf>) {
            if let Ok(rd) = fs::read_dir(dir) {
                for e in rd.flatten() {
                    let p = e.path();
                    if p.is_dir() {
                        walk(&p, acc);
                    } else if p.extension().map(|x| x == "rs").unwrap_or(false) {
                        acc.push(p);
                    }
                }
            }
        }
        let mut files = Vec::new();
        let root = PathBuf::from(&dep).join("src");
        walk(&root, &mut files);
        files.sort();
        for f in files {
            println!("cargo:rerun-if-changed={}", f.display());
            let name = f.strip_prefix(&root).unwrap().display().to_string();
            if name == "production/load_balancer.rs" || name == "production/adaptive_actor.rs" {
                continue;
            }
            let text = fs::read_to_string(&f).unwrap_or_default();
            for (ln, line) in text.lines().enumerate() {
                let t = line.trim_start();
                if t.starts_with("#[cfg(test)]") {
                    break;
                }
                if t.starts_with("//") {
                    continue;
                }
                let uses_decision = t.contains("ScalingDecision::") || t.contains(".check_scaling(") || t.contains("recommend_scaling") || t.contains("analyze_scaling");
                let is_decl = t.starts_with("pub async fn check_scaling") || t.starts_with("use ") || t.starts_with("pub use ");
                // ShardedActorState::check_scaling forwards the question to the adaptive actor and
                // RETURNS the decision: a forwarder, not a consumer
                let forwards = name == "production/sharded_actor.rs" && t.starts_with("handle.check_scaling(");
                if uses_decision && !is_decl && !forwards {
                    consumers.push(format!("{}:{}: {}", name, ln + 1, t));
                }
            }
        }
    }
    // ---- the dispatch layer: (a) the pub fns of ShardedActorState whose body reaches `self.shards`
    // (a shard mailbox); (b) every call site `<…>state.<pub fn>(` in the other files of
    // src/production that hold a ShardedActorState (connection handler, TTL manager, servers)
    let mut mailbox_fns: Vec<String> = Vec::new();
    {
        let mut cur: Option<String> = None;
        let mut in_state_impl = false;
        for line in src.lines() {
            let t = line.trim_start();
            if t.starts_with("#[cfg(test)]") {
                break;
            }
            if t.starts_with("impl") && t.contains("ShardedActorState") {
                in_state_impl = true;
            } else if line.starts_with('}') {
                in_state_impl = false;
                cur = None;
            }
            if !in_state_impl {
                continue;
            }
            if t.starts_with("pub fn ") || t.starts_with("pub async fn ") || t.starts_with("fn ") || t.starts_with("async fn ") {
                let is_pub = t.starts_with("pub ");
                let after = t.split("fn ").nth(1).unwrap_or("");
                let name: String = after.chars().take_while(|c| c.is_alphanumeric() || *c == '_').collect();
                cur = if is_pub { Some(name) } else { None };
            }
            if t.contains("self.shards") && !t.starts_with("//") {
                if let Some(n) = &cur {
                    if !mailbox_fns.contains(n) {
                        mailbox_fns.push(n.clone());
                    }
                }
            }
        }
        mailbox_fns.sort();
    }
    let mut call_sites: Vec<(String, String)> = Vec::new();
    {
        let dir = PathBuf::from(&dep).join("src/production");
        let mut files: Vec<PathBuf> = fs::read_dir(&dir).map(|rd| rd.flatten().map(|e| e.path()).filter(|p| p.extension().map(|x| x == "rs").unwrap_or(false)).collect()).unwrap_or_default();
        files.sort();
        for f in files {
            let name = f.file_name().unwrap().to_string_lossy().to_string();
            if name == "sharded_actor.rs" {
                continue;
            }
            let text = fs::read_to_string(&f).unwrap_or_default();
            if !text.contains("ShardedActorState") {
                continue;
            }
            for (ln, line) in text.lines().enumerate() {
                let t = line.trim_start();
                if t.starts_with("#[cfg(test)]") {
                    break;
                }
                if t.starts_with("//") {
                    continue;
                }
                for fname in &state {
                    if t.contains(&format!("state.{}(", fname)) {
                        call_sites.push((fname.clone(), format!("{}:{}", name, ln + 1)));
                    }
                }
            }
        }
    }
    let list = |v: &Vec<String>| v.iter().map(|s| format!("{:?}", s)).collect::<Vec<_>>().join(", ");
    let out = format!(
        "pub const SHARD_MESSAGES: &[&str] = &[{}];\npub const HANDLE_FNS: &[&str] = &[{}];\npub const HANDLE_PRIVATE_FNS: &[&str] = &[{}];\npub const STATE_PUB_FNS: &[&str] = &[{}];\npub const CONFIG_PUB_FNS: &[&str] = &[{}];\n",
        list(&messages),
        list(&handle),
        list(&handle_priv),
        list(&state),
        list(&config)
    );
    let out = format!(
        "{}pub const STATE_FIELDS: &[(&str, &str)] = &[{}];\npub const STATE_MUT_SELF_FNS: &[&str] = &[{}];\npub const ROUTING_STATE_MUTATIONS: &[&str] = &[{}];\npub const SCALING_DECISION_CONSUMERS: &[&str] = &[{}];\n",
        out,
        fields.iter().map(|(a, b)| format!("({:?}, {:?})", a, b)).collect::<Vec<_>>().join(", "),
        list(&mut_self),
        list(&assigns),
        list(&consumers)
    );
    let out = format!(
        "{}pub const MAILBOX_REACHING_FNS: &[&str] = &[{}];\npub const STATE_CALL_SITES: &[(&str, &str)] = &[{}];\n",
        out,
        list(&mailbox_fns),
        call_sites.iter().map(|(a, b)| format!("({:?}, {:?})", a, b)).collect::<Vec<_>>().join(", ")
    );
    let dest = PathBuf::from(std::env::var("OUT_DIR").unwrap()).join("api_gen.rs");
    fs::write(dest, out).unwrap();
    data_api(&dep);
    command_api(&dep);
    wal_scan(&dep);
    route_scan(&dep);
}

/// `pub fn` / `pub(crate) fn` names of the FIRST inherent `impl <Type> {` block of every data-structure
/// source file (up to the closing `}` in column 0 or `#[cfg(test)]`), for `src/datax.rs`: a name that
/// is in the source but not in its coverage map is reported by `./check C01` as
/// `C01:coverage:data-fn-not-driven:<file>::<fn>`.
fn data_api(dep: &str) {
    let mut rows: Vec<(String, String)> = Vec::new();
    for f in ["skiplist", "sorted_set", "list", "sds", "set", "hash"] {
        let file = PathBuf::from(dep).join(format!("src/redis/data/{}.rs", f));
        println!("cargo:rerun-if-changed={}", file.display());
        let src = fs::read_to_string(&file).unwrap_or_else(|e| panic!("{}: {}", file.display(), e));
        let mut inside = false;
        for line in src.lines() {
            let t = line.trim_start();
            if t.starts_with("#[cfg(test)]") {
                break;
            }
            if !inside {
                if line.starts_with("impl") && !line.contains(" for ") && line.trim_end().ends_with('{') {
                    inside = true;
                }
                continue;
            }
            if line.starts_with('}') {
                break;
            }
            let after = if let Some(r) = t.strip_prefix("pub fn ") {
                r
            } else if let Some(r) = t.strip_prefix("pub(crate) fn ") {
                r
            } else if let Some(r) = t.strip_prefix("pub const fn ") {
                r
            } else {
                continue;
            };
            let name: String = after.chars().take_while(|c| c.is_alphanumeric() || *c == '_').collect();
            if !name.is_empty() {
                rows.push((format!("{}.rs", f), name));
            }
        }
        if !inside {
            panic!("{}: no inherent `impl <Type> {{` block found — the data-structure source changed shape", file.display());
        }
    }
    let body = rows.iter().map(|(f, n)| format!("({:?}, {:?})", f, n)).collect::<Vec<_>>().join(", ");
    let out = format!("pub const DATA_PUB_FNS: &[(&str, &str)] = &[{}];\n", body);
    let dest = PathBuf::from(std::env::var("OUT_DIR").unwrap()).join("data_api_gen.rs");
    fs::write(dest, out).unwrap();
}

/// From `src/redis/command.rs`: the variants of `enum Command` and the variants listed in the
/// `matches!` of `Command::is_read_only`; from `src/redis/executor/mod.rs`: the `pub fn`s of
/// `impl CommandExecutor`.  `src/redisx.rs` / `src/c17.rs` compare them with what the harness drives
/// and with the classification the binary computes (`C17:source:*`, `C01:coverage:executor-fn-*`).
fn command_api(dep: &str) {
    let file = PathBuf::from(dep).join("src/redis/command.rs");
    println!("cargo:rerun-if-changed={}", file.display());
    let src = fs::read_to_string(&file).unwrap_or_else(|e| panic!("{}: {}", file.display(), e));
    // enum variants: lines indented by exactly 4 spaces inside `pub enum Command {`
    let mut variants: Vec<String> = Vec::new();
    let mut inside = false;
    for line in src.lines() {
        if line.starts_with("pub enum Command") {
            inside = true;
            continue;
        }
        if inside {
            if line.starts_with('}') {
                break;
            }
            if line.starts_with("    ") && !line.starts_with("     ") {
                let t = line.trim_start();
                let name: String = t.chars().take_while(|c| c.is_alphanumeric()).collect();
                if !name.is_empty() && name.chars().next().unwrap().is_uppercase() {
                    variants.push(name);
                }
            }
        }
    }
    if variants.len() < 50 {
        panic!("command.rs: only {} variants of `pub enum Command` found — the source changed shape", variants.len());
    }
    // is_read_only: everything between `pub fn is_read_only` and the next `pub fn`
    let start = src.find("pub fn is_read_only").expect("command.rs: pub fn is_read_only not found");
    let rest = &src[start + 10..];
    let end = rest.find("pub fn ").unwrap_or(rest.len());
    // comments (`// …` to the end of the line, `/* … */`) say nothing about the classification
    let body_owned: String = {
        let mut out = String::new();
        let mut in_block = false;
        for line in rest[..end].lines() {
            let mut l = line.to_string();
            loop {
                if in_block {
                    match l.find("*/") {
                        Some(i) => {
                            l = l[i + 2..].to_string();
                            in_block = false;
                        }
                        None => {
                            l.clear();
                            break;
                        }
                    }
                } else if let Some(i) = l.find("/*") {
                    let (a, b) = l.split_at(i);
                    out.push_str(a);
                    l = b[2..].to_string();
                    in_block = true;
                } else {
                    break;
                }
            }
            if let Some(i) = l.find("//") {
                l.truncate(i);
            }
            out.push_str(&l);
            out.push('\n');
        }
        out
    };
    let body = body_owned.as_str();
    let mut ro: Vec<String> = Vec::new();
    // plain = nothing but `Command::X` / `Command::X(_, …)` / `Command::X { .. }` alternatives of one matches!
    let mut plain = body.contains("matches!(");
    let inner = body.split("matches!(").nth(1).unwrap_or("");
    let inner = inner.split("\n        )").next().unwrap_or(inner);
    for part in inner.split("Command::").skip(1) {
        let name: String = part.chars().take_while(|c| c.is_alphanumeric()).collect();
        let tail: String = part[name.len()..].split('|').next().unwrap_or("").chars().filter(|c| !c.is_whitespace()).collect();
        let ok = matches!(tail.as_str(), "" | "(_)" | "(_,_)" | "(_,_,_)" | "(_,_,_,_)" | "(_,_,_,_,_)" | "{..}");
        if !ok {
            plain = false;
        }
        if !name.is_empty() {
            ro.push(name);
        }
    }
    if inner.split("Command::").count() != body.split("Command::").count() {
        plain = false; // `Command::` outside the matches!: some other form of classification
    }
    // executor entry points
    let file = PathBuf::from(dep).join("src/redis/executor/mod.rs");
    println!("cargo:rerun-if-changed={}", file.display());
    let src = fs::read_to_string(&file).unwrap_or_else(|e| panic!("{}: {}", file.display(), e));
    // a `pub fn` is an ENTRY POINT for C01 / C17 when it can change the keyspace or produce a reply:
    // `&mut self`, or a `RespValue` in the signature, or no receiver at all (a constructor). A `&self`
    // function that returns something else is an accessor: it is listed in the evidence, but a new one
    // cannot reach the property and does not fail the check.
    let mut fns: Vec<String> = Vec::new();
    let mut accessors: Vec<String> = Vec::new();
    let mut inside = false;
    let lines: Vec<&str> = src.lines().collect();
    for (li, line) in lines.iter().enumerate() {
        if line.starts_with("impl CommandExecutor") {
            inside = true;
            continue;
        }
        if inside && line.starts_with('}') {
            inside = false;
            continue;
        }
        if inside {
            let t = line.trim_start();
            if line.starts_with("    pub fn ") {
                let name: String = t["pub fn ".len()..].chars().take_while(|c| c.is_alphanumeric() || *c == '_').collect();
                let mut sig = String::new();
                for l in &lines[li..(li + 12).min(lines.len())] {
                    sig.push_str(l);
                    sig.push(' ');
                    if l.contains('{') {
                        break;
                    }
                }
                let entry = sig.contains("&mut self") || sig.contains("RespValue") || !sig.contains("self");
                if entry {
                    fns.push(name);
                } else {
                    accessors.push(name);
                }
            }
        }
    }
    if fns.len() < 5 {
        panic!("executor/mod.rs: only {} pub fns of `impl CommandExecutor` found — the source changed shape", fns.len());
    }
    let list = |v: &Vec<String>| v.iter().map(|s| format!("{:?}", s)).collect::<Vec<_>>().join(", ");
    let out = format!(
        "pub const COMMAND_VARIANTS: &[&str] = &[{}];\npub const READ_ONLY_VARIANTS: &[&str] = &[{}];\npub const READ_ONLY_IS_PLAIN_LIST: bool = {};\npub const EXECUTOR_PUB_FNS: &[&str] = &[{}];\npub const EXECUTOR_ACCESSOR_FNS: &[&str] = &[{}];\n",
        list(&variants),
        list(&ro),
        plain,
        list(&fns),
        list(&accessors)
    );
    let dest = PathBuf::from(std::env::var("OUT_DIR").unwrap()).join("command_api_gen.rs");
    fs::write(dest, out).unwrap();
}

/// C09 / C10 / C14: entry points, enum variants, config fields and PRIVATE constants of the WAL /
/// segment / checkpoint / gossip sources, derived from the tree the binary is built against
/// (`OUT_DIR/wal_gen.rs`, included by `src/c09.rs`).  The public constants are taken from the crate
/// itself.  A list that comes out empty makes the check fail (`…:coverage:source-scan-failed`).
fn wal_scan(dep: &str) {
    let read = |rel: &str| -> String {
        let f = PathBuf::from(dep).join(rel);
        println!("cargo:rerun-if-changed={}", f.display());
        fs::read_to_string(&f).unwrap_or_default()
    };
    // variants of `pub enum <name>` (identifiers at 4 spaces of indentation)
    let variants = |src: &str, name: &str| -> Vec<String> {
        let mut v = Vec::new();
        let mut inside = false;
        for line in src.lines() {
            if line.starts_with(&format!("pub enum {} ", name)) || line.starts_with(&format!("pub enum {}{{", name)) {
                inside = true;
                continue;
            }
            if inside {
                if line.starts_with('}') {
                    break;
                }
                if line.starts_with("    ") && !line.starts_with("     ") {
                    let id: String = line.trim_start().chars().take_while(|c| c.is_alphanumeric() || *c == '_').collect();
                    if !id.is_empty() && id.chars().next().unwrap().is_uppercase() {
                        v.push(id);
                    }
                }
            }
        }
        v
    };
    // `pub fn` / `pub async fn` / (traits: `fn`) names of a TYPE: every inherent `impl … Type … {` block of the file
    // (generics, bounds and `where` clauses in any spelling; an impl split into several blocks; trait impls
    // `impl X for Type` are not entry points of the type) or, for `all`, the `pub trait Type` block
    let fns = |src: &str, ty: &str, all: bool| -> Vec<String> {
        let mut v = Vec::new();
        let mut inside = false;
        let is_head = |line: &str| -> bool {
            if all {
                return line.starts_with(&format!("pub trait {}", ty)) && !line[format!("pub trait {}", ty).len()..].starts_with(|c: char| c.is_alphanumeric() || c == '_');
            }
            if !line.starts_with("impl") || line.contains(" for ") {
                return false;
            }
            // skip the generic parameter list of the impl itself
            let rest = &line[4..];
            let rest = if rest.starts_with('<') {
                let mut depth = 0i32;
                let mut end = 0usize;
                for (i, c) in rest.char_indices() {
                    if c == '<' { depth += 1; }
                    if c == '>' { depth -= 1; if depth == 0 { end = i + 1; break; } }
                }
                &rest[end..]
            } else {
                rest
            };
            let rest = rest.trim_start();
            rest.starts_with(ty) && !rest[ty.len()..].starts_with(|c: char| c.is_alphanumeric() || c == '_')
        };
        for line in src.lines() {
            if !inside && is_head(line) {
                inside = true;
                continue;
            }
            if inside {
                if line.starts_with('}') {
                    inside = false;
                    continue;
                }
                let t = line.trim_start();
                let indent = line.len() - t.len();
                if indent == 4 && (t.starts_with("pub fn ") || t.starts_with("pub async fn ") || (all && (t.starts_with("fn ") || t.starts_with("async fn ")))) {
                    let after = t.split("fn ").nth(1).unwrap_or("");
                    let id: String = after.chars().take_while(|c| c.is_alphanumeric() || *c == '_').collect();
                    if !v.contains(&id) {
                        v.push(id);
                    }
                }
            }
        }
        v
    };
    // fields of `pub struct <name> {`
    let fields = |src: &str, name: &str| -> Vec<String> {
        let mut v = Vec::new();
        let mut inside = false;
        for line in src.lines() {
            if line.starts_with(&format!("pub struct {} {{", name)) {
                inside = true;
                continue;
            }
            if inside {
                if line.starts_with('}') {
                    break;
                }
                let t = line.trim_start();
                if line.starts_with("    pub ") {
                    let id: String = t[4..].chars().take_while(|c| c.is_alphanumeric() || *c == '_').collect();
                    v.push(id);
                }
            }
        }
        v
    };
    // value of `const NAME: T = <number>;`
    let konst = |src: &str, name: &str| -> String {
        for line in src.lines() {
            let t = line.trim_start().trim_start_matches("pub ");
            if t.starts_with(&format!("const {}:", name)) {
                if let Some(v) = t.split('=').nth(1) {
                    let v = v.trim().trim_end_matches(';').trim();
                    let num: String = v.chars().filter(|c| c.is_ascii_digit()).collect();
                    if !num.is_empty() && v.chars().all(|c| c.is_ascii_digit() || c == '_') {
                        return num;
                    }
                    // byte-string constants: b"RCHK"
                    if let Some(q) = v.split('"').nth(1) {
                        return format!("{:?}", q);
                    }
                }
            }
        }
        "0".to_string()
    };
    let actor = read("src/streaming/wal_actor.rs");
    let config = read("src/streaming/wal_config.rs");
    let store = read("src/streaming/wal_store.rs");
    let wal = read("src/streaming/wal.rs");
    let seg = read("src/streaming/segment.rs");
    let chk = read("src/streaming/checkpoint.rs");
    let gossip = read("src/replication/gossip.rs");
    let crdt = read("src/replication/state/crdt_value.rs");
    let list = |v: &Vec<String>| v.iter().map(|s| format!("{:?}", s)).collect::<Vec<_>>().join(", ");
    let mut out = String::new();
    let mut push = |name: &str, v: Vec<String>| out.push_str(&format!("pub const {}: &[&str] = &[{}];\n", name, list(&v)));
    push("WAL_MESSAGES", variants(&actor, "WalMessage"));
    push("FSYNC_POLICIES", variants(&config, "FsyncPolicy"));
    push("WAL_ERRORS", variants(&store, "WalError"));
    push("WAL_HANDLE_FNS", fns(&actor, "WalActorHandle", false));
    push("WAL_CONFIG_FIELDS", fields(&config, "WalConfig"));
    push("WAL_CONFIG_FNS", fns(&config, "WalConfig", false));
    push("WAL_STORE_TRAIT_FNS", fns(&store, "WalStore", true));
    push("WAL_WRITER_TRAIT_FNS", fns(&store, "WalFileWriter", true));
    push("WAL_ROTATOR_FNS", fns(&wal, "WalRotator", false));
    push("WAL_ENTRY_FNS", fns(&wal, "WalEntry", false));
    push("WAL_READER_FNS", fns(&wal, "WalReader", false));
    push("WAL_WRITER_FNS", fns(&wal, "WalWriter", false));
    push("SEGMENT_READER_FNS", fns(&seg, "SegmentReader", false));
    push("SEGMENT_WRITER_FNS", fns(&seg, "SegmentWriter", false));
    push("SEGMENT_ERRORS", variants(&seg, "SegmentError"));
    push("CHECKPOINT_READER_FNS", fns(&chk, "CheckpointReader", false));
    push("CHECKPOINT_WRITER_FNS", fns(&chk, "CheckpointWriter", false));
    push("CHECKPOINT_ERRORS", variants(&chk, "CheckpointError"));
    push("GOSSIP_MESSAGES", variants(&gossip, "GossipMessage"));
    push("CRDT_VARIANTS", variants(&crdt, "CrdtValue"));
    // call sites of every scanned inherent pub fn OUTSIDE the file that defines it (non-test code): a NEW public
    // fn that nothing in another module calls cannot reach a property and must not fail a check
    {
        fn walk(dir: &std::path::Path, acc: &mut Vec<PathBuf>) {
            if let Ok(rd) = fs::read_dir(dir) {
                for e in rd.flatten() {
                    let p = e.path();
                    if p.is_dir() {
                        walk(&p, acc);
                    } else if p.extension().map(|x| x == "rs").unwrap_or(false) {
                        acc.push(p);
                    }
                }
            }
        }
        let src_dir = PathBuf::from(dep).join("src");
        println!("cargo:rerun-if-changed={}", src_dir.display());
        let mut files = Vec::new();
        walk(&src_dir, &mut files);
        let texts: Vec<(String, String)> = files
            .iter()
            .map(|f| {
                let t = fs::read_to_string(f).unwrap_or_default();
                let t = t.split("#[cfg(test)]").next().unwrap_or("").to_string();
                (f.strip_prefix(dep).map(|p| p.display().to_string()).unwrap_or_default(), t)
            })
            .collect();
        let mut rows = Vec::new();
        for (own, group, names) in [
            ("src/streaming/wal_actor.rs", "WalActorHandle", fns(&actor, "WalActorHandle", false)),
            ("src/streaming/wal_config.rs", "WalConfig.fn", fns(&config, "WalConfig", false)),
            ("src/streaming/wal.rs", "WalRotator", fns(&wal, "WalRotator", false)),
            ("src/streaming/wal.rs", "WalEntry", fns(&wal, "WalEntry", false)),
            ("src/streaming/wal.rs", "WalReader", fns(&wal, "WalReader", false)),
            ("src/streaming/wal.rs", "WalWriter", fns(&wal, "WalWriter", false)),
            ("src/streaming/segment.rs", "SegmentReader", fns(&seg, "SegmentReader", false)),
            ("src/streaming/segment.rs", "SegmentWriter", fns(&seg, "SegmentWriter", false)),
            ("src/streaming/checkpoint.rs", "CheckpointReader", fns(&chk, "CheckpointReader", false)),
            ("src/streaming/checkpoint.rs", "CheckpointWriter", fns(&chk, "CheckpointWriter", false)),
        ] {
            for n in names {
                let pats = [format!(".{}(", n), format!("::{}(", n)];
                let calls: usize = texts
                    .iter()
                    .filter(|(rel, _)| !rel.ends_with(own))
                    .map(|(_, t)| pats.iter().map(|p| t.matches(p.as_str()).count()).sum::<usize>())
                    .sum();
                rows.push(format!("({:?}, {:?}, {})", group, n, calls));
            }
        }
        out.push_str(&format!("pub const WAL_FN_EXTERNAL_CALLS: &[(&str, &str, usize)] = &[{}];\n", rows.join(", ")));
    }
    out.push_str(&format!("pub const SRC_WAL_CHANNEL_CAPACITY: usize = {};\n", konst(&actor, "WAL_CHANNEL_CAPACITY")));
    out.push_str(&format!("pub const SRC_SEGMENT_HEADER_SIZE: usize = {};\n", konst(&seg, "HEADER_SIZE")));
    out.push_str(&format!("pub const SRC_SEGMENT_FOOTER_SIZE: usize = {};\n", konst(&seg, "FOOTER_SIZE")));
    out.push_str(&format!("pub const SRC_CHECKPOINT_HEADER_SIZE: usize = {};\n", konst(&chk, "CHECKPOINT_HEADER_SIZE")));
    out.push_str(&format!("pub const SRC_CHECKPOINT_VERSION: usize = {};\n", konst(&chk, "CHECKPOINT_VERSION")));
    out.push_str(&format!("pub const SRC_CHECKPOINT_MAGIC: &str = {};\n", konst(&chk, "CHECKPOINT_MAGIC")));
    let dest = PathBuf::from(std::env::var("OUT_DIR").unwrap()).join("wal_gen.rs");
    fs::write(dest, out).unwrap();
}

// ---------------------------------------------------------------------------------------------
// C03 routing table (`lean/RedisVerif/Model/RouteTable.lean`, `src/route_table.rs`): from the SOURCE of
// the tree the harness is built against
//   * the fields of every `Command` variant (`pub enum Command { … }`),
//   * the variants that have an arm of their own in `ShardedActorState::execute` (with the guard),
//   * what `Command::get_primary_key` returns for every variant (which field), where the arm has one of
//     the shapes `Some(<binding>…)`, `<binding>.first()…`, `None`,
// and the rows of the MODEL's table (so that the harness can name the row that differs).
// The scan works on the text with comments removed and string literals blanked; it needs the two
// `match`es and the enum, nothing else: renamed bindings, reordered arms, added helpers, formatting
// do not change its result.

/// comments removed, the contents of string / char literals blanked
fn lex_strip(src: &str) -> String {
    let b: Vec<char> = src.chars().collect();
    let mut out = String::with_capacity(src.len());
    let mut i = 0;
    while i < b.len() {
        let c = b[i];
        if c == '/' && i + 1 < b.len() && b[i + 1] == '/' {
            while i < b.len() && b[i] != '\n' {
                i += 1;
            }
        } else if c == '/' && i + 1 < b.len() && b[i + 1] == '*' {
            let mut depth = 1;
            i += 2;
            while i < b.len() && depth > 0 {
                if b[i] == '/' && i + 1 < b.len() && b[i + 1] == '*' {
                    depth += 1;
                    i += 2;
                } else if b[i] == '*' && i + 1 < b.len() && b[i + 1] == '/' {
                    depth -= 1;
                    i += 2;
                } else {
                    i += 1;
                }
            }
        } else if c == 'r' && i + 1 < b.len() && (b[i + 1] == '"' || b[i + 1] == '#') && (i == 0 || !(b[i - 1].is_alphanumeric() || b[i - 1] == '_')) {
            // raw string r"…" / r#"…"#
            let mut j = i + 1;
            let mut hashes = 0;
            while j < b.len() && b[j] == '#' {
                hashes += 1;
                j += 1;
            }
            if j < b.len() && b[j] == '"' {
                j += 1;
                loop {
                    if j >= b.len() {
                        break;
                    }
                    if b[j] == '"' {
                        let mut k = 0;
                        while k < hashes && j + 1 + k < b.len() && b[j + 1 + k] == '#' {
                            k += 1;
                        }
                        if k == hashes {
                            j += 1 + hashes;
                            break;
                        }
                    }
                    j += 1;
                }
                out.push_str("\"\"");
                i = j;
            } else {
                out.push(c);
                i += 1;
            }
        } else if c == '"' {
            i += 1;
            while i < b.len() && b[i] != '"' {
                if b[i] == '\\' {
                    i += 1;
                }
                i += 1;
            }
            i += 1;
            out.push_str("\"\"");
        } else if c == '\'' {
            // char literal ('x', '\n', '\'') vs lifetime ('a)
            if i + 2 < b.len() && b[i + 1] == '\\' {
                let mut j = i + 2;
                while j < b.len() && b[j] != '\'' {
                    j += 1;
                }
                out.push_str("' '");
                i = j + 1;
            } else if i + 2 < b.len() && b[i + 2] == '\'' {
                out.push_str("' '");
                i += 3;
            } else {
                out.push(c);
                i += 1;
            }
        } else {
            out.push(c);
            i += 1;
        }
    }
    out
}

/// the text between the `{` at byte offset `open` (exclusive) and its matching `}`
fn balanced(text: &str, open: usize) -> Option<&str> {
    let bytes = text.as_bytes();
    if bytes.get(open) != Some(&b'{') {
        return None;
    }
    let mut depth = 0i32;
    for (i, c) in bytes.iter().enumerate().skip(open) {
        match c {
            b'{' => depth += 1,
            b'}' => {
                depth -= 1;
                if depth == 0 {
                    return Some(&text[open + 1..i]);
                }
            }
            _ => {}
        }
    }
    None
}

/// split at the separator `sep` where all of (), [], {} (and <> when `angle`) are closed
fn split_top(text: &str, sep: char, angle: bool) -> Vec<String> {
    let mut parts = Vec::new();
    let mut cur = String::new();
    let mut depth = 0i32;
    let cs: Vec<char> = text.chars().collect();
    let mut i = 0;
    while i < cs.len() {
        let c = cs[i];
        match c {
            '(' | '[' | '{' => depth += 1,
            ')' | ']' | '}' => depth -= 1,
            '<' if angle => depth += 1,
            '>' if angle && !(i > 0 && (cs[i - 1] == '-' || cs[i - 1] == '=')) => depth -= 1,
            _ => {}
        }
        // `||` / `|x|` closures never occur at depth 0 of a pattern list; `=>` is handled by the caller
        if c == sep && depth == 0 {
            parts.push(cur.trim().to_string());
            cur = String::new();
        } else {
            cur.push(c);
        }
        i += 1;
    }
    if !cur.trim().is_empty() {
        parts.push(cur.trim().to_string());
    }
    parts
}

/// the arms `(pattern text, body text)` of the match whose block content is `inner`
fn match_arms(inner: &str) -> Vec<(String, String)> {
    let cs: Vec<char> = inner.chars().collect();
    let mut arms = Vec::new();
    let mut i = 0;
    while i < cs.len() {
        // pattern: up to `=>` at depth 0
        let mut depth = 0i32;
        let start = i;
        let mut arrow = None;
        while i < cs.len() {
            match cs[i] {
                '(' | '[' | '{' => depth += 1,
                ')' | ']' | '}' => depth -= 1,
                '=' if depth == 0 && i + 1 < cs.len() && cs[i + 1] == '>' => {
                    arrow = Some(i);
                }
                _ => {}
            }
            if arrow.is_some() {
                break;
            }
            i += 1;
        }
        let Some(a) = arrow else { break };
        let pat: String = cs[start..a].iter().collect::<String>().split_whitespace().collect::<Vec<_>>().join(" ");
        i = a + 2;
        while i < cs.len() && cs[i].is_whitespace() {
            i += 1;
        }
        let bstart = i;
        let mut depth = 0i32;
        if i < cs.len() && cs[i] == '{' {
            while i < cs.len() {
                match cs[i] {
                    '{' | '(' | '[' => depth += 1,
                    '}' | ')' | ']' => depth -= 1,
                    _ => {}
                }
                i += 1;
                if depth == 0 {
                    break;
                }
            }
            let body: String = cs[bstart..i].iter().collect();
            while i < cs.len() && (cs[i].is_whitespace() || cs[i] == ',') {
                i += 1;
            }
            arms.push((pat.trim().to_string(), body));
        } else {
            while i < cs.len() {
                match cs[i] {
                    '{' | '(' | '[' => depth += 1,
                    '}' | ')' | ']' => depth -= 1,
                    _ => {}
                }
                if cs[i] == ',' && depth == 0 {
                    break;
                }
                i += 1;
            }
            let body: String = cs[bstart..i.min(cs.len())].iter().collect();
            i += 1;
            arms.push((pat.trim().to_string(), body.trim().to_string()));
        }
    }
    arms
}

fn ident_prefix(s: &str) -> String {
    s.chars().take_while(|c| c.is_alphanumeric() || *c == '_').collect()
}

/// one alternative `Command::Name(a, _, b)` / `Command::Name { key: k, .. }` / `Command::Name` / `_`:
/// (variant name or "_", bindings as (field position or field name, bound identifier))
fn parse_alt(alt: &str) -> (String, Vec<(String, String)>) {
    let t = alt.trim();
    if t == "_" {
        return ("_".into(), vec![]);
    }
    let t = t.trim_start_matches('&').trim();
    let t = t.strip_prefix("Command::").or_else(|| t.strip_prefix("Self::")).unwrap_or(t);
    let name = ident_prefix(t);
    let rest = t[name.len()..].trim();
    let mut binds = Vec::new();
    let bind_of = |p: &str| -> Option<String> {
        let p = p.trim().trim_start_matches("ref ").trim_start_matches("mut ").trim();
        let id = ident_prefix(p);
        if !id.is_empty() && id.len() == p.len() && id != "_" && id.chars().next().map(|c| c.is_lowercase() || c == '_').unwrap_or(false) {
            Some(id)
        } else {
            None
        }
    };
    if rest.starts_with('(') && rest.ends_with(')') {
        for (i, sub) in split_top(&rest[1..rest.len() - 1], ',', false).iter().enumerate() {
            if let Some(b) = bind_of(sub) {
                binds.push((i.to_string(), b));
            }
        }
    } else if rest.starts_with('{') && rest.ends_with('}') {
        for item in split_top(&rest[1..rest.len() - 1], ',', false) {
            if item == ".." {
                continue;
            }
            if let Some((f, p)) = item.split_once(':') {
                if let Some(b) = bind_of(p) {
                    binds.push((f.trim().to_string(), b));
                }
            } else if let Some(b) = bind_of(&item) {
                binds.push((b.clone(), b));
            }
        }
    }
    (name, binds)
}

fn word_in(text: &str, w: &str) -> bool {
    let mut from = 0;
    while let Some(p) = text[from..].find(w) {
        let a = from + p;
        let b = a + w.len();
        let before = text[..a].chars().last().map(|c| c.is_alphanumeric() || c == '_').unwrap_or(false);
        let after = text[b..].chars().next().map(|c| c.is_alphanumeric() || c == '_').unwrap_or(false);
        if !before && !after {
            return true;
        }
        from = b;
    }
    false
}

fn route_scan(dep: &str) {
    let mut notes: Vec<String> = Vec::new();
    let cut = |s: String| -> String { s.split("\n#[cfg(test)]").next().unwrap_or("").to_string() };
    // ---- enum Command: variant → fields
    let cmd_file = PathBuf::from(dep).join("src/redis/command.rs");
    let cmd_src = cut(lex_strip(&fs::read_to_string(&cmd_file).unwrap_or_default()));
    let mut fields: Vec<(String, Vec<(String, String)>)> = Vec::new();
    if let Some(p) = cmd_src.find("pub enum Command") {
        if let Some(open) = cmd_src[p..].find('{') {
            if let Some(inner) = balanced(&cmd_src, p + open) {
                for item in split_top(inner, ',', true) {
                    // attributes in front of a variant
                    let mut t = item.trim();
                    while t.starts_with("#[") {
                        match t.find(']') {
                            Some(e) => t = t[e + 1..].trim(),
                            None => break,
                        }
                    }
                    let name = ident_prefix(t);
                    if name.is_empty() {
                        continue;
                    }
                    let rest = t[name.len()..].trim();
                    let mut fs_: Vec<(String, String)> = Vec::new();
                    if rest.starts_with('(') && rest.ends_with(')') {
                        for (i, ty) in split_top(&rest[1..rest.len() - 1], ',', true).iter().enumerate() {
                            fs_.push((i.to_string(), ty.split_whitespace().collect::<String>()));
                        }
                    } else if rest.starts_with('{') && rest.ends_with('}') {
                        for f in split_top(&rest[1..rest.len() - 1], ',', true) {
                            if let Some((n, ty)) = f.split_once(':') {
                                fs_.push((n.trim().trim_start_matches("pub ").to_string(), ty.split_whitespace().collect::<String>()));
                            }
                        }
                    }
                    fields.push((name, fs_));
                }
            }
        }
    }
    if fields.len() < 50 {
        notes.push(format!("enum Command: only {} variants found", fields.len()));
    }
    // ---- get_primary_key: variant → field it returns
    let mut primary: Vec<(String, String)> = Vec::new();
    let field_index = |variant: &str, f: &str| -> Option<usize> {
        fields.iter().find(|(n, _)| n == variant).and_then(|(_, fs_)| fs_.iter().position(|(n, _)| n == f))
    };
    let mut wildcard_sel: Option<String> = None;
    match cmd_src.find("fn get_primary_key") {
        None => notes.push("Command::get_primary_key not found".into()),
        Some(p) => {
            let body = cmd_src[p..].find('{').and_then(|o| balanced(&cmd_src, p + o));
            let inner = body.and_then(|b| b.find("match").and_then(|m| b[m..].find('{').and_then(|o| balanced(b, m + o))));
            match inner {
                None => notes.push("get_primary_key: no `match` in its body".into()),
                Some(inner) => {
                    for (pat, body) in match_arms(inner) {
                        let (pat, guard) = match pat.find(" if ") {
                            Some(g) => (pat[..g].to_string(), pat[g + 4..].to_string()),
                            None => (pat.clone(), String::new()),
                        };
                        for alt in split_top(&pat, '|', false) {
                            let (name, binds) = parse_alt(&alt);
                            let body_t = body.trim().trim_matches(|c| c == '{' || c == '}').trim().to_string();
                            let sel = if !guard.is_empty() {
                                format!("?guarded({})", guard.trim())
                            } else if body_t == "None" {
                                "none".to_string()
                            } else {
                                let used: Vec<&(String, String)> = binds.iter().filter(|(_, b)| word_in(&body_t, b)).collect();
                                if used.len() == 1 {
                                    match field_index(&name, &used[0].0) {
                                        Some(i) if body_t.contains(".first()") || body_t.contains(".get(0)") || body_t.contains("[0]") => format!("first-of-field{}", i),
                                        Some(i) if body_t.starts_with("Some(") => format!("field{}", i),
                                        Some(i) => format!("?field{}({})", i, body_t.split_whitespace().collect::<Vec<_>>().join(" ")),
                                        None => format!("?unknown-field({})", used[0].0),
                                    }
                                } else {
                                    format!("?({})", body_t.split_whitespace().collect::<Vec<_>>().join(" "))
                                }
                            };
                            if name == "_" {
                                wildcard_sel = Some(sel);
                            } else {
                                primary.push((name, sel));
                            }
                        }
                    }
                }
            }
        }
    }
    if let Some(w) = &wildcard_sel {
        for (v, _) in &fields {
            if !primary.iter().any(|(n, _)| n == v) {
                primary.push((v.clone(), w.clone()));
            }
        }
    }
    // ---- ShardedActorState::execute: the variants with an arm of their own
    let sa_file = PathBuf::from(dep).join("src/production/sharded_actor.rs");
    let sa_src = cut(lex_strip(&fs::read_to_string(&sa_file).unwrap_or_default()));
    let mut arms: Vec<(String, String, String)> = Vec::new();
    let mut has_wildcard = false;
    // the LAST `pub async fn execute(` of the file: ShardHandle has one too, ShardedActorState's comes later
    match sa_src.rfind("pub async fn execute(") {
        None => notes.push("ShardedActorState::execute not found".into()),
        Some(p) => {
            let body = sa_src[p..].find('{').and_then(|o| balanced(&sa_src, p + o));
            let inner = body.and_then(|b| b.find("match cmd").and_then(|m| b[m..].find('{').and_then(|o| balanced(b, m + o))));
            match inner {
                None => notes.push("execute: no `match cmd {` in its body".into()),
                Some(inner) => {
                    for (pat, body) in match_arms(inner) {
                        let (pat, guard) = match pat.find(" if ") {
                            Some(g) => (pat[..g].to_string(), pat[g + 4..].split_whitespace().collect::<Vec<_>>().join(" ")),
                            None => (pat.clone(), String::new()),
                        };
                        // features of the arm body (information only: the behaviour is probed on the binary)
                        let mut feats: Vec<&str> = Vec::new();
                        if body.contains("self.shards.iter()") {
                            feats.push("iterates-all-shards");
                        }
                        if body.contains("hash_key(") {
                            feats.push("hash_key");
                        }
                        if body.contains("self.shards[0]") {
                            feats.push("shard0");
                        }
                        if body.contains("get_primary_key") {
                            feats.push("get_primary_key");
                        }
                        if word_in(&body, "return") {
                            feats.push("early-return");
                        }
                        if !body.contains("self.shards") && !body.contains("self.") {
                            feats.push("no-shard-access");
                        }
                        for alt in split_top(&pat, '|', false) {
                            let (name, _) = parse_alt(&alt);
                            if name == "_" {
                                has_wildcard = true;
                            } else if !name.is_empty() {
                                arms.push((name, guard.clone(), feats.join("+")));
                            }
                        }
                    }
                }
            }
        }
    }
    // ---- the model's rows
    let lean = PathBuf::from(std::env::var("CARGO_MANIFEST_DIR").unwrap()).join("../lean/RedisVerif/Model/RouteTable.lean");
    println!("cargo:rerun-if-changed={}", lean.display());
    let mut model_rows: Vec<(String, String, String)> = Vec::new();
    for line in fs::read_to_string(&lean).unwrap_or_default().lines() {
        let t = line.trim();
        if let Some(r) = t.strip_prefix("⟨\"") {
            if let Some((name, rest)) = r.split_once("\", .") {
                let rest = rest.trim_end_matches(',').trim_end_matches(']').trim_end_matches('⟩');
                if let Some((arm, sel)) = rest.split_once(", .") {
                    model_rows.push((name.to_string(), arm.trim().to_string(), sel.trim().to_string()));
                }
            }
        }
    }
    let q = |s: &str| format!("{:?}", s);
    let mut out = String::new();
    out.push_str(&format!(
        "pub const SRC_COMMAND_FIELDS: &[(&str, &[(&str, &str)])] = &[{}];\n",
        fields.iter().map(|(n, fs_)| format!("({}, &[{}])", q(n), fs_.iter().map(|(a, b)| format!("({}, {})", q(a), q(b))).collect::<Vec<_>>().join(", "))).collect::<Vec<_>>().join(", ")
    ));
    out.push_str(&format!("pub const SRC_PRIMARY_KEY: &[(&str, &str)] = &[{}];\n", primary.iter().map(|(a, b)| format!("({}, {})", q(a), q(b))).collect::<Vec<_>>().join(", ")));
    out.push_str(&format!("pub const SRC_EXECUTE_ARMS: &[(&str, &str, &str)] = &[{}];\n", arms.iter().map(|(a, b, c)| format!("({}, {}, {})", q(a), q(b), q(c))).collect::<Vec<_>>().join(", ")));
    out.push_str(&format!("pub const SRC_EXECUTE_HAS_WILDCARD: bool = {};\n", has_wildcard));
    out.push_str(&format!("pub const SRC_ROUTE_SCAN_NOTES: &[&str] = &[{}];\n", notes.iter().map(|s| q(s)).collect::<Vec<_>>().join(", ")));
    out.push_str(&format!("pub const MODEL_ROUTE_ROWS: &[(&str, &str, &str)] = &[{}];\n", model_rows.iter().map(|(a, b, c)| format!("({}, {}, {})", q(a), q(b), q(c))).collect::<Vec<_>>().join(", ")));
    let dest = PathBuf::from(std::env::var("OUT_DIR").unwrap()).join("route_gen.rs");
    fs::write(dest, out).unwrap();
}

// ---------------------------------------------------------------------------------------------
// cutting free functions out of a source text by name (used for the bin-private reply encoders, C15)

/// index just behind the `}` that closes the block opening at `open` (`src[open] == '{'`); string,
/// raw-string, byte-string and char literals and comments are skipped
fn match_brace(src: &[u8], open: usize) -> Option<usize> {
    let mut depth = 0usize;
    let mut i = open;
    while i < src.len() {
        let c = src[i];
        match c {
            b'/' if src.get(i + 1) == Some(&b'/') => {
                while i < src.len() && src[i] != b'\n' {
                    i += 1;
                }
                continue;
            }
            b'/' if src.get(i + 1) == Some(&b'*') => {
                let mut d = 1;
                i += 2;
                while i + 1 < src.len() && d > 0 {
                    if src[i] == b'/' && src[i + 1] == b'*' {
                        d += 1;
                        i += 2;
                    } else if src[i] == b'*' && src[i + 1] == b'/' {
                        d -= 1;
                        i += 2;
                    } else {
                        i += 1;
                    }
                }
                continue;
            }
            b'r' if matches!(src.get(i + 1), Some(&b'"') | Some(&b'#'))
                && (i == 0 || !(src[i - 1].is_ascii_alphanumeric() || src[i - 1] == b'_') || src[i - 1] == b'b') =>
            {
                // raw string r"…" / r#"…"# (also br"…")
                let mut j = i + 1;
                let mut hashes = 0;
                while src.get(j) == Some(&b'#') {
                    hashes += 1;
                    j += 1;
                }
                if src.get(j) == Some(&b'"') {
                    j += 1;
                    'raw: while j < src.len() {
                        if src[j] == b'"' {
                            let mut k = 0;
                            while k < hashes && src.get(j + 1 + k) == Some(&b'#') {
                                k += 1;
                            }
                            if k == hashes {
                                j += 1 + hashes;
                                break 'raw;
                            }
                        }
                        j += 1;
                    }
                    i = j;
                    continue;
                }
            }
            b'"' => {
                i += 1;
                while i < src.len() && src[i] != b'"' {
                    if src[i] == b'\\' {
                        i += 1;
                    }
                    i += 1;
                }
            }
            b'\'' => {
                // a char literal ('x', '\n', '\'', '\u{1f600}', a multi-byte char) or a lifetime ('a)
                if src.get(i + 1) == Some(&b'\\') {
                    i += 3;
                    while i < src.len() && src[i] != b'\'' {
                        i += 1;
                    }
                } else {
                    let close = (2..=5).find(|k| src.get(i + k) == Some(&b'\''));
                    let ident = src.get(i + 1).map(|c| c.is_ascii_alphabetic() || *c == b'_').unwrap_or(false);
                    match close {
                        Some(k) if !(ident && k > 2) => i += k,
                        _ => {}
                    }
                }
            }
            b'{' => depth += 1,
            b'}' => {
                depth -= 1;
                if depth == 0 {
                    return Some(i + 1);
                }
            }
            _ => {}
        }
        i += 1;
    }
    None
}

/// the text of the free function `name` of `src` (from the `fn` keyword — visibility and attributes
/// are dropped — to its closing brace)
fn extract_fn(src: &str, name: &str) -> Option<String> {
    let b = src.as_bytes();
    let pat = format!("fn {}", name);
    let mut from = 0;
    while let Some(off) = src[from..].find(&pat) {
        let at = from + off;
        from = at + pat.len();
        let before_ok = at == 0 || !(b[at - 1].is_ascii_alphanumeric() || b[at - 1] == b'_');
        let after_ok = matches!(b.get(at + pat.len()).copied(), Some(b'(') | Some(b'<') | Some(b' '));
        // only a FREE function: its line starts in column 0 with nothing but visibility / qualifiers
        let line_start = src[..at].rfind('\n').map(|x| x + 1).unwrap_or(0);
        let prefix = &src[line_start..at];
        let free = prefix.chars().next().map(|c| !c.is_whitespace()).unwrap_or(true)
            && prefix.split_whitespace().all(|w| w == "pub" || w.starts_with("pub(") || w == "async" || w == "const" || w == "unsafe");
        if !(before_ok && after_ok && free) {
            continue;
        }
        let open = at + src[at..].find('{')?;
        let end = match_brace(b, open)?;
        return Some(src[at..end].to_string());
    }
    None
}

/// the functions `names` of `src` (all of them, or nothing) and, transitively, the free functions of
/// `src` they call
fn extract_fns(src: &str, names: &[&str]) -> Option<String> {
    let mut have: Vec<String> = Vec::new();
    let mut out = String::new();
    let mut todo: Vec<String> = names.iter().rev().map(|s| s.to_string()).collect();
    while let Some(n) = todo.pop() {
        if have.contains(&n) {
            continue;
        }
        let text = match extract_fn(src, &n) {
            Some(t) => t,
            None if names.contains(&n.as_str()) => return None,
            None => continue,
        };
        have.push(n.clone());
        // identifiers followed by `(` that are neither method calls nor paths: candidate helpers
        let tb = text.as_bytes();
        let mut i = 0;
        while i < tb.len() {
            if tb[i].is_ascii_alphabetic() || tb[i] == b'_' {
                let st = i;
                while i < tb.len() && (tb[i].is_ascii_alphanumeric() || tb[i] == b'_') {
                    i += 1;
                }
                let id = &text[st..i];
                let prev = if st == 0 { b' ' } else { tb[st - 1] };
                if tb.get(i) == Some(&b'(') && prev != b'.' && prev != b':' && id != n && !have.iter().any(|h| h == id) && have.len() + todo.len() < 16 {
                    todo.push(id.to_string());
                }
            } else {
                i += 1;
            }
        }
        out.push_str(&text);
        out.push_str("\n\n");
    }
    Some(out)
}
