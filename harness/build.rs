//! Derives, from the SOURCE of the dependency under test, the list of entry points the C02/C03
//! harness must account for: `ShardMessage` variants, the `pub fn`s of `ShardedActorState` and of
//! `ShardHandle`.  `src/api.rs` maps every name to how it is driven (or why it is not); a name
//! that appears in the source but not in that map is reported by `./check C03` as
//! `C03:api-not-covered:<name>`.
use std::fs;
use std::path::PathBuf;

fn main() {
    let manifest = fs::read_to_string("Cargo.toml").expect("Cargo.toml");
    let dep = manifest
        .lines()
        .find(|l| l.starts_with("redis-sim"))
        .and_then(|l| l.split("path = \"").nth(1))
        .and_then(|r| r.split('"').next())
        .expect("path of redis-sim in Cargo.toml")
        .to_string();
    let file = PathBuf::from(&dep).join("src/production/sharded_actor.rs");
    println!("cargo:rerun-if-changed={}", file.display());
    println!("cargo:rerun-if-changed=Cargo.toml");
    let src = fs::read_to_string(&file).expect("sharded_actor.rs");
    let mut messages = Vec::new();
    let mut handle = Vec::new();
    let mut state = Vec::new();
    let mut config = Vec::new();
    #[derive(PartialEq)]
    enum Sec {
        None,
        Msg,
        Handle,
        State,
        Config,
    }
    let mut sec = Sec::None;
    for line in src.lines() {
        let t = line.trim_start();
        if t.starts_with("pub enum ShardMessage") {
            sec = Sec::Msg;
            continue;
        }
        if t.starts_with("impl ShardHandle") {
            sec = Sec::Handle;
            continue;
        }
        if t.starts_with("impl ShardConfig") {
            sec = Sec::Config;
            continue;
        }
        if t.starts_with("impl ShardedActorState") || t.starts_with("impl<T: TimeSource> ShardedActorState") {
            sec = Sec::State;
            continue;
        }
        if line.starts_with('}') || t.starts_with("impl ShardActor ") || t.starts_with("impl Default for") {
            if line.starts_with('}') {
                sec = Sec::None;
            }
            continue;
        }
        match sec {
            Sec::Msg => {
                if line.starts_with("    ") && !line.starts_with("     ") {
                    let name: String = t.chars().take_while(|c| c.is_alphanumeric()).collect();
                    if !name.is_empty() && name.chars().next().unwrap().is_uppercase() {
                        messages.push(name);
                    }
                }
            }
            Sec::Handle | Sec::State | Sec::Config => {
                let is_pub = t.starts_with("pub fn ") || t.starts_with("pub async fn ");
                let is_priv_handle = sec == Sec::Handle && (t.starts_with("async fn ") || t.starts_with("fn "));
                if is_pub || is_priv_handle {
                    let after = t.split("fn ").nth(1).unwrap_or("");
                    let name: String = after.chars().take_while(|c| c.is_alphanumeric() || *c == '_').collect();
                    match sec {
                        Sec::Handle => handle.push(name),
                        Sec::State => state.push(name),
                        _ => config.push(name),
                    }
                }
            }
            Sec::None => {}
        }
    }
    let list = |v: &Vec<String>| v.iter().map(|s| format!("{:?}", s)).collect::<Vec<_>>().join(", ");
    let out = format!(
        "pub const SHARD_MESSAGES: &[&str] = &[{}];\npub const HANDLE_FNS: &[&str] = &[{}];\npub const STATE_PUB_FNS: &[&str] = &[{}];\npub const CONFIG_PUB_FNS: &[&str] = &[{}];\n",
        list(&messages),
        list(&handle),
        list(&state),
        list(&config)
    );
    let dest = PathBuf::from(std::env::var("OUT_DIR").unwrap()).join("api_gen.rs");
    fs::write(dest, out).unwrap();
    wal_scan(&dep);
}

/// C09 / C10 / C14: entry points, enum variants, config fields and PRIVATE constants of the WAL /
/// segment / checkpoint / gossip sources, derived from the tree the binary is built against
/// (`OUT_DIR/wal_gen.rs`, included by `src/c09.rs`).  The public constants are taken from the crate
/// itself.  A list that comes out empty makes the check fail (`…:coverage:source-scan-failed`).
fn wal_scan(dep: &str) {
    let read = |rel: &str| -> String {
        let f = PathBuf::from(dep).join(rel);
        println!("cargo:rerun-if-changed={}", f.display());
        fs::read_to_string(&f).unwrap_or_default()
    };
    // variants of `pub enum <name>` (identifiers at 4 spaces of indentation)
    let variants = |src: &str, name: &str| -> Vec<String> {
        let mut v = Vec::new();
        let mut inside = false;
        for line in src.lines() {
            if line.starts_with(&format!("pub enum {} ", name)) || line.starts_with(&format!("pub enum {}{{", name)) {
                inside = true;
                continue;
            }
            if inside {
                if line.starts_with('}') {
                    break;
                }
                if line.starts_with("    ") && !line.starts_with("     ") {
                    let id: String = line.trim_start().chars().take_while(|c| c.is_alphanumeric() || *c == '_').collect();
                    if !id.is_empty() && id.chars().next().unwrap().is_uppercase() {
                        v.push(id);
                    }
                }
            }
        }
        v
    };
    // `pub fn` / `pub async fn` / (traits: `fn`) names inside the block that starts with a line beginning with `head`
    let fns = |src: &str, head: &str, all: bool| -> Vec<String> {
        let mut v = Vec::new();
        let mut inside = false;
        for line in src.lines() {
            if line.starts_with(head) {
                inside = true;
                continue;
            }
            if inside {
                if line.starts_with('}') {
                    break;
                }
                let t = line.trim_start();
                let indent = line.len() - t.len();
                if indent == 4 && (t.starts_with("pub fn ") || t.starts_with("pub async fn ") || (all && (t.starts_with("fn ") || t.starts_with("async fn ")))) {
                    let after = t.split("fn ").nth(1).unwrap_or("");
                    let id: String = after.chars().take_while(|c| c.is_alphanumeric() || *c == '_').collect();
                    v.push(id);
                }
            }
        }
        v
    };
    // fields of `pub struct <name> {`
    let fields = |src: &str, name: &str| -> Vec<String> {
        let mut v = Vec::new();
        let mut inside = false;
        for line in src.lines() {
            if line.starts_with(&format!("pub struct {} {{", name)) {
                inside = true;
                continue;
            }
            if inside {
                if line.starts_with('}') {
                    break;
                }
                let t = line.trim_start();
                if line.starts_with("    pub ") {
                    let id: String = t[4..].chars().take_while(|c| c.is_alphanumeric() || *c == '_').collect();
                    v.push(id);
                }
            }
        }
        v
    };
    // value of `const NAME: T = <number>;`
    let konst = |src: &str, name: &str| -> String {
        for line in src.lines() {
            let t = line.trim_start().trim_start_matches("pub ");
            if t.starts_with(&format!("const {}:", name)) {
                if let Some(v) = t.split('=').nth(1) {
                    let v = v.trim().trim_end_matches(';').trim();
                    let num: String = v.chars().filter(|c| c.is_ascii_digit()).collect();
                    if !num.is_empty() && v.chars().all(|c| c.is_ascii_digit() || c == '_') {
                        return num;
                    }
                    // byte-string constants: b"RCHK"
                    if let Some(q) = v.split('"').nth(1) {
                        return format!("{:?}", q);
                    }
                }
            }
        }
        "0".to_string()
    };
    let actor = read("src/streaming/wal_actor.rs");
    let config = read("src/streaming/wal_config.rs");
    let store = read("src/streaming/wal_store.rs");
    let wal = read("src/streaming/wal.rs");
    let seg = read("src/streaming/segment.rs");
    let chk = read("src/streaming/checkpoint.rs");
    let gossip = read("src/replication/gossip.rs");
    let crdt = read("src/replication/state/crdt_value.rs");
    let list = |v: &Vec<String>| v.iter().map(|s| format!("{:?}", s)).collect::<Vec<_>>().join(", ");
    let mut out = String::new();
    let mut push = |name: &str, v: Vec<String>| out.push_str(&format!("pub const {}: &[&str] = &[{}];\n", name, list(&v)));
    push("WAL_MESSAGES", variants(&actor, "WalMessage"));
    push("FSYNC_POLICIES", variants(&config, "FsyncPolicy"));
    push("WAL_ERRORS", variants(&store, "WalError"));
    push("WAL_HANDLE_FNS", fns(&actor, "impl WalActorHandle", false));
    push("WAL_CONFIG_FIELDS", fields(&config, "WalConfig"));
    push("WAL_CONFIG_FNS", fns(&config, "impl WalConfig", false));
    push("WAL_STORE_TRAIT_FNS", fns(&store, "pub trait WalStore", true));
    push("WAL_WRITER_TRAIT_FNS", fns(&store, "pub trait WalFileWriter", true));
    push("WAL_ROTATOR_FNS", fns(&wal, "impl<S: WalStore> WalRotator<S>", false));
    push("WAL_ENTRY_FNS", fns(&wal, "impl WalEntry", false));
    push("WAL_READER_FNS", fns(&wal, "impl WalReader", false));
    push("WAL_WRITER_FNS", fns(&wal, "impl<W: WalFileWriter> WalWriter<W>", false));
    push("SEGMENT_READER_FNS", fns(&seg, "impl SegmentReader", false));
    push("SEGMENT_WRITER_FNS", fns(&seg, "impl SegmentWriter", false));
    push("SEGMENT_ERRORS", variants(&seg, "SegmentError"));
    push("CHECKPOINT_READER_FNS", fns(&chk, "impl<'a> CheckpointReader<'a>", false));
    push("CHECKPOINT_WRITER_FNS", fns(&chk, "impl CheckpointWriter", false));
    push("CHECKPOINT_ERRORS", variants(&chk, "CheckpointError"));
    push("GOSSIP_MESSAGES", variants(&gossip, "GossipMessage"));
    push("CRDT_VARIANTS", variants(&crdt, "CrdtValue"));
    out.push_str(&format!("pub const SRC_WAL_CHANNEL_CAPACITY: usize = {};\n", konst(&actor, "WAL_CHANNEL_CAPACITY")));
    out.push_str(&format!("pub const SRC_SEGMENT_HEADER_SIZE: usize = {};\n", konst(&seg, "HEADER_SIZE")));
    out.push_str(&format!("pub const SRC_SEGMENT_FOOTER_SIZE: usize = {};\n", konst(&seg, "FOOTER_SIZE")));
    out.push_str(&format!("pub const SRC_CHECKPOINT_HEADER_SIZE: usize = {};\n", konst(&chk, "CHECKPOINT_HEADER_SIZE")));
    out.push_str(&format!("pub const SRC_CHECKPOINT_VERSION: usize = {};\n", konst(&chk, "CHECKPOINT_VERSION")));
    out.push_str(&format!("pub const SRC_CHECKPOINT_MAGIC: &str = {};\n", konst(&chk, "CHECKPOINT_MAGIC")));
    let dest = PathBuf::from(std::env::var("OUT_DIR").unwrap()).join("wal_gen.rs");
    fs::write(dest, out).unwrap();
}
