//! Derives, from the SOURCE of the dependency under test, the list of entry points the C02/C03
//! harness must account for: `ShardMessage` variants, the `pub fn`s of `ShardedActorState` and of
//! `ShardHandle`.  `src/api.rs` maps every name to how it is driven (or why it is not); a name
//! that appears in the source but not in that map is reported by `./check C03` as
//! `C03:api-not-covered:<name>`.
use std::fs;
use std::path::PathBuf;

fn main() {
    let manifest = fs::read_to_string("Cargo.toml").expect("Cargo.toml");
    let dep = manifest
        .lines()
        .find(|l| l.starts_with("redis-sim"))
        .and_then(|l| l.split("path = \"").nth(1))
        .and_then(|r| r.split('"').next())
        .expect("path of redis-sim in Cargo.toml")
        .to_string();
    // optional verification hooks of the tree this harness is built against:
    //   cfg `verif_h1c` = `production::verif_hooks::encode_reply` (hook H1c) is present.
    // (./check C15 reports `C15:coverage:hook-h1c-absent` when it is not: encoders 3 and 4 would
    // silently go undriven.)
    println!("cargo:rustc-check-cfg=cfg(verif_h1c)");
    let hooks = PathBuf::from(&dep).join("src/production/mod.rs");
    println!("cargo:rerun-if-changed={}", hooks.display());
    if fs::read_to_string(&hooks).map(|s| s.contains("pub fn encode_reply")).unwrap_or(false) {
        println!("cargo:rustc-cfg=verif_h1c");
    }
    // the reply encoders of the binary src/bin/server_persistent.rs (private to a bin target): their
    // SOURCE TEXT is compiled into the harness (cfg `verif_persist_enc`) so that C15 drives that very code
    println!("cargo:rustc-check-cfg=cfg(verif_persist_enc)");
    let persist = PathBuf::from(&dep).join("src/bin/server_persistent.rs");
    println!("cargo:rerun-if-changed={}", persist.display());
    if let Ok(ps) = fs::read_to_string(&persist) {
        if let Some(i) = ps.find("\nfn encode_resp_into(") {
            let rest = &ps[i..];
            let end = rest.find("\n#[cfg(test)]").unwrap_or(rest.len());
            let text = &rest[..end];
            if text.contains("fn encode_error_into(") {
                let dest = PathBuf::from(std::env::var("OUT_DIR").unwrap()).join("persist_enc.rs");
                fs::write(dest, text).unwrap();
                println!("cargo:rustc-cfg=verif_persist_enc");
            }
        }
    }
    let file = PathBuf::from(&dep).join("src/production/sharded_actor.rs");
    println!("cargo:rerun-if-changed={}", file.display());
    println!("cargo:rerun-if-changed=Cargo.toml");
    let src = fs::read_to_string(&file).expect("sharded_actor.rs");
    let mut messages = Vec::new();
    let mut handle = Vec::new();
    let mut state = Vec::new();
    let mut config = Vec::new();
    #[derive(PartialEq)]
    enum Sec {
        None,
        Msg,
        Handle,
        State,
        Config,
    }
    let mut sec = Sec::None;
    for line in src.lines() {
        let t = line.trim_start();
        if t.starts_with("pub enum ShardMessage") {
            sec = Sec::Msg;
            continue;
        }
        if t.starts_with("impl ShardHandle") {
            sec = Sec::Handle;
            continue;
        }
        if t.starts_with("impl ShardConfig") {
            sec = Sec::Config;
            continue;
        }
        if t.starts_with("impl ShardedActorState") || t.starts_with("impl<T: TimeSource> ShardedActorState") {
            sec = Sec::State;
            continue;
        }
        if line.starts_with('}') || t.starts_with("impl ShardActor ") || t.starts_with("impl Default for") {
            if line.starts_with('}') {
                sec = Sec::None;
            }
            continue;
        }
        match sec {
            Sec::Msg => {
                if line.starts_with("    ") && !line.starts_with("     ") {
                    let name: String = t.chars().take_while(|c| c.is_alphanumeric()).collect();
                    if !name.is_empty() && name.chars().next().unwrap().is_uppercase() {
                        messages.push(name);
                    }
                }
            }
            Sec::Handle | Sec::State | Sec::Config => {
                let is_pub = t.starts_with("pub fn ") || t.starts_with("pub async fn ");
                let is_priv_handle = sec == Sec::Handle && (t.starts_with("async fn ") || t.starts_with("fn "));
                if is_pub || is_priv_handle {
                    let after = t.split("fn ").nth(1).unwrap_or("");
                    let name: String = after.chars().take_while(|c| c.is_alphanumeric() || *c == '_').collect();
                    match sec {
                        Sec::Handle => handle.push(name),
                        Sec::State => state.push(name),
                        _ => config.push(name),
                    }
                }
            }
            Sec::None => {}
        }
    }
    // ---- can routing change at run time?  Facts about the routing state, from the source:
    // the fields of ShardedActorState, every method taking `&mut self`, every assignment to
    // `num_shards` / in-place mutation of `shards`, and every consumer of a ScalingDecision outside
    // the load balancer / adaptive actor themselves (non-test code of the whole crate).
    let mut fields: Vec<(String, String)> = Vec::new();
    let mut mut_self: Vec<String> = Vec::new();
    let mut assigns: Vec<String> = Vec::new();
    {
        let mut in_struct = false;
        let mut in_state_impl = false;
        for (ln, line) in src.lines().enumerate() {
            let t = line.trim_start();
            if t.starts_with("#[cfg(test)]") {
                break;
            }
            if t.starts_with("pub struct ShardedActorState") {
                in_struct = true;
                continue;
            }
            if in_struct {
                if line.starts_with('}') {
                    in_struct = false;
                } else if !t.starts_with("//") && !t.starts_with('#') {
                    if let Some((n, ty)) = t.split_once(':') {
                        fields.push((n.trim().trim_start_matches("pub ").to_string(), ty.trim().trim_end_matches(',').to_string()));
                    }
                }
                continue;
            }
            if t.starts_with("impl") && t.contains("ShardedActorState") {
                in_state_impl = true;
            } else if line.starts_with('}') {
                in_state_impl = false;
            }
            if in_state_impl && t.contains("fn ") && t.contains("&mut self") {
                let after = t.split("fn ").nth(1).unwrap_or("");
                mut_self.push(after.chars().take_while(|c| c.is_alphanumeric() || *c == '_').collect());
            }
            let squeezed: String = t.split_whitespace().collect::<Vec<_>>().join(" ");
            let assigns_num = squeezed.contains(".num_shards =") && !squeezed.contains(".num_shards ==");
            if assigns_num || squeezed.contains("Arc::get_mut") || squeezed.contains("Arc::make_mut") || squeezed.contains("self.shards.push") || squeezed.contains("self.shards =") {
                assigns.push(format!("sharded_actor.rs:{}: {}", ln + 1, squeezed));
            }
        }
    }
    let mut consumers: Vec<String> = Vec::new();
    {
        fn walk(dir: &std::path::Path, acc: &mut Vec<PathBuf>) {
            if let Ok(rd) = fs::read_dir(dir) {
                for e in rd.flatten() {
                    let p = e.path();
                    if p.is_dir() {
                        walk(&p, acc);
                    } else if p.extension().map(|x| x == "rs").unwrap_or(false) {
                        acc.push(p);
                    }
                }
            }
        }
        let mut files = Vec::new();
        let root = PathBuf::from(&dep).join("src");
        walk(&root, &mut files);
        files.sort();
        for f in files {
            println!("cargo:rerun-if-changed={}", f.display());
            let name = f.strip_prefix(&root).unwrap().display().to_string();
            if name == "production/load_balancer.rs" || name == "production/adaptive_actor.rs" {
                continue;
            }
            let text = fs::read_to_string(&f).unwrap_or_default();
            for (ln, line) in text.lines().enumerate() {
                let t = line.trim_start();
                if t.starts_with("#[cfg(test)]") {
                    break;
                }
                if t.starts_with("//") {
                    continue;
                }
                let uses_decision = t.contains("ScalingDecision::") || t.contains(".check_scaling(") || t.contains("recommend_scaling") || t.contains("analyze_scaling");
                let is_decl = t.starts_with("pub async fn check_scaling") || t.starts_with("use ") || t.starts_with("pub use ");
                // ShardedActorState::check_scaling forwards the question to the adaptive actor and
                // RETURNS the decision: a forwarder, not a consumer
                let forwards = name == "production/sharded_actor.rs" && t.starts_with("handle.check_scaling(");
                if uses_decision && !is_decl && !forwards {
                    consumers.push(format!("{}:{}: {}", name, ln + 1, t));
                }
            }
        }
    }
    // ---- the dispatch layer: (a) the pub fns of ShardedActorState whose body reaches `self.shards`
    // (a shard mailbox); (b) every call site `<…>state.<pub fn>(` in the other files of
    // src/production that hold a ShardedActorState (connection handler, TTL manager, servers)
    let mut mailbox_fns: Vec<String> = Vec::new();
    {
        let mut cur: Option<String> = None;
        let mut in_state_impl = false;
        for line in src.lines() {
            let t = line.trim_start();
            if t.starts_with("#[cfg(test)]") {
                break;
            }
            if t.starts_with("impl") && t.contains("ShardedActorState") {
                in_state_impl = true;
            } else if line.starts_with('}') {
                in_state_impl = false;
                cur = None;
            }
            if !in_state_impl {
                continue;
            }
            if t.starts_with("pub fn ") || t.starts_with("pub async fn ") || t.starts_with("fn ") || t.starts_with("async fn ") {
                let is_pub = t.starts_with("pub ");
                let after = t.split("fn ").nth(1).unwrap_or("");
                let name: String = after.chars().take_while(|c| c.is_alphanumeric() || *c == '_').collect();
                cur = if is_pub { Some(name) } else { None };
            }
            if t.contains("self.shards") && !t.starts_with("//") {
                if let Some(n) = &cur {
                    if !mailbox_fns.contains(n) {
                        mailbox_fns.push(n.clone());
                    }
                }
            }
        }
        mailbox_fns.sort();
    }
    let mut call_sites: Vec<(String, String)> = Vec::new();
    {
        let dir = PathBuf::from(&dep).join("src/production");
        let mut files: Vec<PathBuf> = fs::read_dir(&dir).map(|rd| rd.flatten().map(|e| e.path()).filter(|p| p.extension().map(|x| x == "rs").unwrap_or(false)).collect()).unwrap_or_default();
        files.sort();
        for f in files {
            let name = f.file_name().unwrap().to_string_lossy().to_string();
            if name == "sharded_actor.rs" {
                continue;
            }
            let text = fs::read_to_string(&f).unwrap_or_default();
            if !text.contains("ShardedActorState") {
                continue;
            }
            for (ln, line) in text.lines().enumerate() {
                let t = line.trim_start();
                if t.starts_with("#[cfg(test)]") {
                    break;
                }
                if t.starts_with("//") {
                    continue;
                }
                for fname in &state {
                    if t.contains(&format!("state.{}(", fname)) {
                        call_sites.push((fname.clone(), format!("{}:{}", name, ln + 1)));
                    }
                }
            }
        }
    }
    let list = |v: &Vec<String>| v.iter().map(|s| format!("{:?}", s)).collect::<Vec<_>>().join(", ");
    let out = format!(
        "pub const SHARD_MESSAGES: &[&str] = &[{}];\npub const HANDLE_FNS: &[&str] = &[{}];\npub const STATE_PUB_FNS: &[&str] = &[{}];\npub const CONFIG_PUB_FNS: &[&str] = &[{}];\n",
        list(&messages),
        list(&handle),
        list(&state),
        list(&config)
    );
    let out = format!(
        "{}pub const STATE_FIELDS: &[(&str, &str)] = &[{}];\npub const STATE_MUT_SELF_FNS: &[&str] = &[{}];\npub const ROUTING_STATE_MUTATIONS: &[&str] = &[{}];\npub const SCALING_DECISION_CONSUMERS: &[&str] = &[{}];\n",
        out,
        fields.iter().map(|(a, b)| format!("({:?}, {:?})", a, b)).collect::<Vec<_>>().join(", "),
        list(&mut_self),
        list(&assigns),
        list(&consumers)
    );
    let out = format!(
        "{}pub const MAILBOX_REACHING_FNS: &[&str] = &[{}];\npub const STATE_CALL_SITES: &[(&str, &str)] = &[{}];\n",
        out,
        list(&mailbox_fns),
        call_sites.iter().map(|(a, b)| format!("({:?}, {:?})", a, b)).collect::<Vec<_>>().join(", ")
    );
    let dest = PathBuf::from(std::env::var("OUT_DIR").unwrap()).join("api_gen.rs");
    fs::write(dest, out).unwrap();
    data_api(&dep);
    command_api(&dep);
    wal_scan(&dep);
}

/// `pub fn` / `pub(crate) fn` names of the FIRST inherent `impl <Type> {` block of every data-structure
/// source file (up to the closing `}` in column 0 or `#[cfg(test)]`), for `src/datax.rs`: a name that
/// is in the source but not in its coverage map is reported by `./check C01` as
/// `C01:coverage:data-fn-not-driven:<file>::<fn>`.
fn data_api(dep: &str) {
    let mut rows: Vec<(String, String)> = Vec::new();
    for f in ["skiplist", "sorted_set", "list", "sds", "set", "hash"] {
        let file = PathBuf::from(dep).join(format!("src/redis/data/{}.rs", f));
        println!("cargo:rerun-if-changed={}", file.display());
        let src = fs::read_to_string(&file).unwrap_or_else(|e| panic!("{}: {}", file.display(), e));
        let mut inside = false;
        for line in src.lines() {
            let t = line.trim_start();
            if t.starts_with("#[cfg(test)]") {
                break;
            }
            if !inside {
                if line.starts_with("impl") && !line.contains(" for ") && line.trim_end().ends_with('{') {
                    inside = true;
                }
                continue;
            }
            if line.starts_with('}') {
                break;
            }
            let after = if let Some(r) = t.strip_prefix("pub fn ") {
                r
            } else if let Some(r) = t.strip_prefix("pub(crate) fn ") {
                r
            } else if let Some(r) = t.strip_prefix("pub const fn ") {
                r
            } else {
                continue;
            };
            let name: String = after.chars().take_while(|c| c.is_alphanumeric() || *c == '_').collect();
            if !name.is_empty() {
                rows.push((format!("{}.rs", f), name));
            }
        }
        if !inside {
            panic!("{}: no inherent `impl <Type> {{` block found — the data-structure source changed shape", file.display());
        }
    }
    let body = rows.iter().map(|(f, n)| format!("({:?}, {:?})", f, n)).collect::<Vec<_>>().join(", ");
    let out = format!("pub const DATA_PUB_FNS: &[(&str, &str)] = &[{}];\n", body);
    let dest = PathBuf::from(std::env::var("OUT_DIR").unwrap()).join("data_api_gen.rs");
    fs::write(dest, out).unwrap();
}

/// From `src/redis/command.rs`: the variants of `enum Command` and the variants listed in the
/// `matches!` of `Command::is_read_only`; from `src/redis/executor/mod.rs`: the `pub fn`s of
/// `impl CommandExecutor`.  `src/redisx.rs` / `src/c17.rs` compare them with what the harness drives
/// and with the classification the binary computes (`C17:source:*`, `C01:coverage:executor-fn-*`).
fn command_api(dep: &str) {
    let file = PathBuf::from(dep).join("src/redis/command.rs");
    println!("cargo:rerun-if-changed={}", file.display());
    let src = fs::read_to_string(&file).unwrap_or_else(|e| panic!("{}: {}", file.display(), e));
    // enum variants: lines indented by exactly 4 spaces inside `pub enum Command {`
    let mut variants: Vec<String> = Vec::new();
    let mut inside = false;
    for line in src.lines() {
        if line.starts_with("pub enum Command") {
            inside = true;
            continue;
        }
        if inside {
            if line.starts_with('}') {
                break;
            }
            if line.starts_with("    ") && !line.starts_with("     ") {
                let t = line.trim_start();
                let name: String = t.chars().take_while(|c| c.is_alphanumeric()).collect();
                if !name.is_empty() && name.chars().next().unwrap().is_uppercase() {
                    variants.push(name);
                }
            }
        }
    }
    if variants.len() < 50 {
        panic!("command.rs: only {} variants of `pub enum Command` found — the source changed shape", variants.len());
    }
    // is_read_only: everything between `pub fn is_read_only` and the next `pub fn`
    let start = src.find("pub fn is_read_only").expect("command.rs: pub fn is_read_only not found");
    let rest = &src[start + 10..];
    let end = rest.find("pub fn ").unwrap_or(rest.len());
    // comments (`// …` to the end of the line, `/* … */`) say nothing about the classification
    let body_owned: String = {
        let mut out = String::new();
        let mut in_block = false;
        for line in rest[..end].lines() {
            let mut l = line.to_string();
            loop {
                if in_block {
                    match l.find("*/") {
                        Some(i) => {
                            l = l[i + 2..].to_string();
                            in_block = false;
                        }
                        None => {
                            l.clear();
                            break;
                        }
                    }
                } else if let Some(i) = l.find("/*") {
                    let (a, b) = l.split_at(i);
                    out.push_str(a);
                    l = b[2..].to_string();
                    in_block = true;
                } else {
                    break;
                }
            }
            if let Some(i) = l.find("//") {
                l.truncate(i);
            }
            out.push_str(&l);
            out.push('\n');
        }
        out
    };
    let body = body_owned.as_str();
    let mut ro: Vec<String> = Vec::new();
    // plain = nothing but `Command::X` / `Command::X(_, …)` / `Command::X { .. }` alternatives of one matches!
    let mut plain = body.contains("matches!(");
    let inner = body.split("matches!(").nth(1).unwrap_or("");
    let inner = inner.split("\n        )").next().unwrap_or(inner);
    for part in inner.split("Command::").skip(1) {
        let name: String = part.chars().take_while(|c| c.is_alphanumeric()).collect();
        let tail: String = part[name.len()..].split('|').next().unwrap_or("").chars().filter(|c| !c.is_whitespace()).collect();
        let ok = matches!(tail.as_str(), "" | "(_)" | "(_,_)" | "(_,_,_)" | "(_,_,_,_)" | "(_,_,_,_,_)" | "{..}");
        if !ok {
            plain = false;
        }
        if !name.is_empty() {
            ro.push(name);
        }
    }
    if inner.split("Command::").count() != body.split("Command::").count() {
        plain = false; // `Command::` outside the matches!: some other form of classification
    }
    // executor entry points
    let file = PathBuf::from(dep).join("src/redis/executor/mod.rs");
    println!("cargo:rerun-if-changed={}", file.display());
    let src = fs::read_to_string(&file).unwrap_or_else(|e| panic!("{}: {}", file.display(), e));
    // a `pub fn` is an ENTRY POINT for C01 / C17 when it can change the keyspace or produce a reply:
    // `&mut self`, or a `RespValue` in the signature, or no receiver at all (a constructor). A `&self`
    // function that returns something else is an accessor: it is listed in the evidence, but a new one
    // cannot reach the property and does not fail the check.
    let mut fns: Vec<String> = Vec::new();
    let mut accessors: Vec<String> = Vec::new();
    let mut inside = false;
    let lines: Vec<&str> = src.lines().collect();
    for (li, line) in lines.iter().enumerate() {
        if line.starts_with("impl CommandExecutor") {
            inside = true;
            continue;
        }
        if inside && line.starts_with('}') {
            inside = false;
            continue;
        }
        if inside {
            let t = line.trim_start();
            if line.starts_with("    pub fn ") {
                let name: String = t["pub fn ".len()..].chars().take_while(|c| c.is_alphanumeric() || *c == '_').collect();
                let mut sig = String::new();
                for l in &lines[li..(li + 12).min(lines.len())] {
                    sig.push_str(l);
                    sig.push(' ');
                    if l.contains('{') {
                        break;
                    }
                }
                let entry = sig.contains("&mut self") || sig.contains("RespValue") || !sig.contains("self");
                if entry {
                    fns.push(name);
                } else {
                    accessors.push(name);
                }
            }
        }
    }
    if fns.len() < 5 {
        panic!("executor/mod.rs: only {} pub fns of `impl CommandExecutor` found — the source changed shape", fns.len());
    }
    let list = |v: &Vec<String>| v.iter().map(|s| format!("{:?}", s)).collect::<Vec<_>>().join(", ");
    let out = format!(
        "pub const COMMAND_VARIANTS: &[&str] = &[{}];\npub const READ_ONLY_VARIANTS: &[&str] = &[{}];\npub const READ_ONLY_IS_PLAIN_LIST: bool = {};\npub const EXECUTOR_PUB_FNS: &[&str] = &[{}];\npub const EXECUTOR_ACCESSOR_FNS: &[&str] = &[{}];\n",
        list(&variants),
        list(&ro),
        plain,
        list(&fns),
        list(&accessors)
    );
    let dest = PathBuf::from(std::env::var("OUT_DIR").unwrap()).join("command_api_gen.rs");
    fs::write(dest, out).unwrap();
}

/// C09 / C10 / C14: entry points, enum variants, config fields and PRIVATE constants of the WAL /
/// segment / checkpoint / gossip sources, derived from the tree the binary is built against
/// (`OUT_DIR/wal_gen.rs`, included by `src/c09.rs`).  The public constants are taken from the crate
/// itself.  A list that comes out empty makes the check fail (`…:coverage:source-scan-failed`).
fn wal_scan(dep: &str) {
    let read = |rel: &str| -> String {
        let f = PathBuf::from(dep).join(rel);
        println!("cargo:rerun-if-changed={}", f.display());
        fs::read_to_string(&f).unwrap_or_default()
    };
    // variants of `pub enum <name>` (identifiers at 4 spaces of indentation)
    let variants = |src: &str, name: &str| -> Vec<String> {
        let mut v = Vec::new();
        let mut inside = false;
        for line in src.lines() {
            if line.starts_with(&format!("pub enum {} ", name)) || line.starts_with(&format!("pub enum {}{{", name)) {
                inside = true;
                continue;
            }
            if inside {
                if line.starts_with('}') {
                    break;
                }
                if line.starts_with("    ") && !line.starts_with("     ") {
                    let id: String = line.trim_start().chars().take_while(|c| c.is_alphanumeric() || *c == '_').collect();
                    if !id.is_empty() && id.chars().next().unwrap().is_uppercase() {
                        v.push(id);
                    }
                }
            }
        }
        v
    };
    // `pub fn` / `pub async fn` / (traits: `fn`) names inside the block that starts with a line beginning with `head`
    let fns = |src: &str, head: &str, all: bool| -> Vec<String> {
        let mut v = Vec::new();
        let mut inside = false;
        for line in src.lines() {
            if line.starts_with(head) {
                inside = true;
                continue;
            }
            if inside {
                if line.starts_with('}') {
                    break;
                }
                let t = line.trim_start();
                let indent = line.len() - t.len();
                if indent == 4 && (t.starts_with("pub fn ") || t.starts_with("pub async fn ") || (all && (t.starts_with("fn ") || t.starts_with("async fn ")))) {
                    let after = t.split("fn ").nth(1).unwrap_or("");
                    let id: String = after.chars().take_while(|c| c.is_alphanumeric() || *c == '_').collect();
                    v.push(id);
                }
            }
        }
        v
    };
    // fields of `pub struct <name> {`
    let fields = |src: &str, name: &str| -> Vec<String> {
        let mut v = Vec::new();
        let mut inside = false;
        for line in src.lines() {
            if line.starts_with(&format!("pub struct {} {{", name)) {
                inside = true;
                continue;
            }
            if inside {
                if line.starts_with('}') {
                    break;
                }
                let t = line.trim_start();
                if line.starts_with("    pub ") {
                    let id: String = t[4..].chars().take_while(|c| c.is_alphanumeric() || *c == '_').collect();
                    v.push(id);
                }
            }
        }
        v
    };
    // value of `const NAME: T = <number>;`
    let konst = |src: &str, name: &str| -> String {
        for line in src.lines() {
            let t = line.trim_start().trim_start_matches("pub ");
            if t.starts_with(&format!("const {}:", name)) {
                if let Some(v) = t.split('=').nth(1) {
                    let v = v.trim().trim_end_matches(';').trim();
                    let num: String = v.chars().filter(|c| c.is_ascii_digit()).collect();
                    if !num.is_empty() && v.chars().all(|c| c.is_ascii_digit() || c == '_') {
                        return num;
                    }
                    // byte-string constants: b"RCHK"
                    if let Some(q) = v.split('"').nth(1) {
                        return format!("{:?}", q);
                    }
                }
            }
        }
        "0".to_string()
    };
    let actor = read("src/streaming/wal_actor.rs");
    let config = read("src/streaming/wal_config.rs");
    let store = read("src/streaming/wal_store.rs");
    let wal = read("src/streaming/wal.rs");
    let seg = read("src/streaming/segment.rs");
    let chk = read("src/streaming/checkpoint.rs");
    let gossip = read("src/replication/gossip.rs");
    let crdt = read("src/replication/state/crdt_value.rs");
    let list = |v: &Vec<String>| v.iter().map(|s| format!("{:?}", s)).collect::<Vec<_>>().join(", ");
    let mut out = String::new();
    let mut push = |name: &str, v: Vec<String>| out.push_str(&format!("pub const {}: &[&str] = &[{}];\n", name, list(&v)));
    push("WAL_MESSAGES", variants(&actor, "WalMessage"));
    push("FSYNC_POLICIES", variants(&config, "FsyncPolicy"));
    push("WAL_ERRORS", variants(&store, "WalError"));
    push("WAL_HANDLE_FNS", fns(&actor, "impl WalActorHandle", false));
    push("WAL_CONFIG_FIELDS", fields(&config, "WalConfig"));
    push("WAL_CONFIG_FNS", fns(&config, "impl WalConfig", false));
    push("WAL_STORE_TRAIT_FNS", fns(&store, "pub trait WalStore", true));
    push("WAL_WRITER_TRAIT_FNS", fns(&store, "pub trait WalFileWriter", true));
    push("WAL_ROTATOR_FNS", fns(&wal, "impl<S: WalStore> WalRotator<S>", false));
    push("WAL_ENTRY_FNS", fns(&wal, "impl WalEntry", false));
    push("WAL_READER_FNS", fns(&wal, "impl WalReader", false));
    push("WAL_WRITER_FNS", fns(&wal, "impl<W: WalFileWriter> WalWriter<W>", false));
    push("SEGMENT_READER_FNS", fns(&seg, "impl SegmentReader", false));
    push("SEGMENT_WRITER_FNS", fns(&seg, "impl SegmentWriter", false));
    push("SEGMENT_ERRORS", variants(&seg, "SegmentError"));
    push("CHECKPOINT_READER_FNS", fns(&chk, "impl<'a> CheckpointReader<'a>", false));
    push("CHECKPOINT_WRITER_FNS", fns(&chk, "impl CheckpointWriter", false));
    push("CHECKPOINT_ERRORS", variants(&chk, "CheckpointError"));
    push("GOSSIP_MESSAGES", variants(&gossip, "GossipMessage"));
    push("CRDT_VARIANTS", variants(&crdt, "CrdtValue"));
    out.push_str(&format!("pub const SRC_WAL_CHANNEL_CAPACITY: usize = {};\n", konst(&actor, "WAL_CHANNEL_CAPACITY")));
    out.push_str(&format!("pub const SRC_SEGMENT_HEADER_SIZE: usize = {};\n", konst(&seg, "HEADER_SIZE")));
    out.push_str(&format!("pub const SRC_SEGMENT_FOOTER_SIZE: usize = {};\n", konst(&seg, "FOOTER_SIZE")));
    out.push_str(&format!("pub const SRC_CHECKPOINT_HEADER_SIZE: usize = {};\n", konst(&chk, "CHECKPOINT_HEADER_SIZE")));
    out.push_str(&format!("pub const SRC_CHECKPOINT_VERSION: usize = {};\n", konst(&chk, "CHECKPOINT_VERSION")));
    out.push_str(&format!("pub const SRC_CHECKPOINT_MAGIC: &str = {};\n", konst(&chk, "CHECKPOINT_MAGIC")));
    let dest = PathBuf::from(std::env::var("OUT_DIR").unwrap()).join("wal_gen.rs");
    fs::write(dest, out).unwrap();
}
