//! Detects optional verification hooks of the redis-sim tree this harness is built against, so
//! that the harness builds before and after a hook commit has landed:
//!   cfg `verif_h1c` = `production::verif_hooks::encode_reply` (hook H1c) is present.
use std::fs;

fn main() {
    println!("cargo:rustc-check-cfg=cfg(verif_h1c)");
    println!("cargo:rerun-if-changed=Cargo.toml");
    let manifest = fs::read_to_string("Cargo.toml").unwrap_or_default();
    let path = manifest
        .lines()
        .find(|l| l.trim_start().starts_with("redis-sim"))
        .and_then(|l| l.split("path").nth(1))
        .and_then(|r| r.split('"').nth(1))
        .unwrap_or("/repo")
        .to_string();
    let f = format!("{}/src/production/mod.rs", path);
    println!("cargo:rerun-if-changed={}", f);
    if fs::read_to_string(&f).map(|s| s.contains("pub fn encode_reply")).unwrap_or(false) {
        println!("cargo:rustc-cfg=verif_h1c");
    }
}
