//! Derives, from the SOURCE of the dependency under test, the list of entry points the C02/C03
//! harness must account for: `ShardMessage` variants, the `pub fn`s of `ShardedActorState` and of
//! `ShardHandle`.  `src/api.rs` maps every name to how it is driven (or why it is not); a name
//! that appears in the source but not in that map is reported by `./check C03` as
//! `C03:api-not-covered:<name>`.
use std::fs;
use std::path::PathBuf;

fn main() {
    let manifest = fs::read_to_string("Cargo.toml").expect("Cargo.toml");
    let dep = manifest
        .lines()
        .find(|l| l.starts_with("redis-sim"))
        .and_then(|l| l.split("path = \"").nth(1))
        .and_then(|r| r.split('"').next())
        .expect("path of redis-sim in Cargo.toml")
        .to_string();
    let file = PathBuf::from(&dep).join("src/production/sharded_actor.rs");
    println!("cargo:rerun-if-changed={}", file.display());
    println!("cargo:rerun-if-changed=Cargo.toml");
    let src = fs::read_to_string(&file).expect("sharded_actor.rs");
    let mut messages = Vec::new();
    let mut handle = Vec::new();
    let mut state = Vec::new();
    let mut config = Vec::new();
    #[derive(PartialEq)]
    enum Sec {
        None,
        Msg,
        Handle,
        State,
        Config,
    }
    let mut sec = Sec::None;
    for line in src.lines() {
        let t = line.trim_start();
        if t.starts_with("pub enum ShardMessage") {
            sec = Sec::Msg;
            continue;
        }
        if t.starts_with("impl ShardHandle") {
            sec = Sec::Handle;
            continue;
        }
        if t.starts_with("impl ShardConfig") {
            sec = Sec::Config;
            continue;
        }
        if t.starts_with("impl ShardedActorState") || t.starts_with("impl<T: TimeSource> ShardedActorState") {
            sec = Sec::State;
            continue;
        }
        if line.starts_with('}') || t.starts_with("impl ShardActor ") || t.starts_with("impl Default for") {
            if line.starts_with('}') {
                sec = Sec::None;
            }
            continue;
        }
        match sec {
            Sec::Msg => {
                if line.starts_with("    ") && !line.starts_with("     ") {
                    let name: String = t.chars().take_while(|c| c.is_alphanumeric()).collect();
                    if !name.is_empty() && name.chars().next().unwrap().is_uppercase() {
                        messages.push(name);
                    }
                }
            }
            Sec::Handle | Sec::State | Sec::Config => {
                let is_pub = t.starts_with("pub fn ") || t.starts_with("pub async fn ");
                let is_priv_handle = sec == Sec::Handle && (t.starts_with("async fn ") || t.starts_with("fn "));
                if is_pub || is_priv_handle {
                    let after = t.split("fn ").nth(1).unwrap_or("");
                    let name: String = after.chars().take_while(|c| c.is_alphanumeric() || *c == '_').collect();
                    match sec {
                        Sec::Handle => handle.push(name),
                        Sec::State => state.push(name),
                        _ => config.push(name),
                    }
                }
            }
            Sec::None => {}
        }
    }
    // ---- can routing change at run time?  Facts about the routing state, from the source:
    // the fields of ShardedActorState, every method taking `&mut self`, every assignment to
    // `num_shards` / in-place mutation of `shards`, and every consumer of a ScalingDecision outside
    // the load balancer / adaptive actor themselves (non-test code of the whole crate).
    let mut fields: Vec<(String, String)> = Vec::new();
    let mut mut_self: Vec<String> = Vec::new();
    let mut assigns: Vec<String> = Vec::new();
    {
        let mut in_struct = false;
        let mut in_state_impl = false;
        for (ln, line) in src.lines().enumerate() {
            let t = line.trim_start();
            if t.starts_with("#[cfg(test)]") {
                break;
            }
            if t.starts_with("pub struct ShardedActorState") {
                in_struct = true;
                continue;
            }
            if in_struct {
                if line.starts_with('}') {
                    in_struct = false;
                } else if !t.starts_with("//") && !t.starts_with('#') {
                    if let Some((n, ty)) = t.split_once(':') {
                        fields.push((n.trim().trim_start_matches("pub ").to_string(), ty.trim().trim_end_matches(',').to_string()));
                    }
                }
                continue;
            }
            if t.starts_with("impl") && t.contains("ShardedActorState") {
                in_state_impl = true;
            } else if line.starts_with('}') {
                in_state_impl = false;
            }
            if in_state_impl && t.contains("fn ") && t.contains("&mut self") {
                let after = t.split("fn ").nth(1).unwrap_or("");
                mut_self.push(after.chars().take_while(|c| c.is_alphanumeric() || *c == '_').collect());
            }
            let squeezed: String = t.split_whitespace().collect::<Vec<_>>().join(" ");
            let assigns_num = squeezed.contains(".num_shards =") && !squeezed.contains(".num_shards ==");
            if assigns_num || squeezed.contains("Arc::get_mut") || squeezed.contains("Arc::make_mut") || squeezed.contains("self.shards.push") || squeezed.contains("self.shards =") {
                assigns.push(format!("sharded_actor.rs:{}: {}", ln + 1, squeezed));
            }
        }
    }
    let mut consumers: Vec<String> = Vec::new();
    {
        fn walk(dir: &std::path::Path, acc: &mut Vec<PathBuf>) {
            if let Ok(rd) = fs::read_dir(dir) {
                for e in rd.flatten() {
                    let p = e.path();
                    if p.is_dir() {
                        walk(&p, acc);
                    } else if p.extension().map(|x| x == "rs").unwrap_or(false) {
                        acc.push(p);
                    }
                }
            }
        }
        let mut files = Vec::new();
        let root = PathBuf::from(&dep).join("src");
        walk(&root, &mut files);
        files.sort();
        for f in files {
            println!("cargo:rerun-if-changed={}", f.display());
            let name = f.strip_prefix(&root).unwrap().display().to_string();
            if name == "production/load_balancer.rs" || name == "production/adaptive_actor.rs" {
                continue;
            }
            let text = fs::read_to_string(&f).unwrap_or_default();
            for (ln, line) in text.lines().enumerate() {
                let t = line.trim_start();
                if t.starts_with("#[cfg(test)]") {
                    break;
                }
                if t.starts_with("//") {
                    continue;
                }
                let uses_decision = t.contains("ScalingDecision::") || t.contains(".check_scaling(") || t.contains("recommend_scaling") || t.contains("analyze_scaling");
                let is_decl = t.starts_with("pub async fn check_scaling") || t.starts_with("use ") || t.starts_with("pub use ");
                // ShardedActorState::check_scaling forwards the question to the adaptive actor and
                // RETURNS the decision: a forwarder, not a consumer
                let forwards = name == "production/sharded_actor.rs" && t.starts_with("handle.check_scaling(");
                if uses_decision && !is_decl && !forwards {
                    consumers.push(format!("{}:{}: {}", name, ln + 1, t));
                }
            }
        }
    }
    // ---- the dispatch layer: (a) the pub fns of ShardedActorState whose body reaches `self.shards`
    // (a shard mailbox); (b) every call site `<…>state.<pub fn>(` in the other files of
    // src/production that hold a ShardedActorState (connection handler, TTL manager, servers)
    let mut mailbox_fns: Vec<String> = Vec::new();
    {
        let mut cur: Option<String> = None;
        let mut in_state_impl = false;
        for line in src.lines() {
            let t = line.trim_start();
            if t.starts_with("#[cfg(test)]") {
                break;
            }
            if t.starts_with("impl") && t.contains("ShardedActorState") {
                in_state_impl = true;
            } else if line.starts_with('}') {
                in_state_impl = false;
                cur = None;
            }
            if !in_state_impl {
                continue;
            }
            if t.starts_with("pub fn ") || t.starts_with("pub async fn ") || t.starts_with("fn ") || t.starts_with("async fn ") {
                let is_pub = t.starts_with("pub ");
                let after = t.split("fn ").nth(1).unwrap_or("");
                let name: String = after.chars().take_while(|c| c.is_alphanumeric() || *c == '_').collect();
                cur = if is_pub { Some(name) } else { None };
            }
            if t.contains("self.shards") && !t.starts_with("//") {
                if let Some(n) = &cur {
                    if !mailbox_fns.contains(n) {
                        mailbox_fns.push(n.clone());
                    }
                }
            }
        }
        mailbox_fns.sort();
    }
    let mut call_sites: Vec<(String, String)> = Vec::new();
    {
        let dir = PathBuf::from(&dep).join("src/production");
        let mut files: Vec<PathBuf> = fs::read_dir(&dir).map(|rd| rd.flatten().map(|e| e.path()).filter(|p| p.extension().map(|x| x == "rs").unwrap_or(false)).collect()).unwrap_or_default();
        files.sort();
        for f in files {
            let name = f.file_name().unwrap().to_string_lossy().to_string();
            if name == "sharded_actor.rs" {
                continue;
            }
            let text = fs::read_to_string(&f).unwrap_or_default();
            if !text.contains("ShardedActorState") {
                continue;
            }
            for (ln, line) in text.lines().enumerate() {
                let t = line.trim_start();
                if t.starts_with("#[cfg(test)]") {
                    break;
                }
                if t.starts_with("//") {
                    continue;
                }
                for fname in &state {
                    if t.contains(&format!("state.{}(", fname)) {
                        call_sites.push((fname.clone(), format!("{}:{}", name, ln + 1)));
                    }
                }
            }
        }
    }
    let list = |v: &Vec<String>| v.iter().map(|s| format!("{:?}", s)).collect::<Vec<_>>().join(", ");
    let out = format!(
        "pub const SHARD_MESSAGES: &[&str] = &[{}];\npub const HANDLE_FNS: &[&str] = &[{}];\npub const STATE_PUB_FNS: &[&str] = &[{}];\npub const CONFIG_PUB_FNS: &[&str] = &[{}];\n",
        list(&messages),
        list(&handle),
        list(&state),
        list(&config)
    );
    let out = format!(
        "{}pub const STATE_FIELDS: &[(&str, &str)] = &[{}];\npub const STATE_MUT_SELF_FNS: &[&str] = &[{}];\npub const ROUTING_STATE_MUTATIONS: &[&str] = &[{}];\npub const SCALING_DECISION_CONSUMERS: &[&str] = &[{}];\n",
        out,
        fields.iter().map(|(a, b)| format!("({:?}, {:?})", a, b)).collect::<Vec<_>>().join(", "),
        list(&mut_self),
        list(&assigns),
        list(&consumers)
    );
    let out = format!(
        "{}pub const MAILBOX_REACHING_FNS: &[&str] = &[{}];\npub const STATE_CALL_SITES: &[(&str, &str)] = &[{}];\n",
        out,
        list(&mailbox_fns),
        call_sites.iter().map(|(a, b)| format!("({:?}, {:?})", a, b)).collect::<Vec<_>>().join(", ")
    );
    let dest = PathBuf::from(std::env::var("OUT_DIR").unwrap()).join("api_gen.rs");
    fs::write(dest, out).unwrap();
}
