//! Derives, from the SOURCE of the dependency under test, the list of entry points the C02/C03
//! harness must account for: `ShardMessage` variants, the `pub fn`s of `ShardedActorState` and of
//! `ShardHandle`.  `src/api.rs` maps every name to how it is driven (or why it is not); a name
//! that appears in the source but not in that map is reported by `./check C03` as
//! `C03:api-not-covered:<name>`.
use std::fs;
use std::path::PathBuf;

fn main() {
    let manifest = fs::read_to_string("Cargo.toml").expect("Cargo.toml");
    let dep = manifest
        .lines()
        .find(|l| l.starts_with("redis-sim"))
        .and_then(|l| l.split("path = \"").nth(1))
        .and_then(|r| r.split('"').next())
        .expect("path of redis-sim in Cargo.toml")
        .to_string();
    // optional verification hooks of the tree this harness is built against:
    //   cfg `verif_h1c` = `production::verif_hooks::encode_reply` (hook H1c) is present.
    // (./check C15 reports `C15:coverage:hook-h1c-absent` when it is not: encoders 3 and 4 would
    // silently go undriven.)
    println!("cargo:rustc-check-cfg=cfg(verif_h1c)");
    let hooks = PathBuf::from(&dep).join("src/production/mod.rs");
    println!("cargo:rerun-if-changed={}", hooks.display());
    if fs::read_to_string(&hooks).map(|s| s.contains("pub fn encode_reply")).unwrap_or(false) {
        println!("cargo:rustc-cfg=verif_h1c");
    }
    // the reply encoders of the binary src/bin/server_persistent.rs (private to a bin target): their
    // SOURCE TEXT is compiled into the harness (cfg `verif_persist_enc`) so that C15 drives that very code
    println!("cargo:rustc-check-cfg=cfg(verif_persist_enc)");
    let persist = PathBuf::from(&dep).join("src/bin/server_persistent.rs");
    println!("cargo:rerun-if-changed={}", persist.display());
    if let Ok(ps) = fs::read_to_string(&persist) {
        if let Some(i) = ps.find("\nfn encode_resp_into(") {
            let rest = &ps[i..];
            let end = rest.find("\n#[cfg(test)]").unwrap_or(rest.len());
            let text = &rest[..end];
            if text.contains("fn encode_error_into(") {
                let dest = PathBuf::from(std::env::var("OUT_DIR").unwrap()).join("persist_enc.rs");
                fs::write(dest, text).unwrap();
                println!("cargo:rustc-cfg=verif_persist_enc");
            }
        }
    }
    let file = PathBuf::from(&dep).join("src/production/sharded_actor.rs");
    println!("cargo:rerun-if-changed={}", file.display());
    println!("cargo:rerun-if-changed=Cargo.toml");
    let src = fs::read_to_string(&file).expect("sharded_actor.rs");
    let mut messages = Vec::new();
    let mut handle = Vec::new();
    let mut state = Vec::new();
    let mut config = Vec::new();
    #[derive(PartialEq)]
    enum Sec {
        None,
        Msg,
        Handle,
        State,
        Config,
    }
    let mut sec = Sec::None;
    for line in src.lines() {
        let t = line.trim_start();
        if t.starts_with("pub enum ShardMessage") {
            sec = Sec::Msg;
            continue;
        }
        if t.starts_with("impl ShardHandle") {
            sec = Sec::Handle;
            continue;
        }
        if t.starts_with("impl ShardConfig") {
            sec = Sec::Config;
            continue;
        }
        if t.starts_with("impl ShardedActorState") || t.starts_with("impl<T: TimeSource> ShardedActorState") {
            sec = Sec::State;
            continue;
        }
        if line.starts_with('}') || t.starts_with("impl ShardActor ") || t.starts_with("impl Default for") {
            if line.starts_with('}') {
                sec = Sec::None;
            }
            continue;
        }
        match sec {
            Sec::Msg => {
                if line.starts_with("    ") && !line.starts_with("     ") {
                    let name: String = t.chars().take_while(|c| c.is_alphanumeric()).collect();
                    if !name.is_empty() && name.chars().next().unwrap().is_uppercase() {
                        messages.push(name);
                    }
                }
            }
            Sec::Handle | Sec::State | Sec::Config => {
                let is_pub = t.starts_with("pub fn ") || t.starts_with("pub async fn ");
                let is_priv_handle = sec == Sec::Handle && (t.starts_with("async fn ") || t.starts_with("fn "));
                if is_pub || is_priv_handle {
                    let after = t.split("fn ").nth(1).unwrap_or("");
                    let name: String = after.chars().take_while(|c| c.is_alphanumeric() || *c == '_').collect();
                    match sec {
                        Sec::Handle => handle.push(name),
                        Sec::State => state.push(name),
                        _ => config.push(name),
                    }
                }
            }
            Sec::None => {}
        }
    }
    let list = |v: &Vec<String>| v.iter().map(|s| format!("{:?}", s)).collect::<Vec<_>>().join(", ");
    let out = format!(
        "pub const SHARD_MESSAGES: &[&str] = &[{}];\npub const HANDLE_FNS: &[&str] = &[{}];\npub const STATE_PUB_FNS: &[&str] = &[{}];\npub const CONFIG_PUB_FNS: &[&str] = &[{}];\n",
        list(&messages),
        list(&handle),
        list(&state),
        list(&config)
    );
    let dest = PathBuf::from(std::env::var("OUT_DIR").unwrap()).join("api_gen.rs");
    fs::write(dest, out).unwrap();
}
