//! C06, message level — correspondence of the Lean model `Model/Gossip.lean` with the real code
//! between `record_*` and `apply_remote_delta`:
//!  * histories on real `ShardReplicaState`s (with their `pending_deltas`) + real `GossipState`s
//!    (`queue_deltas` broadcast / selective through a real `GossipRouter` over a real `HashRing`,
//!    `queue_deltas_broadcast`, `queue_heartbeat`, `advance_epoch`, `drain_outbound`, both capacity
//!    limits crossed), the loop body of `start_gossip_loop` replayed call by call, frames handed
//!    over in any order / multiplicity / never, losses accounted by cause; per key the flags
//!    delivered / delivered-to-owners / kind / agree are compared with the model and the property
//!    is evaluated on the real states (owners that got everything agree);
//!  * the real `GossipActor` against a `GossipState` twin, every mailbox message kind;
//!  * a real `ReplicatedShardedState` (`execute` → gossip state, `collect_pending_deltas`);
//!  * the real `GossipManager::start_gossip_loop[_with_actor]` over loopback TCP: which frame reaches which
//!    peer (the loop's `peer_map` arithmetic, broadcast vs targeted, a refused connection).
//! Every name of the anchored files that can move a delta is enumerated from the SOURCE the binary
//! was built against and must be accounted for (`coverage` below): a new variant / fn nobody drives
//! fails the check.
use crate::enc::{hex, key_cmp, MRv};
use crate::out::Out;
use crate::rng::Rng;
use redis_sim::production::{GossipActor, GossipManager, ReplicatedShardedState};
use redis_sim::redis::{Command, SDS};
use redis_sim::replication::gossip::{GossipMessage, GossipState, RoutedMessage, MAX_OUTBOUND_QUEUE};
use redis_sim::replication::lattice::ReplicaId;
use redis_sim::replication::state::{ReplicationDelta, ShardReplicaState};
use redis_sim::replication::{ConsistencyLevel, GossipRouter, HashRing, ReplicationConfig};
use serde_json::json;
use std::collections::{BTreeMap, BTreeSet, HashMap};
use std::sync::{Arc, RwLock};

const KEYS: [&str; 4] = ["k", "h", "é", "zz"];
const FIELDS: [&str; 3] = ["f", "g", "ab"];

/// the source tree this binary was BUILT against (path dependency of harness/Cargo.toml)
pub fn repo_dir() -> String {
    const MANIFEST: &str = include_str!("../Cargo.toml");
    for line in MANIFEST.lines() {
        if line.trim_start().starts_with("redis-sim") {
            if let Some(i) = line.find("path = \"") {
                let rest = &line[i + 8..];
                if let Some(j) = rest.find('"') {
                    return rest[..j].to_string();
                }
            }
        }
    }
    "/repo".to_string()
}

pub fn read_src(rel: &str) -> Option<String> {
    std::fs::read_to_string(format!("{}/{}", repo_dir(), rel)).ok()
}

/// the part of a source file before its test module
pub fn non_test(src: &str) -> &str {
    match src.find("#[cfg(test)]") {
        Some(i) => &src[..i],
        None => src,
    }
}

/// `const NAME: usize = 100;` / `pub const NAME: usize = 10_000;`
pub fn scan_const(src: &str, name: &str) -> Option<u64> {
    for l in src.lines() {
        let t = l.trim_start().trim_start_matches("pub ").trim_start();
        if let Some(r) = t.strip_prefix("const ") {
            if let Some(r) = r.strip_prefix(name) {
                if let Some(eq) = r.find('=') {
                    let v: String = r[eq + 1..].chars().filter(|c| c.is_ascii_digit()).collect();
                    return v.parse().ok();
                }
            }
        }
    }
    None
}

/// variants of `pub enum <name>` (top-level identifiers of the body)
pub fn scan_enum(src: &str, name: &str) -> Vec<String> {
    let mut v = Vec::new();
    let stripped: String = src.lines().map(|l| l.split("//").next().unwrap_or("")).collect::<Vec<_>>().join("\n");
    let src: &str = &stripped;
    let Some(start) = src.find(&format!("pub enum {}", name)) else { return v };
    let body = &src[start..];
    let Some(open) = body.find('{') else { return v };
    let mut depth = 0i32;
    let mut cur = String::new();
    let mut at_item_start = true;
    for ch in body[open..].chars() {
        match ch {
            '{' | '(' => {
                if depth == 1 && !cur.is_empty() {
                    v.push(std::mem::take(&mut cur));
                }
                depth += 1;
            }
            '}' | ')' => {
                depth -= 1;
                if depth == 0 {
                    if !cur.is_empty() {
                        v.push(std::mem::take(&mut cur));
                    }
                    break;
                }
            }
            ',' if depth == 1 => {
                if !cur.is_empty() {
                    v.push(std::mem::take(&mut cur));
                }
                at_item_start = true;
            }
            c if depth == 1 => {
                if c.is_alphanumeric() || c == '_' {
                    if at_item_start || !cur.is_empty() {
                        cur.push(c);
                        at_item_start = false;
                    }
                } else if !cur.is_empty() {
                    v.push(std::mem::take(&mut cur));
                }
            }
            _ => {}
        }
    }
    v.retain(|s| s.chars().next().map(|c| c.is_uppercase()).unwrap_or(false));
    v
}

/// `pub fn` / `pub async fn` names inside `impl [<..>] <ty>[<..>] {` blocks of a file (non-test part)
pub fn scan_pub_fns(src: &str, ty: &str) -> Vec<String> {
    let mut v = Vec::new();
    let mut inside = false;
    for l in non_test(src).lines() {
        let t = l.trim_start();
        if l.starts_with("impl") {
            let head = l.split('{').next().unwrap_or("");
            let names: Vec<&str> = head.split(|c: char| !(c.is_alphanumeric() || c == '_')).filter(|s| !s.is_empty()).collect();
            // `impl X`, `impl<T: B> X<T>`; trait impls (`impl Trait for X`) are not API
            inside = names.contains(&ty) && !head.contains(" for ");
            continue;
        }
        if l.starts_with('}') {
            inside = false;
            continue;
        }
        if inside && (t.starts_with("pub fn ") || t.starts_with("pub async fn ")) {
            let after = t.split("fn ").nth(1).unwrap_or("");
            let name: String = after.chars().take_while(|c| c.is_alphanumeric() || *c == '_').collect();
            v.push(name);
        }
    }
    v
}

/// like `scan_pub_fns`, with the signature text (from `pub fn` up to the body / the `;`)
pub fn scan_pub_fn_sigs(src: &str, ty: &str) -> Vec<(String, String)> {
    let mut v = Vec::new();
    let mut inside = false;
    let lines: Vec<&str> = non_test(src).lines().collect();
    let mut i = 0;
    while i < lines.len() {
        let l = lines[i];
        let t = l.trim_start();
        if l.starts_with("impl") {
            let head = l.split('{').next().unwrap_or("");
            let names: Vec<&str> = head.split(|c: char| !(c.is_alphanumeric() || c == '_')).filter(|s| !s.is_empty()).collect();
            inside = names.contains(&ty) && !head.contains(" for ");
        } else if l.starts_with('}') {
            inside = false;
        } else if inside && (t.starts_with("pub fn ") || t.starts_with("pub async fn ")) {
            let after = t.split("fn ").nth(1).unwrap_or("");
            let name: String = after.chars().take_while(|c| c.is_alphanumeric() || *c == '_').collect();
            let mut sig = String::new();
            let mut j = i;
            while j < lines.len() {
                let part = lines[j].split('{').next().unwrap_or("");
                sig.push_str(part.trim());
                sig.push(' ');
                if lines[j].contains('{') || lines[j].trim_end().ends_with(';') {
                    break;
                }
                j += 1;
            }
            v.push((name, sig));
        }
        i += 1;
    }
    v
}

/// a `pub fn` that only LOOKS: shared receiver (`&self`, not `&mut self` / `self`) and a return type
/// that cannot carry a delta, a message, a route or a channel.  Such a function cannot move an
/// update; a new one is recorded in the evidence, not judged.
pub fn is_observer_sig(sig: &str) -> bool {
    let shared = sig.contains("&self") && !sig.contains("&mut self");
    if !shared {
        return false;
    }
    let ret = sig.split("->").nth(1).unwrap_or("");
    !["Delta", "Message", "Routed", "RoutingTable", "Vec<", "Sender", "Receiver", "Handle", "impl ", "Self", "Gossip"].iter().any(|w| ret.contains(w))
}

/// every `.rs` file under `dir` of the tree the harness was built against
pub fn rs_files_under(dir: &str) -> Vec<String> {
    let mut out = Vec::new();
    let root = format!("{}/{}", repo_dir(), dir);
    let mut stack = vec![root.clone()];
    while let Some(d) = stack.pop() {
        let Ok(rd) = std::fs::read_dir(&d) else { continue };
        for e in rd.flatten() {
            let p = e.path();
            if p.is_dir() {
                stack.push(p.to_string_lossy().to_string());
            } else if p.extension().map(|x| x == "rs").unwrap_or(false) {
                out.push(p.to_string_lossy().to_string());
            }
        }
    }
    out.sort();
    out
}

/// the `pub fn`s of `impl <ty>` blocks in ANY file under `dirs` (an impl block split over files, or
/// moved into a private submodule, is still found)
pub fn scan_pub_fn_sigs_tree(dirs: &[&str], ty: &str) -> Vec<(String, String)> {
    let mut v: Vec<(String, String)> = Vec::new();
    for d in dirs {
        for f in rs_files_under(d) {
            if let Ok(src) = std::fs::read_to_string(&f) {
                for x in scan_pub_fn_sigs(&src, ty) {
                    if !v.iter().any(|y| y.0 == x.0) {
                        v.push(x);
                    }
                }
            }
        }
    }
    v
}

// ---------------------------------------------------------------------------------------------
// canonical text of messages (same grammar as lean/RedisVerif/Driver/C06Msg.lean)
// ---------------------------------------------------------------------------------------------

fn did(d: &ReplicationDelta) -> String {
    format!("{}/{}/{}.{}", d.source_replica.0.wrapping_sub(1), hex(d.key.as_bytes()), d.value.timestamp.time, d.value.timestamp.replica_id.0)
}

fn dids(ds: &[ReplicationDelta]) -> String {
    format!("[{}]", ds.iter().map(did).collect::<Vec<_>>().join(","))
}

fn show_gmsg(m: &GossipMessage) -> String {
    match m {
        GossipMessage::DeltaBatch { source_replica, deltas, epoch } => format!("B:{}:{}:{}", source_replica.0, epoch, dids(deltas)),
        GossipMessage::TargetedDelta { source_replica, target_replica, deltas, epoch } => format!("T:{}:{}:{}:{}", source_replica.0, target_replica.0, epoch, dids(deltas)),
        GossipMessage::SyncRequest { source_replica, .. } => format!("Q:{}", source_replica.0),
        GossipMessage::SyncResponse { source_replica, deltas } => format!("P:{}:{}", source_replica.0, dids(deltas)),
        GossipMessage::Heartbeat { source_replica, epoch } => format!("H:{}:{}", source_replica.0, epoch),
    }
}

fn show_routed(r: &RoutedMessage) -> String {
    format!("{}={}", r.target.map(|t| t.0.to_string()).unwrap_or("*".into()), show_gmsg(&r.message))
}

fn summary(v: &[String]) -> String {
    if v.len() <= 8 {
        v.join(" ")
    } else {
        let mut s: Vec<String> = v[..3].to_vec();
        s.push("…".into());
        s.extend_from_slice(&v[v.len() - 3..]);
        s.join(" ")
    }
}

fn payload(m: &GossipMessage) -> Vec<ReplicationDelta> {
    m.clone().into_deltas().unwrap_or_default()
}

// ---------------------------------------------------------------------------------------------
// a real node
// ---------------------------------------------------------------------------------------------

#[derive(Clone)]
struct RSpec {
    selective: bool,
    /// key → target replica ids (`get_gossip_targets` ∩ `peer_addresses`), as told to the model
    table: BTreeMap<String, Vec<u64>>,
}

impl RSpec {
    fn show(spec: &Option<RSpec>) -> String {
        match spec {
            None => "-".into(),
            Some(r) => {
                let mut keys: Vec<&String> = r.table.keys().collect();
                keys.sort_by(|a, b| key_cmp(a, b));
                let mut s = format!("R {} {}", r.selective as u8, keys.len());
                for k in keys {
                    let t = &r.table[k];
                    s.push_str(&format!(" {} {}", hex(k.as_bytes()), t.len()));
                    for x in t {
                        s.push_str(&format!(" {}", x));
                    }
                }
                s
            }
        }
    }
}

/// a real `GossipRouter` over a real `HashRing` of `n` replicas with replication factor `rf`, for
/// replica `rid`, knowing the addresses of `known` (replica ids); and what it does to our keys
fn make_router(n: usize, rf: usize, vnodes: u32, rid: u64, known: &[u64], selective: bool) -> (GossipRouter, RSpec) {
    let ids: Vec<ReplicaId> = (1..=n as u64).map(ReplicaId::new).collect();
    let ring = Arc::new(RwLock::new(HashRing::new(ids, vnodes, rf)));
    let peers: HashMap<ReplicaId, String> = known.iter().map(|r| (ReplicaId::new(*r), format!("addr{}", r))).collect();
    let mut table = BTreeMap::new();
    {
        let g = ring.read().unwrap();
        for k in KEYS {
            let t: Vec<u64> = g.get_gossip_targets(k, ReplicaId::new(rid)).into_iter().map(|r| r.0).filter(|r| known.contains(r)).collect();
            table.insert(k.to_string(), t);
        }
    }
    (GossipRouter::new(ring, ReplicaId::new(rid), peers, selective), RSpec { selective, table })
}

struct RNode {
    shard: ShardReplicaState,
    g: GossipState,
    enabled: bool,
    collect: bool,
    rid: u64,
    peers: Vec<usize>,
    spec: Option<RSpec>,
}

/// what the gossip loops of gossip_manager.rs compute TODAY (`(i as u64) >= config.replica_id`);
/// `true` after the repair.  Determined from the real loop by `tcp_scenarios` (and cross-checked
/// against the source text), never assumed.
#[derive(Clone, Copy, PartialEq)]
struct PeerIdFixed(bool);

fn peer_id(fixed: PeerIdFixed, rid: u64, i: u64) -> u64 {
    if fixed.0 {
        if i + 1 >= rid { i + 2 } else { i + 1 }
    } else if i >= rid {
        i + 2
    } else {
        i + 1
    }
}

fn cfg_text(nd: &RNode, fixed: PeerIdFixed) -> String {
    let mut s = format!("{} {} {} {} {}", nd.enabled as u8, nd.rid, nd.collect as u8, fixed.0 as u8, nd.peers.len());
    for p in &nd.peers {
        s.push_str(&format!(" {}", p));
    }
    s.push(' ');
    s.push_str(&RSpec::show(&nd.spec));
    s
}

struct Packet {
    to: usize,
    msg: GossipMessage,
}

struct World {
    nodes: Vec<RNode>,
    wire: Vec<Packet>,
    issued: Vec<(usize, ReplicationDelta)>,
    /// (node, delta id) applied
    log: BTreeSet<(usize, String)>,
    text: String,
    fixed: PeerIdFixed,
    lost_total: usize,
}

fn loss_text(l: &[(String, &'static str, Option<usize>)]) -> String {
    let mut s = format!("lost={}", l.len());
    for (id, why, to) in l {
        s.push_str(&format!(" {}:{}:{}", id, why, to.map(|t| t.to_string()).unwrap_or("-".into())));
    }
    s
}

/// what a queue operation dropped from the FRONT: `after` is a suffix of `before ++ pushed`
fn dropped_front(before: &[String], after: &[String]) -> usize {
    for d in 0..=before.len() {
        let keep = before.len() - d;
        if keep <= after.len() && before[d..] == after[..keep] {
            return d;
        }
    }
    before.len()
}


/// run one queue operation on a real `GossipState`; returns the messages the capacity took from the
/// FRONT and the targets of the newly queued messages in queue order.  The pushed messages are
/// recognised by what they carry (the new deltas; a heartbeat is one message), so nothing here
/// presumes how many messages a call queues.  That the queue drops from the front is checked by the
/// `MQ` lines and by which delta the peer ends up without.
fn queue_op(g: &mut GossipState, new_ids: &BTreeSet<String>, heartbeat: bool, f: impl FnOnce(&mut GossipState)) -> (Vec<RoutedMessage>, Vec<u64>) {
    let before_len = g.outbound_queue.len();
    let head: Vec<RoutedMessage> = g.outbound_queue.iter().take(64).cloned().collect();
    f(g);
    let after = &g.outbound_queue;
    let p = if after.len() < MAX_OUTBOUND_QUEUE {
        // below the limit nothing can have been dropped (dropping leaves the queue AT the limit)
        after.len().saturating_sub(before_len)
    } else if heartbeat {
        1
    } else {
        after.iter().rev().take_while(|r| payload(&r.message).iter().any(|d| new_ids.contains(&did(d)))).count()
    };
    let d = (before_len + p).saturating_sub(after.len()).min(head.len());
    let order = after[after.len().saturating_sub(p)..].iter().filter_map(|r| r.target.map(|t| t.0)).collect();
    (head[..d].to_vec(), order)
}

impl World {
    fn op(&mut self, out: &mut Out, line: String, ans: String) {
        self.text.push_str(&line);
        self.text.push(';');
        out.op(line, ans);
    }

    /// the order in which the newly queued targeted messages sit in the real queue
    fn order_of(pushed: &[RoutedMessage]) -> Vec<u64> {
        pushed.iter().filter_map(|r| r.target.map(|t| t.0)).collect()
    }

    fn order_text(o: &[u64]) -> String {
        let mut s = format!("O {}", o.len());
        for t in o {
            s.push_str(&format!(" {}", t));
        }
        s
    }

    fn local(&mut self, out: &mut Out, i: usize, key: &str, op: LocalOp) {
        let hk = hex(key.as_bytes());
        let nd = &mut self.nodes[i];
        let pend_before: Vec<String> = nd.shard.pending_deltas.iter().map(did).collect();
        let (mut line, delta): (String, Option<ReplicationDelta>) = match op {
            LocalOp::W(v, exp) => (format!("ML {} W {} {} {}", i, hk, hex(&v), exp.map(|e| e.to_string()).unwrap_or("-".into())), Some(nd.shard.record_write(key.to_string(), SDS::new(v), exp))),
            LocalOp::D => (format!("ML {} D {}", i, hk), nd.shard.record_delete(key.to_string())),
            LocalOp::HW(fs) => {
                let mut l = format!("ML {} HW {} {}", i, hk, fs.len());
                for (f, v) in &fs {
                    l.push_str(&format!(" {} {}", hex(f.as_bytes()), hex(v)));
                }
                (l, Some(nd.shard.record_hash_write(key.to_string(), fs.into_iter().map(|(f, v)| (f, SDS::new(v))).collect())))
            }
            LocalOp::HD(fs) => {
                let mut l = format!("ML {} HD {} {}", i, hk, fs.len());
                for f in &fs {
                    l.push_str(&format!(" {}", hex(f.as_bytes())));
                }
                (l, nd.shard.record_hash_delete(key.to_string(), fs))
            }
        };
        let mut lost: Vec<(String, &'static str, Option<usize>)> = Vec::new();
        let mut order = Vec::new();
        if let Some(d) = &delta {
            // pending queue: before ++ [d], minus what the capacity took
            let mut expect = pend_before.clone();
            expect.push(did(d));
            let after: Vec<String> = nd.shard.pending_deltas.iter().map(did).collect();
            for id in &expect[..dropped_front(&expect, &after)] {
                lost.push((id.clone(), "pending-overflow", None));
            }
            // what `ReplicatedShardedState::execute` does with the delta it was handed
            if nd.enabled {
                let ids: BTreeSet<String> = [did(d)].into_iter().collect();
                let dd = d.clone();
                let (dropped, o) = queue_op(&mut nd.g, &ids, false, |g| g.queue_deltas(vec![dd]));
                for r in &dropped {
                    for x in payload(&r.message) {
                        lost.push((did(&x), "outbound-overflow", None));
                    }
                }
                order = o;
            }
            self.issued.push((i, d.clone()));
            self.log.insert((i, did(d)));
            out.count("m:local:delta");
        } else {
            out.count("m:local:none");
        }
        line.push(' ');
        line.push_str(&Self::order_text(&order));
        let nd = &self.nodes[i];
        let ans = format!(
            "{} pend={} out={} {}",
            match &delta {
                Some(d) => format!("delta {}", MRv::from_real(&d.value).show()),
                None => "none".into(),
            },
            nd.shard.pending_deltas.len(),
            nd.g.outbound_queue.len(),
            loss_text(&lost)
        );
        self.lost_total += lost.len();
        for (_, why, _) in &lost {
            out.count(&format!("m:lost:{}", why));
        }
        self.op(out, line, ans);
    }

    /// one iteration of the gossip loop, call by call as in `start_gossip_loop`; `oks[k]` = does
    /// the k-th send reach the peer
    fn tick(&mut self, out: &mut Out, i: usize, oks: &[bool]) {
        let fixed = self.fixed;
        let nd = &mut self.nodes[i];
        let deltas = if nd.collect { nd.shard.drain_pending_deltas() } else { Vec::new() };
        nd.g.advance_epoch();
        let ids: BTreeSet<String> = deltas.iter().map(did).collect();
        let (dropped, order) = queue_op(&mut nd.g, &ids, false, |g| g.queue_deltas(deltas));
        let mut lost: Vec<(String, &'static str, Option<usize>)> = Vec::new();
        for r in &dropped {
            for x in payload(&r.message) {
                lost.push((did(&x), "outbound-overflow", None));
            }
        }
        let routed = nd.g.drain_outbound();
        // the send step of the loop (harness-side reading of gossip_manager.rs; tied to the real
        // loop by `tcp_scenarios`)
        let mut peer_map: BTreeMap<u64, usize> = BTreeMap::new();
        for (ix, addr) in nd.peers.iter().enumerate() {
            peer_map.insert(peer_id(fixed, nd.rid, ix as u64), *addr);
        }
        let mut k = 0usize;
        let mut pk: Vec<Packet> = Vec::new();
        let mut ok = |k: &mut usize| {
            let r = oks.get(*k).copied().unwrap_or(true);
            *k += 1;
            r
        };
        for r in routed {
            match r.target {
                Some(t) => match peer_map.get(&t.0) {
                    Some(addr) => {
                        if ok(&mut k) {
                            pk.push(Packet { to: *addr, msg: r.message.clone() });
                        } else {
                            for x in payload(&r.message) {
                                lost.push((did(&x), "send-failed", Some(*addr)));
                            }
                        }
                    }
                    None => {
                        for x in payload(&r.message) {
                            lost.push((did(&x), "no-address", None));
                        }
                    }
                },
                None => {
                    for addr in nd.peers.clone() {
                        if ok(&mut k) {
                            pk.push(Packet { to: addr, msg: r.message.clone() });
                        } else {
                            for x in payload(&r.message) {
                                lost.push((did(&x), "send-failed", Some(addr)));
                            }
                        }
                    }
                }
            }
        }
        let mut line = format!("MT {} {} K {}", i, Self::order_text(&order), oks.len());
        for b in oks {
            line.push_str(&format!(" {}", *b as u8));
        }
        let mut ans = format!("epoch={} pk={}", nd.g.epoch, pk.len());
        for p in &pk {
            ans.push_str(&format!(" {}>{}", p.to, show_gmsg(&p.msg)));
        }
        ans.push(' ');
        ans.push_str(&loss_text(&lost));
        self.lost_total += lost.len();
        for (_, why, _) in &lost {
            out.count(&format!("m:lost:{}", why));
        }
        out.count("m:tick");
        out.count_n("m:packets", pk.len() as u64);
        self.wire.extend(pk);
        self.op(out, line, ans);
    }

    fn heartbeat(&mut self, out: &mut Out, i: usize) {
        let nd = &mut self.nodes[i];
        let (dropped, _) = queue_op(&mut nd.g, &BTreeSet::new(), true, |g| g.queue_heartbeat());
        let mut lost: Vec<(String, &'static str, Option<usize>)> = Vec::new();
        for r in &dropped {
            for x in payload(&r.message) {
                lost.push((did(&x), "outbound-overflow", None));
            }
        }
        let ans = format!("out={} {}", nd.g.outbound_queue.len(), loss_text(&lost));
        self.lost_total += lost.len();
        for (_, why, _) in &lost {
            out.count(&format!("m:lost:{}", why));
        }
        out.count("m:heartbeat");
        self.op(out, format!("MH {}", i), ans);
    }

    fn recv(&mut self, out: &mut Out, p: usize, too_large: bool) {
        let mut lost: Vec<(String, &'static str, Option<usize>)> = Vec::new();
        if let Some(pk) = self.wire.get(p) {
            let to = pk.to;
            if to < self.nodes.len() {
                for d in payload(&pk.msg) {
                    if too_large {
                        lost.push((did(&d), "too-large", Some(to)));
                    } else {
                        self.log.insert((to, did(&d)));
                        self.nodes[to].shard.apply_remote_delta(d);
                    }
                }
            }
        }
        self.lost_total += lost.len();
        for (_, why, _) in &lost {
            out.count(&format!("m:lost:{}", why));
        }
        out.count("m:recv");
        self.op(out, format!("MV {} {}", p, too_large as u8), format!("ok {}", loss_text(&lost)));
    }

    fn peek(&mut self, out: &mut Out, i: usize) {
        let nd = &self.nodes[i];
        let pend: Vec<String> = nd.shard.pending_deltas.iter().map(did).collect();
        let outb: Vec<String> = nd.g.outbound_queue.iter().map(show_routed).collect();
        let ans = format!("pend={} [{}] out={} [{}] epoch={} sel={}", pend.len(), summary(&pend), outb.len(), summary(&outb), nd.g.epoch, nd.g.is_selective() as u8);
        self.op(out, format!("MQ {}", i), ans);
    }

    fn state(&mut self, out: &mut Out, i: usize) {
        let nd = &self.nodes[i];
        let mut v: Vec<(String, MRv)> = nd.shard.replicated_keys.iter().map(|(k, v)| (k.clone(), MRv::from_real(v))).collect();
        v.sort_by(|a, b| key_cmp(&a.0, &b.0));
        let mut ans = v.len().to_string();
        for (k, m) in &v {
            ans.push_str(&format!(" {} {} ;", hex(k.as_bytes()), m.show()));
        }
        self.op(out, format!("MS {}", i), ans);
    }

    /// per key: flags as the model computes them, and the property on the real states
    fn check(&mut self, out: &mut Out, key: &str, owners: &[usize]) -> bool {
        let n = self.nodes.len();
        let of_key: Vec<&(usize, ReplicationDelta)> = self.issued.iter().filter(|(_, d)| d.key == key).collect();
        let delivered_to = |set: &[usize]| of_key.iter().all(|(o, d)| set.iter().all(|j| j == o || *j >= n || self.log.contains(&(*j, did(d)))));
        let all: Vec<usize> = (0..n).collect();
        let delivered = delivered_to(&all);
        let to = delivered_to(owners);
        let kinds: BTreeSet<u8> = of_key.iter().map(|(_, d)| MRv::from_real(&d.value).crdt.kind()).collect();
        let kind = if kinds.len() <= 1 { Some(kinds.iter().next().copied().unwrap_or(0)) } else { None };
        let strip = |j: usize| {
            self.nodes[j].shard.replicated_keys.get(key).map(|v| {
                let mut m = MRv::from_real(v);
                m.vc = None;
                m.exp = None;
                m.rf = None;
                m.show()
            })
        };
        let agree_in = |set: &[usize]| {
            let vs: BTreeSet<Option<String>> = set.iter().filter(|j| **j < n).map(|j| strip(*j)).collect();
            vs.len() <= 1
        };
        let agree = agree_in(&all);
        let among = agree_in(owners);
        let mut line = format!("MK {} {}", hex(key.as_bytes()), owners.len());
        for o in owners {
            line.push_str(&format!(" {}", o));
        }
        let ans = format!("delivered={} to={} kind={} agree={} among={}", delivered as u8, to as u8, kind.map(|k| k.to_string()).unwrap_or("-".into()), agree as u8, among as u8);
        // the property on the real code: responsible replicas that got every update agree
        if to && kind.is_some() && !among {
            out.violation(
                "C06:msg:owners-diverge",
                "every delta of the key reached every responsible replica (message level: queues, routing, frames), one CRDT kind, yet the responsible replicas hold different values",
                json!({"history": self.text.clone(), "key": key, "owners": owners}),
            );
        }
        let many = of_key.len() >= 2;
        self.op(out, line, ans);
        to && many
    }
}

enum LocalOp {
    W(Vec<u8>, Option<u64>),
    D,
    HW(Vec<(String, Vec<u8>)>),
    HD(Vec<String>),
}

fn val(rng: &mut Rng) -> Vec<u8> {
    match rng.below(5) {
        0 => vec![],
        1 => vec![0, 255, 10],
        _ => format!("v{}", rng.below(40)).into_bytes(),
    }
}

fn gen_local(rng: &mut Rng, hash_key: bool) -> LocalOp {
    if hash_key {
        match rng.below(5) {
            0..=2 => LocalOp::HW((0..rng.range(1, 3)).map(|_| (rng.pick(&FIELDS).to_string(), val(rng))).collect()),
            3 => LocalOp::HD((0..rng.range(1, 2)).map(|_| rng.pick(&FIELDS).to_string()).collect()),
            _ => LocalOp::D,
        }
    } else {
        match rng.below(5) {
            0..=3 => LocalOp::W(val(rng), if rng.chance(1, 6) { Some(rng.range(1, 9) * 1000) } else { None }),
            _ => LocalOp::D,
        }
    }
}

struct Caps {
    pending: u64,
    outbound: u64,
}

fn world(out: &mut Out, rng: &mut Rng, caps: &Caps, fixed: PeerIdFixed, shape: u8) -> World {
    let n = if shape == 9 { 2 } else { rng.range(2, 4) as usize };
    let causal = rng.chance(1, 5);
    let level = if causal { ConsistencyLevel::Causal } else { ConsistencyLevel::Eventual };
    // one ring per history; the replication factor and the number of virtual nodes vary (0 virtual nodes: empty ring)
    let rf = rng.range(1, n as u64) as usize;
    let vnodes = *rng.pick(&[1u32, 8, 150]);
    let mode = if shape == 9 { 0 } else { rng.below(4) }; // 0,1: broadcast  2: selective  3: mixed / router that is not selective
    let mut nodes = Vec::new();
    for i in 0..n {
        let rid = i as u64 + 1;
        // `config.peers`: every other node, in id order — sometimes one is missing (not configured)
        let mut peers: Vec<usize> = (0..n).filter(|j| *j != i).collect();
        if n > 2 && rng.chance(1, 8) {
            peers.remove(rng.below(peers.len() as u64) as usize);
        }
        let config = ReplicationConfig { enabled: true, replica_id: rid, consistency_level: level, ..ReplicationConfig::default() };
        let known: Vec<u64> = (1..=n as u64).filter(|r| *r != rid && !(n > 2 && rng.chance(1, 10))).collect();
        let (g, spec) = match mode {
            2 => {
                let (r, s) = make_router(n, rf, vnodes, rid, &known, true);
                (GossipState::with_router(config, r), Some(s))
            }
            3 => {
                let sel = rng.chance(1, 2);
                let (r, s) = make_router(n, rf, vnodes, rid, &known, sel);
                let mut g = GossipState::new(config);
                g.set_router(r);
                (g, Some(s))
            }
            _ => (GossipState::new(config), None),
        };
        let collect = shape != 9 && rng.chance(1, 3);
        let enabled = shape == 9 || !collect || rng.chance(1, 2);
        nodes.push(RNode { shard: ShardReplicaState::new(ReplicaId::new(rid), level), g, enabled, collect, rid, peers, spec });
    }
    let mut line = format!("MN {} {} {} {}", caps.pending, caps.outbound, causal as u8, n);
    for nd in &nodes {
        line.push(' ');
        line.push_str(&cfg_text(nd, fixed));
    }
    out.count(&format!("m:mode:{}", ["broadcast", "broadcast", "selective", "router-set-later"][mode as usize]));
    let mut w = World { nodes, wire: Vec::new(), issued: Vec::new(), log: BTreeSet::new(), text: String::new(), fixed, lost_total: 0 };
    w.op(out, line, "ok".into());
    w
}

/// the replicas responsible for `key` as far as the senders' routers say: a node is an owner iff
/// some OTHER node routes the key to it or it is … — for the check we use the ring's replica set
fn owners_of(w: &World, key: &str) -> Vec<usize> {
    // union over all selective senders of their targets, plus the senders that are targets of others
    let mut s: BTreeSet<usize> = BTreeSet::new();
    let mut any_selective = false;
    for nd in &w.nodes {
        if let Some(sp) = &nd.spec {
            if sp.selective {
                any_selective = true;
                for t in sp.table.get(key).cloned().unwrap_or_default() {
                    s.insert(t as usize - 1);
                }
            }
        }
    }
    if !any_selective {
        return (0..w.nodes.len()).collect();
    }
    s.into_iter().collect()
}

fn history(out: &mut Out, rng: &mut Rng, caps: &Caps, fixed: PeerIdFixed) {
    let mut w = world(out, rng, caps, fixed, 0);
    let n = w.nodes.len();
    let steps = rng.range(6, 40);
    let hash_keys: BTreeSet<&str> = if rng.chance(1, 6) { BTreeSet::new() } else { ["h"].into_iter().collect() };
    let mixed = rng.chance(1, 8); // type changes on one key
    for _ in 0..steps {
        match rng.below(20) {
            0..=7 => {
                let i = rng.below(n as u64) as usize;
                let key = *rng.pick(&KEYS);
                let is_hash = if mixed && key == "k" { rng.chance(1, 2) } else { hash_keys.contains(key) };
                let op = gen_local(rng, is_hash);
                w.local(out, i, key, op);
            }
            8..=10 => {
                let i = rng.below(n as u64) as usize;
                let oks: Vec<bool> = if rng.chance(1, 4) { (0..rng.range(1, 4)).map(|_| !rng.chance(1, 3)).collect() } else { vec![] };
                w.tick(out, i, &oks);
            }
            11 => w.heartbeat(out, rng.below(n as u64) as usize),
            12..=16 => {
                if !w.wire.is_empty() {
                    let p = rng.below(w.wire.len() as u64) as usize;
                    w.recv(out, p, rng.chance(1, 25));
                }
            }
            17 => w.peek(out, rng.below(n as u64) as usize),
            18 => {
                // the router changes at run time (replication factor of the ring, membership known to the sender)
                let i = rng.below(n as u64) as usize;
                let rid = i as u64 + 1;
                if rng.chance(1, 4) {
                    // there is no way to take a router away again; installing a broadcast router is the closest
                    let known: Vec<u64> = (1..=n as u64).filter(|r| *r != rid).collect();
                    let (r, s) = make_router(n, 1, 8, rid, &known, false);
                    w.nodes[i].g.set_router(r);
                    w.nodes[i].spec = Some(s.clone());
                    w.op(out, format!("MR {} {}", i, RSpec::show(&Some(s))), "ok".into());
                } else {
                    let rf = rng.range(1, n as u64) as usize;
                    let known: Vec<u64> = (1..=n as u64).filter(|r| *r != rid).collect();
                    let (r, s) = make_router(n, rf, *rng.pick(&[1u32, 8, 150]), rid, &known, true);
                    w.nodes[i].g.set_router(r);
                    w.nodes[i].spec = Some(s.clone());
                    w.op(out, format!("MR {} {}", i, RSpec::show(&Some(s))), "ok".into());
                }
                out.count("m:set-router");
            }
            _ => {
                // a burst: more writes than the outbox holds between two drains
                let i = rng.below(n as u64) as usize;
                let cnt = caps.pending + rng.range(0, 3);
                let key = *rng.pick(&["k", "zz"]);
                for _ in 0..cnt {
                    w.local(out, i, key, LocalOp::W(val(rng), None));
                }
                out.count("m:burst-over-pending-capacity");
            }
        }
    }
    // usually: flush everything and hand every frame over (random order, some twice)
    let complete = rng.chance(3, 4);
    if complete {
        for i in 0..n {
            w.tick(out, i, &[]);
        }
        let mut idx: Vec<usize> = (0..w.wire.len()).collect();
        rng.shuffle(&mut idx);
        for p in idx {
            w.recv(out, p, false);
            if rng.chance(1, 10) {
                w.recv(out, p, false);
            }
        }
    }
    for i in 0..n {
        w.state(out, i);
    }
    let mut nontrivial = false;
    for key in KEYS {
        let owners = owners_of(&w, key);
        nontrivial |= w.check(out, key, &owners);
        if owners.len() != n {
            let all: Vec<usize> = (0..n).collect();
            w.check(out, key, &all);
        }
    }
    out.count(if complete { "m:history:flushed" } else { "m:history:partial" });
    if w.lost_total > 0 {
        out.count("m:history:with-loss");
    }
    out.case(&w.text, nontrivial);
    out.sample(json!({"message_level_history": w.text.chars().take(600).collect::<String>()}));
}

/// the capacity of the outbound queue, crossed exactly: a delta, heartbeats up to the limit
/// (nothing dropped AT the limit), one more message (the oldest goes: the delta), tick, delivery
fn outbound_boundary(out: &mut Out, caps: &Caps, fixed: PeerIdFixed) {
    let mut rng = Rng::new(0xC06_0B);
    let mut w = world(out, &mut rng, caps, fixed, 9);
    w.local(out, 0, "k", LocalOp::W(b"first".to_vec(), None));
    for _ in 0..caps.outbound - 1 {
        w.heartbeat(out, 0);
    }
    w.peek(out, 0);
    let at_limit = w.nodes[0].g.outbound_queue.len() as u64 == caps.outbound && w.lost_total == 0;
    w.local(out, 0, "zz", LocalOp::W(b"second".to_vec(), None));
    w.peek(out, 0);
    let lost_after = w.lost_total;
    w.tick(out, 0, &[]);
    for p in 0..w.wire.len() {
        w.recv(out, p, false);
    }
    w.state(out, 1);
    w.check(out, "k", &[0, 1]);
    w.check(out, "zz", &[0, 1]);
    out.extra.insert(
        "outbound_capacity_boundary".into(),
        json!({"MAX_OUTBOUND_QUEUE": caps.outbound, "nothing_dropped_at_the_limit": at_limit, "deltas_lost_one_past_the_limit": lost_after,
               "peer_holds_first_write": w.nodes[1].shard.replicated_keys.contains_key("k"), "peer_holds_second_write": w.nodes[1].shard.replicated_keys.contains_key("zz")}),
    );
    if !at_limit || lost_after != 1 {
        out.violation("C06:msg:capacity-boundary", "the outbound queue does not drop exactly the oldest message one past MAX_OUTBOUND_QUEUE", json!({"at_limit_ok": at_limit, "lost": lost_after}));
    }
    out.case(&format!("outbound-boundary {}", caps.outbound), true);
}

// ---------------------------------------------------------------------------------------------
// GossipActor vs a GossipState twin
// ---------------------------------------------------------------------------------------------

async fn actor_twin(out: &mut Out, rng: &mut Rng) {
    let n = 3usize;
    let rid = rng.range(1, 3);
    let config = ReplicationConfig { enabled: true, replica_id: rid, ..ReplicationConfig::default() };
    let known: Vec<u64> = (1..=n as u64).filter(|r| *r != rid).collect();
    let with_router = rng.chance(1, 2);
    let (mut twin, handle) = if with_router {
        let (r1, _) = make_router(n, 2, 8, rid, &known, true);
        let (r2, _) = make_router(n, 2, 8, rid, &known, true);
        (GossipState::with_router(config.clone(), r1), GossipActor::spawn_with_router(config, r2))
    } else {
        (GossipState::new(config.clone()), GossipActor::spawn(config))
    };
    let mut shard = ShardReplicaState::new(ReplicaId::new(rid), ConsistencyLevel::Eventual);
    let mut text = String::new();
    let mut ok = true;
    let canon = |v: &[RoutedMessage]| {
        // messages of one queue_deltas call may sit in map order: compare as a multiset per drain
        let mut s: Vec<String> = v.iter().map(show_routed).collect();
        s.sort();
        s
    };
    for _ in 0..rng.range(4, 25) {
        match rng.below(9) {
            0..=2 => {
                let ds: Vec<ReplicationDelta> = (0..rng.range(0, 3)).map(|_| shard.record_write(rng.pick(&KEYS).to_string(), SDS::new(val(rng)), None)).collect();
                text.push_str(&format!("QueueDeltas({});", ds.len()));
                twin.queue_deltas(ds.clone());
                handle.queue_deltas(ds);
                out.count("actor:QueueDeltas");
            }
            3 => {
                let ds: Vec<ReplicationDelta> = (0..rng.range(0, 2)).map(|_| shard.record_write(rng.pick(&KEYS).to_string(), SDS::new(val(rng)), None)).collect();
                text.push_str(&format!("QueueDeltasBroadcast({});", ds.len()));
                twin.queue_deltas_broadcast(ds.clone());
                handle.queue_deltas_broadcast(ds);
                out.count("actor:QueueDeltasBroadcast");
            }
            4 => {
                text.push_str("QueueHeartbeat;");
                twin.queue_heartbeat();
                handle.queue_heartbeat();
                out.count("actor:QueueHeartbeat");
            }
            5 => {
                text.push_str("AdvanceEpoch;");
                twin.advance_epoch();
                handle.advance_epoch();
                out.count("actor:AdvanceEpoch");
            }
            6 => {
                text.push_str("DrainOutbound;");
                let a = twin.drain_outbound();
                let b = handle.drain_outbound().await;
                out.count("actor:DrainOutbound");
                if canon(&a) != canon(&b) {
                    ok = false;
                    out.violation("C06:msg:actor-differs-from-state:drain", "GossipActor's drained queue differs from the GossipState it wraps, same message sequence", json!({"sequence": text.clone(), "state": canon(&a), "actor": canon(&b)}));
                }
            }
            7 => {
                let sel = rng.chance(2, 3);
                let rf = rng.range(1, 3) as usize;
                let (r1, _) = make_router(n, rf, 8, rid, &known, sel);
                let (r2, _) = make_router(n, rf, 8, rid, &known, sel);
                text.push_str(&format!("SetRouter(sel={},rf={});", sel, rf));
                twin.set_router(r1);
                handle.set_router(r2);
                out.count("actor:SetRouter");
            }
            _ => {
                text.push_str("IsSelective;GetEpoch;");
                let (s, e) = (handle.is_selective().await, handle.get_epoch().await);
                out.count("actor:IsSelective");
                out.count("actor:GetEpoch");
                if s != twin.is_selective() || e != twin.epoch {
                    ok = false;
                    out.violation("C06:msg:actor-differs-from-state:query", "GossipActor answers IsSelective / GetEpoch differently from the GossipState it wraps", json!({"sequence": text.clone(), "actor": [s as u64, e], "state": [twin.is_selective() as u64, twin.epoch]}));
                }
            }
        }
    }
    let a = twin.drain_outbound();
    let b = handle.drain_outbound().await;
    if canon(&a) != canon(&b) {
        ok = false;
        out.violation("C06:msg:actor-differs-from-state:drain", "GossipActor's drained queue differs from the GossipState it wraps, same message sequence", json!({"sequence": text.clone(), "state": canon(&a), "actor": canon(&b)}));
    }
    handle.shutdown().await;
    out.count("actor:Shutdown");
    // after Shutdown the mailbox is closed: the handle's fallbacks
    let after = (handle.drain_outbound().await.len(), handle.is_selective().await, handle.get_epoch().await);
    if after != (0, false, 0) {
        out.violation("C06:msg:actor-after-shutdown", "a GossipActorHandle whose actor has shut down does not answer with its documented fallbacks", json!({"got": [after.0 as u64, after.1 as u64, after.2]}));
    }
    out.case(&format!("actor-twin {}", text), ok && text.contains("Drain"));
}

// ---------------------------------------------------------------------------------------------
// ReplicatedShardedState: execute → gossip state; collect_pending_deltas
// ---------------------------------------------------------------------------------------------

fn shard_of(key: &str) -> usize {
    use std::hash::{Hash, Hasher};
    let mut h = std::collections::hash_map::DefaultHasher::new();
    key.hash(&mut h);
    (h.finish() as usize) % 16
}

/// keys that live on ONE shard of the 16 (so that the model's single shard is that shard)
fn same_shard_keys(n: usize) -> Vec<String> {
    let mut by: BTreeMap<usize, Vec<String>> = BTreeMap::new();
    for i in 0..4000 {
        let k = format!("q{}", i);
        let v = by.entry(shard_of(&k)).or_default();
        v.push(k);
        if v.len() >= n {
            return v.clone();
        }
    }
    Vec::new()
}

async fn sharded_state(out: &mut Out, rng: &mut Rng, caps: &Caps, fixed: PeerIdFixed) {
    let enabled = rng.chance(3, 4);
    let actor_backend = rng.chance(1, 2);
    let rid = 1u64;
    let config = ReplicationConfig { enabled, replica_id: rid, peers: vec!["127.0.0.1:1".into()], ..ReplicationConfig::default() };
    let handle = if actor_backend { Some(GossipActor::spawn(config.clone())) } else { None };
    let st = match &handle {
        Some(h) => ReplicatedShardedState::with_gossip_actor(config.clone(), h.clone()),
        None => ReplicatedShardedState::new(config.clone()),
    };
    let burst = rng.chance(1, 3);
    let keys = same_shard_keys(if burst { caps.pending as usize + 3 } else { 4 });
    if keys.is_empty() {
        out.violation("C06:msg:harness:no-colocated-keys", "could not find keys on one shard", json!({}));
        return;
    }
    // the model: one node, one peer
    let mut text = format!("MN {} {} 0 2 {} 1 1 {} 1 1 - 0 2 0 {} 1 0 -", caps.pending, caps.outbound, enabled as u8, fixed.0 as u8, fixed.0 as u8);
    out.op(text.clone(), "ok".into());
    text.push(';');
    let cnt = if burst { keys.len() } else { rng.range(2, 8) as usize };
    let mut expected_out = 0usize;
    let mut pend_ids: Vec<String> = Vec::new();
    for c in 0..cnt {
        let key = if burst { keys[c].clone() } else { rng.pick(&keys).clone() };
        let v = val(rng);
        let del = !burst && rng.chance(1, 5);
        let cmd = if del { Command::del(key.clone()) } else { Command::set(key.clone(), SDS::new(v.clone())) };
        let _ = st.execute(cmd).await;
        let snap = st.snapshot_state().await;
        // the delta handed back is the stored value (same stamp) — read it from the gossip queue below
        let stored = snap.get(&key).map(MRv::from_real);
        let line = if del { format!("ML 0 D {} O 0", hex(key.as_bytes())) } else { format!("ML 0 W {} {} - O 0", hex(key.as_bytes()), hex(&v)) };
        let produced = if del { stored.as_ref().map(|m| matches!(&m.crdt, crate::enc::MCrdt::Lww(l) if l.tomb)).unwrap_or(false) } else { true };
        if produced && enabled {
            expected_out += 1;
        }
        // queue lengths as the real objects show them
        let out_len = match st.get_gossip_state() {
            Some(g) => g.read().outbound_queue.len(),
            None => expected_out.min(caps.outbound as usize), // actor backend: not observable without draining
        };
        if produced {
            if let Some(m) = &stored {
                pend_ids.push(format!("0/{}/{}.{}", hex(key.as_bytes()), m.t, m.r));
            }
        }
        // the outbox of the shard (observed at the end through collect_pending_deltas): oldest dropped
        let lost = if produced && pend_ids.len() as u64 > caps.pending { format!("lost=1 {}:pending-overflow:-", pend_ids[pend_ids.len() - 1 - caps.pending as usize]) } else { "lost=0".to_string() };
        let pend_len = pend_ids.len().min(caps.pending as usize);
        let ans = match (&stored, produced) {
            (Some(m), true) => format!("delta {} pend={} out={} {}", m.show(), pend_len, out_len, lost),
            _ => format!("none pend={} out={} lost=0", pend_len, out_len),
        };
        text.push_str(&line);
        text.push(';');
        out.op(line, ans);
        out.count("state:execute");
    }
    // what the gossip side really holds
    let drained: Vec<RoutedMessage> = match (&handle, st.get_gossip_state()) {
        (Some(h), _) => h.drain_outbound().await,
        (None, Some(g)) => g.write().drain_outbound(),
        _ => vec![],
    };
    let pend = st.collect_pending_deltas().await;
    out.extra.insert("sharded_state_last".into(), json!({"enabled": enabled, "actor_backend": actor_backend, "queued_messages": drained.len(), "pending_collected": pend.len(), "commands": cnt}));
    if !enabled && !drained.is_empty() {
        out.violation("C06:msg:disabled-but-queued", "config.enabled = false but ReplicatedShardedState::execute queued a delta for gossip", json!({"history": text.clone()}));
    }
    if enabled && drained.len() != expected_out {
        out.violation("C06:msg:execute-queue-mismatch", "ReplicatedShardedState::execute did not queue exactly one broadcast message per delta it was handed", json!({"history": text.clone(), "expected": expected_out, "queued": drained.len()}));
    }
    for r in &drained {
        if r.target.is_some() || !matches!(&r.message, GossipMessage::DeltaBatch { deltas, .. } if deltas.len() == 1) {
            out.violation("C06:msg:execute-queue-shape", "a message queued by execute is not a broadcast DeltaBatch of one delta (no router is installed by ReplicatedShardedState::new)", json!({"message": show_routed(r)}));
        }
    }
    if burst && pend.len() as u64 != caps.pending {
        out.violation("C06:msg:pending-capacity", "collect_pending_deltas after a burst on one shard did not return MAX_PENDING_DELTAS deltas (the newest ones)", json!({"collected": pend.len(), "written": cnt, "cap": caps.pending}));
    }
    if burst {
        // the oldest were dropped: the first collected delta is the (cnt - cap + 1)-th write
        let first_key = &keys[cnt - caps.pending as usize];
        if pend.first().map(|d| &d.key) != Some(first_key) {
            out.violation("C06:msg:pending-drops-not-oldest", "the outbox did not drop the OLDEST deltas", json!({"first_collected": pend.first().map(|d| d.key.clone()), "expected": first_key}));
        }
        out.count("state:burst");
    }
    if let Some(h) = handle {
        h.shutdown().await;
    }
    out.case(&format!("sharded-state {} en={} actor={} burst={}", text, enabled, actor_backend, burst), cnt >= 2);
}

// ---------------------------------------------------------------------------------------------
// the real gossip loop over loopback TCP
// ---------------------------------------------------------------------------------------------

use tokio::io::AsyncReadExt;
use tokio::net::TcpListener;

/// frames a listener received, in arrival order
async fn listen(l: TcpListener, sink: Arc<parking_lot_like::Mutex<Vec<GossipMessage>>>) {
    loop {
        let Ok((mut s, _)) = l.accept().await else { return };
        let sink = sink.clone();
        tokio::spawn(async move {
            loop {
                let mut len = [0u8; 4];
                if s.read_exact(&mut len).await.is_err() {
                    return;
                }
                let n = u32::from_be_bytes(len) as usize;
                let mut buf = vec![0u8; n];
                if s.read_exact(&mut buf).await.is_err() {
                    return;
                }
                if let Ok(m) = GossipMessage::deserialize(&buf) {
                    sink.lock().push(m);
                }
            }
        });
    }
}

mod parking_lot_like {
    pub struct Mutex<T>(std::sync::Mutex<T>);
    impl<T> Mutex<T> {
        pub fn new(t: T) -> Self {
            Mutex(std::sync::Mutex::new(t))
        }
        pub fn lock(&self) -> std::sync::MutexGuard<'_, T> {
            self.0.lock().unwrap_or_else(|e| e.into_inner())
        }
    }
}

struct TcpResult {
    /// per peer (config order): frames that arrived before the sentinel heartbeat
    got: Vec<Vec<String>>,
    timed_out: bool,
}

/// one real gossip loop for replica `rid` of 3 with two listeners as its peers; the gossip state is
/// filled BEFORE the loop starts: `deltas` (queued through `queue_deltas`, selective or not), then a
/// heartbeat (broadcast) as the sentinel that ends the observation.  `refuse` = the first peer's
/// port refuses connections.
async fn run_loop(rid: u64, selective: bool, with_actor: bool, refuse_first: bool) -> (TcpResult, Vec<String>, Option<RSpec>) {
    let mut sinks = Vec::new();
    let mut addrs = Vec::new();
    let mut tasks = Vec::new();
    for p in 0..2 {
        let l = TcpListener::bind("127.0.0.1:0").await.expect("bind loopback");
        let addr = l.local_addr().unwrap();
        addrs.push(format!("127.0.0.1:{}", addr.port()));
        let sink = Arc::new(parking_lot_like::Mutex::new(Vec::new()));
        sinks.push(sink.clone());
        if p == 0 && refuse_first {
            drop(l); // nobody listens there any more
        } else {
            tasks.push(tokio::spawn(listen(l, sink)));
        }
    }
    let mut config = ReplicationConfig { enabled: true, replica_id: rid, peers: addrs.clone(), gossip_interval_ms: 5, ..ReplicationConfig::default() };
    if selective {
        config.partitioned_mode = true;
        config.selective_gossip = true;
    }
    let other: Vec<u64> = (1..=3u64).filter(|r| *r != rid).collect();
    let mut shard = ShardReplicaState::new(ReplicaId::new(rid), ConsistencyLevel::Eventual);
    let d1 = shard.record_write("k".into(), SDS::from_str("v1"), None);
    let d2 = shard.record_write("zz".into(), SDS::from_str("v2"), None);
    let ids = vec![did(&d1), did(&d2)];
    // rf = 3: both other replicas are targets of every key
    let spec;
    let loop_task = if with_actor {
        let h = if selective {
            let (r, s) = make_router(3, 3, 8, rid, &other, true);
            spec = Some(s);
            GossipActor::spawn_with_router(config.clone(), r)
        } else {
            spec = None;
            GossipActor::spawn(config.clone())
        };
        h.queue_deltas(vec![d1.clone()]);
        h.queue_deltas(vec![d2.clone()]);
        h.queue_heartbeat();
        tokio::spawn(GossipManager::start_gossip_loop_with_actor(config.clone(), h, Vec::new))
    } else {
        // the gossip state of a real ReplicatedShardedState (as server_persistent.rs wires it)
        let st = ReplicatedShardedState::new(config.clone());
        let g = st.get_gossip_state().expect("Locked backend");
        {
            let mut w = g.write();
            if selective {
                let (r, s) = make_router(3, 3, 8, rid, &other, true);
                spec = Some(s);
                w.set_router(r);
            } else {
                spec = None;
            }
            w.queue_deltas(vec![d1.clone()]);
            w.queue_deltas(vec![d2.clone()]);
            w.queue_heartbeat();
        }
        tokio::spawn(GossipManager::start_gossip_loop(config.clone(), g, Vec::new))
    };
    // wait for the sentinel on every live listener
    let deadline = std::time::Instant::now() + std::time::Duration::from_secs(90);
    let mut timed_out = false;
    loop {
        let done = (0..2).all(|p| (p == 0 && refuse_first) || sinks[p].lock().iter().any(|m| matches!(m, GossipMessage::Heartbeat { .. })));
        if done {
            break;
        }
        if std::time::Instant::now() > deadline {
            timed_out = true;
            break;
        }
        tokio::time::sleep(std::time::Duration::from_millis(2)).await;
    }
    loop_task.abort();
    for t in tasks {
        t.abort();
    }
    let got = (0..2).map(|p| sinks[p].lock().iter().map(show_gmsg).collect()).collect();
    (TcpResult { got, timed_out }, ids, spec)
}

/// the REAL receiver (`GossipManager::start_server` → `handle_peer_connection`): frames written by a
/// raw TCP client; what reaches the delta callback must be exactly `into_deltas()` of every frame
/// that fits the size limit, in order, until a frame header above the limit closes the connection.
/// The port is `3001 + replica_id` on 0.0.0.0 (fixed by the code): a high replica id is probed for a
/// free port first; a run that finds none is counted, not judged.
async fn server_scenarios(out: &mut Out) {
    use tokio::io::AsyncWriteExt;
    use tokio::net::TcpStream;
    let mut chosen: Option<u64> = None;
    let base = 20000 + (std::process::id() as u64 * 7919) % 30000;
    for attempt in 0..12u64 {
        let rid = base + attempt * 131;
        if let Ok(l) = TcpListener::bind(format!("0.0.0.0:{}", 3001 + rid)).await {
            drop(l);
            chosen = Some(rid);
            break;
        }
    }
    let Some(rid) = chosen else {
        out.count("tcp:server:no-free-port(not judged)");
        return;
    };
    let sink: Arc<parking_lot_like::Mutex<Vec<Vec<ReplicationDelta>>>> = Arc::new(parking_lot_like::Mutex::new(Vec::new()));
    let s2 = sink.clone();
    let cb: Arc<dyn Fn(Vec<ReplicationDelta>) + Send + Sync> = Arc::new(move |ds: Vec<ReplicationDelta>| s2.lock().push(ds));
    let config = ReplicationConfig { enabled: true, replica_id: rid, peers: vec![], ..ReplicationConfig::default() };
    let server = tokio::spawn(GossipManager::start_server(config, cb));
    let addr = format!("127.0.0.1:{}", 3001 + rid);
    // connect as soon as the server listens
    let deadline = std::time::Instant::now() + std::time::Duration::from_secs(90);
    let mut conn = None;
    while std::time::Instant::now() < deadline {
        if let Ok(c) = TcpStream::connect(&addr).await {
            conn = Some(c);
            break;
        }
        tokio::time::sleep(std::time::Duration::from_millis(2)).await;
    }
    let Some(mut c1) = conn else {
        server.abort();
        out.count("tcp:server:never-listened(not judged)");
        return;
    };
    let mut shard = ShardReplicaState::new(ReplicaId::new(7), ConsistencyLevel::Eventual);
    let mut d = |k: &str, v: &str| shard.record_write(k.into(), SDS::from_str(v), None);
    let (d1, d2, d3, d4, d5, d6, d7) = (d("k", "v1"), d("zz", "v2"), d("k", "v3"), d("h", "v4"), d("k", "v5"), d("k", "v6"), d("k", "v7"));
    let frame = |body: &[u8]| {
        let mut f = (body.len() as u32).to_be_bytes().to_vec();
        f.extend_from_slice(body);
        f
    };
    const LIMIT: usize = 1024 * 1024;
    let pad_to = |m: &GossipMessage, n: usize| {
        // JSON tolerates trailing whitespace: the same message in a body of exactly `n` bytes
        let mut b = m.serialize().unwrap_or_default();
        while b.len() < n {
            b.push(b' ');
        }
        b
    };
    let msgs: Vec<(GossipMessage, Option<usize>)> = vec![
        (GossipMessage::DeltaBatch { source_replica: ReplicaId::new(7), deltas: vec![d1.clone()], epoch: 1 }, None),
        // a targeted frame for ANOTHER replica: the receiver does not check the target
        (GossipMessage::TargetedDelta { source_replica: ReplicaId::new(7), target_replica: ReplicaId::new(rid + 5), deltas: vec![d2.clone()], epoch: 1 }, None),
        (GossipMessage::SyncResponse { source_replica: ReplicaId::new(7), deltas: vec![d3.clone()] }, None),
        (GossipMessage::Heartbeat { source_replica: ReplicaId::new(7), epoch: 2 }, None),
        (GossipMessage::DeltaBatch { source_replica: ReplicaId::new(7), deltas: vec![], epoch: 2 }, None),
        // exactly AT the size limit: accepted
        (GossipMessage::DeltaBatch { source_replica: ReplicaId::new(7), deltas: vec![d4.clone()], epoch: 3 }, Some(LIMIT)),
        (GossipMessage::DeltaBatch { source_replica: ReplicaId::new(7), deltas: vec![d5.clone()], epoch: 4 }, None),
    ];
    let mut expected: Vec<String> = Vec::new();
    let mut wire: Vec<u8> = Vec::new();
    for (m, pad) in &msgs {
        let body = match pad {
            Some(n) => pad_to(m, *n),
            None => m.serialize().unwrap_or_default(),
        };
        wire.extend(frame(&body));
        if let Some(ds) = m.clone().into_deltas() {
            expected.push(dids(&ds));
        }
        // a frame that does not deserialise is skipped, the connection stays open
        if matches!(m, GossipMessage::Heartbeat { .. }) {
            wire.extend(frame(b"{not json"));
        }
    }
    let sent1 = c1.write_all(&wire).await.is_ok();
    let wait_for = |sink: Arc<parking_lot_like::Mutex<Vec<Vec<ReplicationDelta>>>>, id: String| async move {
        let deadline = std::time::Instant::now() + std::time::Duration::from_secs(90);
        while std::time::Instant::now() < deadline {
            if sink.lock().iter().any(|ds| ds.iter().any(|x| did(x) == id)) {
                return true;
            }
            tokio::time::sleep(std::time::Duration::from_millis(2)).await;
        }
        false
    };
    let got5 = sent1 && wait_for(sink.clone(), did(&d5)).await;
    // one byte above the limit: the header alone closes the connection; what follows on it is never read
    let mut over = ((LIMIT + 1) as u32).to_be_bytes().to_vec();
    over.extend(frame(&GossipMessage::DeltaBatch { source_replica: ReplicaId::new(7), deltas: vec![d6.clone()], epoch: 5 }.serialize().unwrap_or_default()));
    let _ = c1.write_all(&over).await;
    // a fresh connection (the server replaces the handler of this peer address) carries the sentinel
    let mut got7 = false;
    if let Ok(mut c2) = TcpStream::connect(&addr).await {
        let m7 = GossipMessage::DeltaBatch { source_replica: ReplicaId::new(7), deltas: vec![d7.clone()], epoch: 6 };
        if c2.write_all(&frame(&m7.serialize().unwrap_or_default())).await.is_ok() {
            got7 = wait_for(sink.clone(), did(&d7)).await;
        }
    }
    server.abort();
    out.count("tcp:server:scenario");
    if !got7 {
        // not even a fresh connection gets a frame through: the server is not there
        out.violation(
            "C06:msg:harness:server-timeout",
            "the real gossip server did not hand a sentinel frame to the delta callback within 90 s",
            json!({"first_connection_sentinel": got5, "second_connection_sentinel": got7}),
        );
        return;
    }
    // (a first connection that never delivered its sentinel shows below as the frames that are missing)
    expected.push(dids(&[d7.clone()]));
    let got: Vec<String> = sink.lock().iter().map(|ds| dids(ds)).collect();
    out.case("tcp server: frames of every kind, AT the size limit, garbage, one byte above the limit, reconnect", true);
    if got != expected {
        out.violation(
            "C06:msg:server:receiver-applies-other-than-payload",
            "GossipManager::start_server / handle_peer_connection must hand the delta callback exactly into_deltas() of every frame that fits the 1 MiB limit (DeltaBatch, TargetedDelta whatever its target, SyncResponse; a frame of exactly 1 MiB included), in order, skip frames that do not deserialise, and read nothing after a header above the limit",
            json!({"expected": expected, "got": got}),
        );
    }
}

/// a TCP-level partition that heals: the peer drops the connection after the first frame (and keeps
/// listening).  The gossip loop's connection pool must notice the broken connection and connect
/// again: frames queued afterwards arrive on a NEW connection.  Frames written into the dead
/// connection before the break is noticed are lost silently (the write succeeded): not judged.
/// Judged: a later frame arrives on a new connection; what arrives is a subsequence of what was
/// queued, nothing twice.  Event-driven (arrival / the loop having drained its queue), bounded by
/// the number of frames, not by sleeps.
async fn reconnect_scenario(out: &mut Out) {
    let l = TcpListener::bind("127.0.0.1:0").await.expect("bind loopback");
    let addr = format!("127.0.0.1:{}", l.local_addr().unwrap().port());
    // (connection index, message) in arrival order
    let sink: Arc<parking_lot_like::Mutex<Vec<(usize, GossipMessage)>>> = Arc::new(parking_lot_like::Mutex::new(Vec::new()));
    let s2 = sink.clone();
    let listener = tokio::spawn(async move {
        let mut conn = 0usize;
        loop {
            let Ok((mut s, _)) = l.accept().await else { return };
            conn += 1;
            let me = conn;
            let sink = s2.clone();
            tokio::spawn(async move {
                loop {
                    let mut len = [0u8; 4];
                    if s.read_exact(&mut len).await.is_err() {
                        return;
                    }
                    let n = u32::from_be_bytes(len) as usize;
                    let mut buf = vec![0u8; n];
                    if s.read_exact(&mut buf).await.is_err() {
                        return;
                    }
                    if let Ok(m) = GossipMessage::deserialize(&buf) {
                        sink.lock().push((me, m));
                    }
                    if me == 1 {
                        // the partition: drop the first connection after its first frame
                        return;
                    }
                }
            });
        }
    });
    let config = ReplicationConfig { enabled: true, replica_id: 1, peers: vec![addr], gossip_interval_ms: 5, ..ReplicationConfig::default() };
    let st = ReplicatedShardedState::new(config.clone());
    let g = st.get_gossip_state().expect("Locked backend");
    let loop_task = tokio::spawn(GossipManager::start_gossip_loop(config.clone(), g.clone(), Vec::new));
    let mut shard = ShardReplicaState::new(ReplicaId::new(1), ConsistencyLevel::Eventual);
    let mut queued: Vec<String> = Vec::new();
    let deadline = std::time::Instant::now() + std::time::Duration::from_secs(90);
    let mut reconnected = false;
    for j in 0..60u32 {
        let d = shard.record_write("k".into(), SDS::from_str(&format!("v{}", j)), None);
        queued.push(did(&d));
        g.write().queue_deltas(vec![d]);
        // until the loop has taken it (and, for the first frame, until it arrived: the partition follows)
        loop {
            let drained = g.read().outbound_queue.is_empty();
            let arrived_first = !sink.lock().is_empty();
            if drained && (j > 0 || arrived_first) {
                break;
            }
            if std::time::Instant::now() > deadline {
                break;
            }
            tokio::time::sleep(std::time::Duration::from_millis(1)).await;
        }
        if sink.lock().iter().any(|(c, _)| *c >= 2) {
            reconnected = true;
            break;
        }
        if std::time::Instant::now() > deadline {
            break;
        }
    }
    // the last frames may still be on their way: wait for a frame on a new connection (event), bounded
    while !reconnected && std::time::Instant::now() < deadline {
        if sink.lock().iter().any(|(c, _)| *c >= 2) {
            reconnected = true;
        } else {
            let d = shard.record_write("k".into(), SDS::from_str("again"), None);
            queued.push(did(&d));
            g.write().queue_deltas(vec![d]);
            tokio::time::sleep(std::time::Duration::from_millis(5)).await;
        }
    }
    loop_task.abort();
    listener.abort();
    out.count("tcp:reconnect:scenario");
    let arrived: Vec<(usize, String)> = sink.lock().iter().map(|(c, m)| (*c, dids(&payload(m)))).collect();
    out.case("tcp: the peer drops the connection after the first frame, the loop reconnects", true);
    if !reconnected {
        out.violation(
            "C06:msg:tcp:no-reconnect-after-connection-reset",
            "the peer dropped the gossip connection after the first frame and kept listening: none of the frames queued afterwards arrived on a new connection (the connection pool must drop a broken connection and connect again)",
            json!({"queued": queued.len(), "arrived": arrived}),
        );
        return;
    }
    // what arrived: frames that were queued, in queue order, none twice
    let ids: Vec<String> = arrived.iter().map(|(_, t)| t.trim_start_matches('[').trim_end_matches(']').to_string()).collect();
    let mut pos = 0usize;
    let mut ok = true;
    for id in &ids {
        match queued[pos..].iter().position(|q| q == id) {
            Some(p) => pos += p + 1,
            None => ok = false,
        }
    }
    // (how many frames were written into the dead connection before the break was noticed depends on
    // the kernel's timing: not recorded, the evidence stays a function of the seed)
    if !ok {
        out.violation(
            "C06:msg:tcp:frames-out-of-order-or-duplicated-after-reconnect",
            "after the reconnect the listener received a frame twice, out of order, or one that was never queued",
            json!({"queued": queued, "arrived": arrived}),
        );
    }
}

async fn tcp_scenarios(out: &mut Out, caps: &Caps) -> PeerIdFixed {
    // what does the source say?
    let src = read_src("src/production/gossip_manager.rs").unwrap_or_default();
    let unfixed_sites = src.matches("if (i as u64) >= config.replica_id").count();
    let fixed_sites = src.matches("i as u64 + 1 >= config.replica_id").count();
    // probe: replica 1 of 3, selective — does the frame for replica 2 (first configured peer) arrive?
    let (probe, _, _) = run_loop(1, true, false, false).await;
    if probe.timed_out {
        out.violation("C06:msg:harness:gossip-loop-timeout", "the real gossip loop did not deliver the sentinel heartbeat to a loopback listener within 90 s", json!({"scenario": "probe"}));
    }
    let fixed = PeerIdFixed(probe.got[0].iter().any(|m| m.starts_with("T:")));
    out.extra.insert(
        "gossip_loop_peer_map".into(),
        json!({"peer_id_arithmetic_repaired(observed on the real loop)": fixed.0, "source_sites_unrepaired": unfixed_sites, "source_sites_repaired": fixed_sites,
               "note": "unrepaired = `(i as u64) >= config.replica_id` (the off-by-one that faccb9f repaired in GossipRouter::from_config): a targeted frame whose target id has no entry in the loop's peer_map is dropped"}),
    );
    if (fixed.0 && unfixed_sites > 0) || (!fixed.0 && unfixed_sites == 0) {
        out.violation("C06:msg:peer-map-source-vs-behaviour", "the peer-id arithmetic read from gossip_manager.rs does not explain what the real loop did", json!({"observed_repaired": fixed.0, "unrepaired_sites": unfixed_sites, "repaired_sites": fixed_sites}));
    }
    for rid in 1..=3u64 {
        for selective in [false, true] {
            for with_actor in [false, true] {
                for refuse in [false, true] {
                    if refuse && (with_actor || rid != 2) {
                        continue;
                    }
                    let (res, ids, spec) = run_loop(rid, selective, with_actor, refuse).await;
                    out.count("tcp:scenario");
                    if res.timed_out {
                        out.violation("C06:msg:harness:gossip-loop-timeout", "the real gossip loop did not deliver the sentinel heartbeat to a loopback listener within 90 s", json!({"rid": rid, "selective": selective, "actor": with_actor}));
                        continue;
                    }
                    // the model: node index rid-1 of 3; its peers are the other two in id order
                    let peers: Vec<usize> = (0..3).filter(|j| *j as u64 != rid - 1).collect();
                    let mut line = format!("MN {} {} 0 3", caps.pending, caps.outbound);
                    for i in 0..3u64 {
                        if i + 1 == rid {
                            line.push_str(&format!(" 1 {} 0 {} 2 {} {} {}", rid, fixed.0 as u8, peers[0], peers[1], RSpec::show(&spec)));
                        } else {
                            line.push_str(&format!(" 1 {} 0 {} 0 -", i + 1, fixed.0 as u8));
                        }
                    }
                    out.op(line, "ok".into());
                    let i = rid - 1;
                    let order = |key: &str| match &spec {
                        Some(s) => World::order_text(&s.table.get(key).cloned().unwrap_or_default()),
                        None => "O 0".to_string(),
                    };
                    // the two writes: the model must issue the same two deltas
                    let sh = |v: &str, t: u64| format!("delta L {} {} {} 0 - - {} {} -", hex(v.as_bytes()), t, rid, t, rid);
                    let nt = |key: &str| spec.as_ref().map(|s| s.table.get(key).map(|t| t.len()).unwrap_or(0)).unwrap_or(1);
                    out.op(format!("ML {} W {} {} - {}", i, hex(b"k"), hex(b"v1"), order("k")), format!("{} pend=1 out={} lost=0", sh("v1", 1), nt("k")));
                    out.op(format!("ML {} W {} {} - {}", i, hex("zz".as_bytes()), hex(b"v2"), order("zz")), format!("{} pend=2 out={} lost=0", sh("v2", 2), nt("k") + nt("zz")));
                    out.op(format!("MH {}", i), format!("out={} lost=0", nt("k") + nt("zz") + 1));
                    // the tick: the frames the two listeners got, in the model's order (message by message,
                    // peer by peer); the model prints `to>msg` per packet and the losses
                    let oks: Vec<bool> = if refuse {
                        // sends in order; those to the first peer fail
                        let mut v = Vec::new();
                        let n_msgs = if selective { 0 } else { 3 };
                        let _ = n_msgs;
                        // computed by the model side below: we pass "fail every send to peers[0]"
                        // by listing the sends in the model's order
                        if selective {
                            // messages: per key, per target in table order (present in peer_map only)
                            for key in ["k", "zz"] {
                                for t in spec.as_ref().unwrap().table.get(key).cloned().unwrap_or_default() {
                                    let has = (0..2).find(|ix| peer_id(fixed, rid, *ix as u64) == t);
                                    if let Some(ix) = has {
                                        v.push(ix != 0);
                                    }
                                }
                            }
                            v.push(false);
                            v.push(true);
                        } else {
                            for _ in 0..3 {
                                v.push(false);
                                v.push(true);
                            }
                        }
                        v
                    } else {
                        vec![]
                    };
                    let mut tline = format!("MT {} O 0 K {}", i, oks.len());
                    for b in &oks {
                        tline.push_str(&format!(" {}", *b as u8));
                    }
                    // implementation's answer assembled from what the listeners really received: the model's
                    // packet order is message-major; rebuild it from per-listener arrival order
                    let mut per: Vec<std::collections::VecDeque<String>> = res.got.iter().map(|v| v.iter().cloned().collect()).collect();
                    let mut pk: Vec<String> = Vec::new();
                    // message-major order: repeatedly take, for the next message (in queue order = d1 msgs, d2 msgs,
                    // heartbeat), the copies at the heads of the listeners
                    let mut lost: Vec<(String, &'static str, Option<usize>)> = Vec::new();
                    let queue: Vec<(Option<u64>, String)> = {
                        // what was queued, from the spec (the real queue was consumed by the loop)
                        let mut q = Vec::new();
                        for (key, id) in [("k", &ids[0]), ("zz", &ids[1])] {
                            match &spec {
                                Some(s) => {
                                    for t in s.table.get(key).cloned().unwrap_or_default() {
                                        q.push((Some(t), format!("T:{}:{}:0:[{}]", rid, t, id)));
                                    }
                                }
                                None => q.push((None, format!("B:{}:0:[{}]", rid, id))),
                            }
                        }
                        q.push((None, format!("H:{}:0", rid)));
                        q
                    };
                    for (tgt, text) in &queue {
                        let dests: Vec<usize> = match tgt {
                            Some(t) => (0..2).filter(|ix| peer_id(fixed, rid, *ix as u64) == *t).collect(),
                            None => vec![0, 1],
                        };
                        if tgt.is_some() && dests.is_empty() {
                            if let Some(id) = text.split('[').nth(1) {
                                lost.push((id.trim_end_matches(']').to_string(), "no-address", None));
                            }
                        }
                        for ix in dests {
                            if per[ix].front() == Some(text) {
                                per[ix].pop_front();
                                pk.push(format!("{}>{}", peers[ix], text));
                            } else if refuse && ix == 0 {
                                if let Some(id) = text.split('[').nth(1) {
                                    lost.push((id.trim_end_matches(']').to_string(), "send-failed", Some(peers[ix])));
                                }
                            } else {
                                out.violation(
                                    "C06:msg:gossip-loop-frame-missing",
                                    "a frame the gossip loop should have sent to a configured, listening peer did not arrive (in order)",
                                    json!({"rid": rid, "selective": selective, "actor": with_actor, "expected": text, "peer_index": ix, "arrived": res.got.clone()}),
                                );
                            }
                        }
                    }
                    for (ix, rest) in per.iter().enumerate() {
                        // anything else that arrived (later heartbeats do not exist: nothing queues them) is unexpected
                        if !rest.is_empty() {
                            out.violation("C06:msg:gossip-loop-extra-frame", "a listener received frames nobody queued", json!({"peer_index": ix, "frames": rest.iter().cloned().collect::<Vec<_>>() }));
                        }
                    }
                    let ans = format!("epoch=1 pk={}{}{} {}", pk.len(), if pk.is_empty() { "" } else { " " }, pk.join(" "), loss_text(&lost));
                    out.op(tline, ans);
                    out.case(&format!("tcp rid={} sel={} actor={} refuse={}", rid, selective, with_actor, refuse), true);
                }
            }
        }
    }
    fixed
}

// ---------------------------------------------------------------------------------------------
// coverage: every name of the anchored files that can move a delta, from the source
// ---------------------------------------------------------------------------------------------

fn coverage(out: &mut Out) -> Option<Caps> {
    let mut table: BTreeMap<String, String> = BTreeMap::new();
    let mut missing_file = |out: &mut Out, f: &str| {
        out.violation("C06:coverage:source-scan-failed", "an anchored source file could not be read from the tree the harness was built against", json!({"file": f, "tree": repo_dir()}));
    };
    let files = ["src/replication/gossip.rs", "src/replication/state/shard_state.rs", "src/production/gossip_actor.rs", "src/production/gossip_manager.rs", "src/production/replicated_state.rs", "src/replication/gossip_router.rs"];
    let mut srcs: BTreeMap<&str, String> = BTreeMap::new();
    for f in files {
        match read_src(f) {
            Some(s) => {
                srcs.insert(f, s);
            }
            None => missing_file(out, f),
        }
    }
    if srcs.len() != files.len() {
        return None;
    }
    let account = |name: &str| -> Option<&'static str> {
        Some(match name {
            // replication::gossip::GossipMessage
            "GossipMessage::DeltaBatch" => "driven: queue_deltas without a selective router, queue_deltas_broadcast; model GMsg.deltaBatch; received by a peer (MV) and over TCP",
            "GossipMessage::TargetedDelta" => "driven: queue_deltas through a selective router; model GMsg.targetedDelta; received (MV, target_replica not checked by the receiver) and over TCP",
            "GossipMessage::SyncRequest" => "NOT produced by any code (no constructor call in src/); receiver arm is empty; model GMsg.syncRequest carries no deltas (into_deltas = none); serialisation is C14's",
            "GossipMessage::SyncResponse" => "NOT produced by any code; a receiver applies its deltas (model: payload = deltas); constructed by hand in `message_kinds`",
            "GossipMessage::Heartbeat" => "driven: queue_heartbeat (MH), sentinel of the TCP scenarios; model GMsg.heartbeat",
            // replication::gossip::GossipState
            "GossipState::new" | "GossipState::with_router" | "GossipState::set_router" => "driven: world() builds states all three ways; MR = set_router at run time",
            "GossipState::verify_invariants" => "debug-only (release: empty)",
            "GossipState::advance_epoch" | "GossipState::drain_outbound" => "driven: every MT (loop body), actor twin",
            "GossipState::queue_deltas" => "driven: ML (execute queues the delta it was handed), MT (collected outbox)",
            "GossipState::queue_deltas_broadcast" => "driven: actor twin and `message_kinds` (no caller in src/ outside the actor)",
            "GossipState::queue_heartbeat" => "driven: MH",
            "GossipState::is_selective" | "GossipState::router" => "driven: MQ prints sel=; router() is a plain accessor",
            // production::gossip_actor::GossipMessage (mailbox)
            "ActorMessage::QueueDeltas" | "ActorMessage::QueueDeltasBroadcast" | "ActorMessage::QueueHeartbeat" | "ActorMessage::AdvanceEpoch" | "ActorMessage::DrainOutbound" | "ActorMessage::SetRouter" | "ActorMessage::IsSelective" | "ActorMessage::GetEpoch" | "ActorMessage::Shutdown" => {
                "driven: actor twin (same sequence on the actor and on a GossipState; drains / answers compared), TCP scenarios with start_gossip_loop_with_actor"
            }
            // ShardReplicaState
            "ShardReplicaState::new" | "ShardReplicaState::record_write" | "ShardReplicaState::record_delete" | "ShardReplicaState::record_hash_write" | "ShardReplicaState::record_hash_delete" | "ShardReplicaState::apply_remote_delta" => {
                "driven: ML / MV on real ShardReplicaStates (and parts A, B; C08)"
            }
            "ShardReplicaState::drain_pending_deltas" => "driven: MT of a node whose loop collects the outbox; collect_pending_deltas of a real ReplicatedShardedState",
            "ShardReplicaState::get_replicated" => "accessor (= replicated_keys.get)",
            // GossipManager
            "GossipManager::new" | "GossipManager::get_delta_sender" | "GossipManager::queue_outbound" => "NOT driven: the struct's channels have no consumer (#[allow(dead_code)]); nothing reads outbound_rx / delta_rx",
            "GossipManager::start_server" => "NOT driven in-process: binds the fixed port 3001 + replica_id on 0.0.0.0 (another builder's run may hold it); its per-connection loop `handle_peer_connection` has the same shape as server_persistent's `handle_gossip_connection` (every delta-bearing frame applied, target not checked, size limit closes the connection) which the model's `recv` transcribes",
            "GossipManager::start_gossip_loop" | "GossipManager::start_gossip_loop_with_actor" => "driven: TCP scenarios (3 replica ids × broadcast / selective × state / actor, a refusing peer)",
            // ReplicatedShardedState (gossip side)
            "ReplicatedShardedState::execute" => "driven: sharded_state (Locked and Actor backends, enabled on / off), parts B and C08 for the command side",
            "ReplicatedShardedState::collect_pending_deltas" => "driven: sharded_state incl. a burst over MAX_PENDING_DELTAS on one shard",
            "ReplicatedShardedState::apply_remote_deltas" => "driven: C08 system histories (recovery + gossip from a peer)",
            "ReplicatedShardedState::with_gossip_actor" | "ReplicatedShardedState::with_gossip_actor_and_time" | "ReplicatedShardedState::new" | "ReplicatedShardedState::with_time_source" => "driven: sharded_state builds both backends (the *_time variants are what new / with_gossip_actor delegate to)",
            "ReplicatedShardedState::get_gossip_state" | "ReplicatedShardedState::gossip_actor_handle" | "ReplicatedShardedState::gossip_backend" | "ReplicatedShardedState::is_actor_based" => "accessors used by sharded_state to reach the queue",
            // GossipRouter
            "GossipRouter::new" | "GossipRouter::route_deltas" | "GossipRouter::is_selective" => "driven: every selective world (real router over a real ring; targets told to the model per key)",
            "GossipRouter::from_config" => "C19 (peer-id arithmetic, repaired by faccb9f); the gossip loops do NOT use it: they rebuild the map with the old arithmetic (TCP scenarios)",
            "GossipRouter::route_with_stats" | "GossipRouter::calculate_reduction_ratio" => "statistics around route_deltas; no effect on what is queued",
            "GossipRouter::get_peer_address" | "GossipRouter::peer_ids" | "GossipRouter::my_replica" => "accessors",
            "GossipRouter::update_peer" | "GossipRouter::remove_peer" => "membership changes of one router: covered as MR (a router with a different set of known peers replaces the old one); C19 owns membership",
            _ => return None,
        })
    };
    let mut names: Vec<String> = Vec::new();
    for v in scan_enum(non_test(&srcs["src/replication/gossip.rs"]), "GossipMessage") {
        names.push(format!("GossipMessage::{}", v));
    }
    for v in scan_enum(non_test(&srcs["src/production/gossip_actor.rs"]), "GossipMessage") {
        names.push(format!("ActorMessage::{}", v));
    }
    // `impl` blocks are looked up in every file of the two directories (a block split over files or
    // moved into a private submodule is still found); the signature decides what a NEW name is
    let mut sigs: BTreeMap<String, String> = BTreeMap::new();
    for ty in ["GossipState", "ShardReplicaState", "GossipManager", "GossipRouter"] {
        for (v, sig) in scan_pub_fn_sigs_tree(&["src/replication", "src/production"], ty) {
            names.push(format!("{}::{}", ty, v));
            sigs.insert(format!("{}::{}", ty, v), sig);
        }
    }
    let gossip_side = ["execute", "collect_pending_deltas", "apply_remote_deltas", "with_gossip_actor", "with_gossip_actor_and_time", "new", "with_time_source", "get_gossip_state", "gossip_actor_handle", "gossip_backend", "is_actor_based"];
    let all_state_fns: Vec<String> = scan_pub_fn_sigs_tree(&["src/production"], "ReplicatedShardedState").into_iter().map(|x| x.0).collect();
    for v in &all_state_fns {
        if gossip_side.contains(&v.as_str()) {
            names.push(format!("ReplicatedShardedState::{}", v));
        }
    }
    let minimum = [("GossipMessage::", 5usize), ("ActorMessage::", 9), ("GossipState::", 9), ("ShardReplicaState::", 7), ("GossipManager::", 5), ("GossipRouter::", 8), ("ReplicatedShardedState::", 6)];
    for (pre, min) in minimum {
        let c = names.iter().filter(|n| n.starts_with(pre)).count();
        if c < min {
            out.violation("C06:coverage:source-scan-failed", "the source scan found fewer names than the anchored file is known to hold (scanner out of date?)", json!({"group": pre, "found": c, "expected_at_least": min}));
        }
    }
    for n in &names {
        match account(n) {
            Some(c) => {
                table.insert(n.clone(), c.to_string());
            }
            None if sigs.get(n).map(|sg| is_observer_sig(sg)).unwrap_or(false) => {
                // a new function that only looks (`&self`, returns no delta / message / route / channel)
                // cannot move an update: recorded, not judged
                table.insert(n.clone(), format!("new observer, not driven (cannot move a delta): {}", sigs[n].trim()));
                out.count("coverage:new-observer-not-judged");
            }
            None => {
                table.insert(n.clone(), "UNACCOUNTED".into());
                out.violation(
                    &format!("C06:coverage:message-path-not-driven:{}", n),
                    "a message kind / entry point of the replication message path exists in the source the harness was built against, but the harness neither drives it nor says why not (harness/src/c06msg.rs coverage)",
                    json!({"name": n}),
                );
            }
        }
    }
    out.extra.insert("message_path_coverage(derived from the source)".into(), json!(table));
    // capacities from the source (the model is told these numbers)
    let pending = scan_const(&srcs["src/replication/state/shard_state.rs"], "MAX_PENDING_DELTAS");
    let outbound = scan_const(&srcs["src/replication/gossip.rs"], "MAX_OUTBOUND_QUEUE");
    if outbound != Some(MAX_OUTBOUND_QUEUE as u64) || pending.is_none() {
        out.violation("C06:coverage:source-scan-failed", "capacity constants could not be read from the source (or differ from the compiled constant)", json!({"MAX_PENDING_DELTAS": pending, "MAX_OUTBOUND_QUEUE(source)": outbound, "MAX_OUTBOUND_QUEUE(compiled)": MAX_OUTBOUND_QUEUE}));
        return None;
    }
    out.extra.insert("capacities(from the source)".into(), json!({"MAX_PENDING_DELTAS": pending, "MAX_OUTBOUND_QUEUE": outbound, "model_constants": {"Gossip.maxPending": 100, "Gossip.maxOutbound": 10000}}));
    if pending != Some(100) || outbound != Some(10000) {
        out.violation("C06:msg:capacity-constant-changed", "MAX_PENDING_DELTAS / MAX_OUTBOUND_QUEUE differ from the constants of the Lean model (Gossip.maxPending / maxOutbound): the theorems that quantify over capacities still hold, the `caps`-instantiated examples must be revisited", json!({"MAX_PENDING_DELTAS": pending, "MAX_OUTBOUND_QUEUE": outbound}));
    }
    Some(Caps { pending: pending.unwrap(), outbound: outbound.unwrap() })
}

/// every `GossipMessage` variant through the receiver's eyes: `into_deltas`, `is_delta_message`,
/// `source_replica`, serialisation round trip — against the model's table
fn message_kinds(out: &mut Out) {
    let mut sh = ShardReplicaState::new(ReplicaId::new(2), ConsistencyLevel::Eventual);
    let d = sh.record_write("k".into(), SDS::from_str("v"), None);
    let msgs = vec![
        GossipMessage::new_delta_batch(ReplicaId::new(2), vec![d.clone()], 7),
        GossipMessage::new_targeted_delta(ReplicaId::new(2), ReplicaId::new(1), vec![d.clone()], 7),
        GossipMessage::SyncRequest { source_replica: ReplicaId::new(2), known_versions: HashMap::new() },
        GossipMessage::SyncResponse { source_replica: ReplicaId::new(2), deltas: vec![d.clone()] },
        GossipMessage::new_heartbeat(ReplicaId::new(2), 7),
    ];
    // the model's table (Gossip.GMsg.intoDeltas / isDeltaMessage): B T Q P H
    let model = [(true, true), (true, true), (false, false), (true, false), (false, false)];
    for (m, (has, isd)) in msgs.iter().zip(model.iter()) {
        let got = (m.clone().into_deltas().is_some(), m.is_delta_message());
        let rt = m.serialize().ok().and_then(|b| GossipMessage::deserialize(&b).ok()).map(|x| show_gmsg(&x));
        if got != (*has, *isd) || m.source_replica().0 != 2 || rt.as_deref() != Some(&show_gmsg(m)) {
            out.violation("C06:msg:message-kind-table", "into_deltas / is_delta_message / source_replica / JSON round trip of a GossipMessage variant differ from the model's table", json!({"message": show_gmsg(m), "into_deltas,is_delta_message": [got.0, got.1], "model": [has, isd], "round_trip": rt}));
        }
        out.count("m:message-kind");
    }
}

/// `advance_epoch` at the top of the range (saturating), `queue_deltas(vec![])` (no message),
/// `queue_deltas_broadcast(vec![])`, a router that is not selective
fn state_corners(out: &mut Out) {
    let config = ReplicationConfig { enabled: true, replica_id: 1, ..ReplicationConfig::default() };
    let mut g = GossipState::new(config.clone());
    g.epoch = u64::MAX - 1;
    g.advance_epoch();
    let a = g.epoch;
    g.advance_epoch();
    let b = g.epoch;
    g.queue_deltas(vec![]);
    g.queue_deltas_broadcast(vec![]);
    let empty_calls_queue_nothing = g.outbound_queue.is_empty();
    let (r, _) = make_router(3, 2, 8, 1, &[2, 3], false);
    g.set_router(r);
    let mut sh = ShardReplicaState::new(ReplicaId::new(1), ConsistencyLevel::Eventual);
    g.queue_deltas(vec![sh.record_write("k".into(), SDS::from_str("v"), None)]);
    let non_selective_router_broadcasts = g.outbound_queue.len() == 1 && g.outbound_queue[0].target.is_none() && !g.is_selective();
    // the model: Gossip.GState.advanceEpoch saturates at u64Max; queueDeltas [] = identity; a router with selective = false broadcasts
    if a != u64::MAX || b != u64::MAX || !empty_calls_queue_nothing || !non_selective_router_broadcasts {
        out.violation("C06:msg:state-corner", "advance_epoch does not saturate at u64::MAX, or an empty queue_deltas queues a message, or a non-selective router does not broadcast — the model (Gossip.GState) says otherwise", json!({"epoch_after_one": a, "epoch_after_two": b, "empty_calls_queue_nothing": empty_calls_queue_nothing, "non_selective_router_broadcasts": non_selective_router_broadcasts}));
    }
    out.count("m:state-corners");
}

/// the coverage self-audit of C06 against the eleven classes (DESIGN.md §4 C06)
pub fn audit() -> serde_json::Value {
    json!([
      {"class": 1, "topic": "entry path / variant never driven",
       "covered": "message level: every GossipMessage variant, every GossipActor mailbox message, every pub fn of GossipState / GossipRouter / GossipManager / ShardReplicaState and the gossip side of ReplicatedShardedState are enumerated from the source the binary was built against and must be accounted for (C06:coverage:message-path-not-driven:*); real start_gossip_loop and start_gossip_loop_with_actor over loopback TCP; ReplicatedShardedState with both gossip backends, enabled on / off; a node's OWN deltas echoed back are really applied (the old harness skipped them to match a model that treated them as no-ops: the code has no origin check); node / actor restart with an empty state; the multi-key front end (MSET / MGET / EXISTS across shards); actor mailbox messages ExecuteReadonly / EvictExpired / DrainPendingDeltas (C08's table); session 4: the simulator cluster simulator/multi_node.rs — SimulatedNode::{execute, drain_deltas, apply_remote_deltas}, MultiNodeSimulation::{new, new_partitioned, with_auto_anti_entropy, execute, gossip_round (send_deltas, deliver_messages), advance_time_ms, partition, heal_partition, run_anti_entropy_sync, run_full_anti_entropy} — step by step against Model/SimCluster.lean (part S, ops S*)",
       "open": "server_persistent's handle_gossip_connection (a binary, same shape as handle_peer_connection, which IS driven since session 4: every frame kind, the size limit at equality, garbage, reconnect); SyncRequest / SyncResponse are produced by no code; the simulator's operation history / linearizability checker and its other public accessors are C20's (its source scan fails on a new public entry point of MultiNodeSimulation nobody drives)"},
      {"class": 2, "topic": "input alphabet",
       "covered": "values: empty, binary (00 ff 0a), short; keys incl. non-ASCII; hash commands with 1..6 fields and repetitions; deltas of both replicated kinds; frames with 0..n deltas (empty collect, bursts of 100+)",
       "open": "keys are Rust Strings (UTF-8 by type); counter / set CRDT kinds are not producible by the replicated actor (C07 covers their merges)"},
      {"class": 3, "topic": "comparison at equality",
       "covered": "stamp ties (equal Lamport time on two fresh nodes), outbound queue exactly AT MAX_OUTBOUND_QUEUE (nothing dropped) and one past it (the oldest dropped), outbox bursts of cap..cap+2, the peer-id arithmetic of the gossip loops for the replica id at every position (1, 2, 3 of 3), epoch saturation at u64::MAX, a ring with replication factor 1..n",
       "open": "the real receiver (start_server → handle_peer_connection) is driven by a raw TCP client: a frame of exactly 1 MiB is accepted, a header one byte above closes the connection; the port 3001 + replica_id on 0.0.0.0 is fixed by the code: a high replica id is probed for a free port, a run that finds none is counted (tcp:server:no-free-port), not judged"},
      {"class": 4, "topic": "configuration",
       "covered": "ReplicationConfig: enabled on / off, replica_id 1..4, consistency_level Eventual / Causal, gossip_interval_ms (5 ms in the TCP scenarios), peers complete / one missing, replication_factor 1..n, partitioned_mode + selective_gossip on / off, virtual_nodes_per_physical 1 / 8 / 150; a router installed at construction, later (set_router), replaced at run time, non-selective",
       "open": ""},
      {"class": 5, "topic": "capacity thresholds",
       "covered": "MAX_PENDING_DELTAS and MAX_OUTBOUND_QUEUE are read from the source (and compared with the compiled constant and the model's constants) and crossed by generated cases; the theorems quantify over the capacities; the outbox capacity is also crossed INSIDE the simulator cluster (cap-3 … cap+6 writes on one node between two gossip rounds), max_keys_per_sync 0 / 1 / 2 / 1000 and merkle_tree_depth 0 / 1 / 3 / 8 in the anti-entropy exchanges",
       "open": "NUM_SHARDS = 16 is fixed in the source (C08's node-level model takes it as a parameter)"},
      {"class": 6, "topic": "fault kinds",
       "covered": "a send that fails (refused connection, real TCP) is not retried; the peer drops the connection after the first frame and keeps listening (a TCP-level partition that heals): the connection pool reconnects and later frames arrive, in order, none twice; a target without address; a closed actor mailbox (handle fallbacks after Shutdown); frames never handed over / handed over twice / reordered; every loss cause has a Lean witness and a ledger entry compared step by step; in the simulator cluster: packet loss per send (rate 0 / 0.3 / 0.6 / 1, the simulator's own rng draws replayed by a twin rng and handed to the model), a partition at send time, a partition at delivery time (the flight stays queued and blocks the queue behind it), delays 0..14 ms",
       "open": "a serialisation failure of a GossipMessage cannot be provoked (serde_json on these types does not fail); partial TCP writes are below the model's send oracle"},
      {"class": 7, "topic": "history shapes",
       "covered": "restart with an empty state + own deltas back + write again (corpus + random, shard level and actor level), write before the own history is back (excluded by cause, counted), write-after-receive, duplicates, bursts between two drains, router / replication-factor change at run time, a writer outside the key's replica set, partial flushes; partition → writes on both sides → heal (with / without automatic anti-entropy) in any order; every delta of a burst lost, then run_full_anti_entropy; an exchange while flights are still queued",
       "open": ""},
      {"class": 8, "topic": "node-global state",
       "covered": "one Lamport clock per shard shared by all its keys (keys chosen on one shard / on different shards of the 16), one outbound queue and one epoch per node shared by all shards, the outbox per shard",
       "open": ""},
      {"class": 9, "topic": "observations",
       "covered": "full replication state of every node, served keyspace with PTTL, GET / EXISTS / HGETALL / TTL replies, queue contents (first / last entries and length), every frame put on the wire (destination, kind, source, target, epoch, delta ids), every loss with its cause and destination, per-key flags delivered / delivered-to-owners / kind / agree / agree-among-owners; simulator cluster: after every step the Lamport clock and every key's full value of every touched node AND what its executor serves (GET of every pool key), the whole message queue (source, destination, delta ids, due time), the anti-entropy counter, the number of partitions; per key above (every responsible replica's value absorbs every recorded delta) / among / served",
       "open": "vector_clock and replication_factor are compared in the state dumps but carry no client-visible meaning"},
      {"class": 10, "topic": "finding signatures",
       "covered": "a divergence of a key of ONE kind whose registers re-use a stamp was absorbed by C06:cross-kind-order (compat = none was taken for 'mixed kinds'): now C06:rs-diverge:stamp-reused, a violation unless the history wrote before its own recovery (counted); the front-end findings carry the command in the signature",
       "open": ""},
      {"class": 11, "topic": "harness fragility",
       "covered": "source files are read from the tree the binary was built against; a failed scan, an implausibly short scan, a loop that does not deliver its sentinel within 90 s, a capacity constant that differs from the model are violations; the peer-id arithmetic is observed on the real loop and cross-checked with the source text",
       "open": ""}
    ])
}

pub async fn part_m(out: &mut Out, rng: &mut Rng, n: u64) {
    let Some(caps) = coverage(out) else { return };
    message_kinds(out);
    state_corners(out);
    let fixed = tcp_scenarios(out, &caps).await;
    server_scenarios(out).await;
    reconnect_scenario(out).await;
    outbound_boundary(out, &caps, fixed);
    for _ in 0..n {
        let mut r = rng.fork();
        history(out, &mut r, &caps, fixed);
    }
    for _ in 0..(n / 4).max(12) {
        let mut r = rng.fork();
        actor_twin(out, &mut r).await;
    }
    for _ in 0..(n / 4).max(12) {
        let mut r = rng.fork();
        sharded_state(out, &mut r, &caps, fixed).await;
    }
}
