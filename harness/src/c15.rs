//! C15 — RESP decoding is total, bounded, prefix-stable; replies re-decode to themselves.
//!
//! Correspondence: the real `RespCodec::parse` (codec 1) and `RespParser::parse` (codec 2),
//! the real encoders, a buffer loop around the real decoders, `String::from_utf8_lossy` and
//! `str::parse::<i64>` — against the Lean model (`Model/Resp.lean`) on the same op lines.
//! Oracle (independent of the model): panic / abort, consumed > len, allocation request out of
//! proportion to the input, an outcome that changes when bytes are appended after a decided
//! frame, "incomplete" that no continuation can complete, different frames under fragmentation,
//! decode(encode v) != v.
//!
//! Inputs that can make the real code request gigabytes (`*1000000000\r\n`) or overflow the
//! stack (deep nesting) would abort this process (aborts cannot be caught).  They are run in a
//! CHILD PROCESS (this binary re-executed with `--c15-child`); in the child the global allocator
//! (alloc.rs) refuses any single request >= 1 GiB, deterministically standing in for "no
//! memory", and the decoder runs on a thread with the requested stack size.  The parent maps
//! the child's death to `abort:alloc` / `abort:stack`.
use crate::alloc;
use crate::enc::hex;
use crate::out::Out;
use crate::rng::Rng;
use crate::Args;
use bytes::{Bytes, BytesMut};
use redis_sim::redis::{RespCodec, RespParser, RespValue, RespValueZeroCopy};
use serde_json::json;
use std::borrow::Cow;
use std::io::Write;
use std::panic::{catch_unwind, AssertUnwindSafe};
use std::process::{Command, Stdio};
use std::sync::Mutex;

static LAST_PANIC: Mutex<String> = Mutex::new(String::new());

pub fn install_silent_panic_hook() {
    std::panic::set_hook(Box::new(|info| {
        if let Ok(mut g) = LAST_PANIC.lock() {
            *g = info.to_string();
        }
    }));
}

pub fn last_panic() -> String {
    LAST_PANIC.lock().map(|g| g.clone()).unwrap_or_default().replace('\n', " ")
}

// ---------------------------------------------------------------- values

#[derive(Clone, Debug, PartialEq)]
pub enum V {
    S(Vec<u8>),
    E(Vec<u8>),
    I(i64),
    N,
    B(Vec<u8>),
    Z,
    A(Vec<V>),
}

impl V {
    pub fn show(&self) -> String {
        match self {
            V::S(b) => format!("S {}", hex(b)),
            V::E(b) => format!("E {}", hex(b)),
            V::I(n) => format!("I {}", n),
            V::N => "N".into(),
            V::B(b) => format!("B {}", hex(b)),
            V::Z => "Z".into(),
            V::A(a) => {
                let mut s = format!("A {}", a.len());
                for v in a {
                    s.push(' ');
                    s.push_str(&v.show());
                }
                s
            }
        }
    }
    fn from_zc(v: &RespValueZeroCopy) -> V {
        match v {
            RespValueZeroCopy::SimpleString(b) => V::S(b.to_vec()),
            RespValueZeroCopy::Error(b) => V::E(b.to_vec()),
            RespValueZeroCopy::Integer(n) => V::I(*n),
            RespValueZeroCopy::BulkString(None) => V::N,
            RespValueZeroCopy::BulkString(Some(b)) => V::B(b.to_vec()),
            RespValueZeroCopy::Array(None) => V::Z,
            RespValueZeroCopy::Array(Some(a)) => V::A(a.iter().map(V::from_zc).collect()),
        }
    }
    pub fn from_rv(v: &RespValue) -> V {
        match v {
            RespValue::SimpleString(s) => V::S(s.as_bytes().to_vec()),
            RespValue::Error(s) => V::E(s.as_bytes().to_vec()),
            RespValue::Integer(n) => V::I(*n),
            RespValue::BulkString(None) => V::N,
            RespValue::BulkString(Some(b)) => V::B(b.clone()),
            RespValue::Array(None) => V::Z,
            RespValue::Array(Some(a)) => V::A(a.iter().map(V::from_rv).collect()),
        }
    }
    fn to_zc(&self) -> RespValueZeroCopy {
        match self {
            V::S(b) => RespValueZeroCopy::SimpleString(Bytes::copy_from_slice(b)),
            V::E(b) => RespValueZeroCopy::Error(Bytes::copy_from_slice(b)),
            V::I(n) => RespValueZeroCopy::Integer(*n),
            V::N => RespValueZeroCopy::BulkString(None),
            V::B(b) => RespValueZeroCopy::BulkString(Some(Bytes::copy_from_slice(b))),
            V::Z => RespValueZeroCopy::Array(None),
            V::A(a) => RespValueZeroCopy::Array(Some(a.iter().map(|v| v.to_zc()).collect())),
        }
    }
    /// `None` when a line string is not valid UTF-8 (no such `RespValue` exists)
    fn to_rv(&self) -> Option<RespValue> {
        Some(match self {
            V::S(b) => RespValue::SimpleString(Cow::Owned(String::from_utf8(b.clone()).ok()?)),
            V::E(b) => RespValue::Error(Cow::Owned(String::from_utf8(b.clone()).ok()?)),
            V::I(n) => RespValue::Integer(*n),
            V::N => RespValue::BulkString(None),
            V::B(b) => RespValue::BulkString(Some(b.clone())),
            V::Z => RespValue::Array(None),
            V::A(a) => RespValue::Array(Some(a.iter().map(|v| v.to_rv()).collect::<Option<Vec<_>>>()?)),
        })
    }
    fn lines_have(&self, f: &dyn Fn(&[u8]) -> bool) -> bool {
        match self {
            V::S(b) | V::E(b) => f(b),
            V::A(a) => a.iter().any(|v| v.lines_have(f)),
            _ => false,
        }
    }
    fn sanitized(&self) -> V {
        let f = |b: &Vec<u8>| b.iter().map(|c| if *c == b'\r' || *c == b'\n' { b' ' } else { *c }).collect::<Vec<u8>>();
        match self {
            V::S(b) => V::S(f(b)),
            V::E(b) => V::E(f(b)),
            V::A(a) => V::A(a.iter().map(|v| v.sanitized()).collect()),
            v => v.clone(),
        }
    }
    fn depth(&self) -> usize {
        match self {
            V::A(a) => 1 + a.iter().map(|v| v.depth()).max().unwrap_or(0),
            _ => 1,
        }
    }
}

// ---------------------------------------------------------------- one decoder call

#[derive(Clone, Debug, PartialEq)]
pub enum Kind {
    Ok,
    Incomplete,
    Error,
    Crash,
    Abort,
}

#[derive(Clone, Debug)]
pub struct Obs {
    pub kind: Kind,
    /// canonical outcome text (without the `big=[…]` part)
    pub text: String,
    pub val: Option<V>,
    pub consumed: usize,
    pub bigs: Vec<usize>,
    pub maxreq: usize,
}

impl Obs {
    pub fn line(&self) -> String {
        let b: Vec<String> = self.bigs.iter().map(|x| x.to_string()).collect();
        format!("{} big=[{}]", self.text, b.join(","))
    }
}

fn err_class(e: &str) -> &'static str {
    if e.starts_with("Unknown RESP type") {
        "err:unknown-type"
    } else if e == "Invalid bulk length" || e == "Invalid array length" {
        "err:bad-len"
    } else if e == "Nesting too deep" {
        "err:too-deep"
    } else {
        "err:bad-int"
    }
}

fn classify_panic() -> String {
    let m = LAST_PANIC.lock().map(|g| g.clone()).unwrap_or_default();
    if m.contains("capacity overflow") {
        "crash:capacity".into()
    } else if m.contains("slice index") || m.contains("out of range for slice") || m.contains("range end index") || m.contains("range start index") {
        "crash:slice".into()
    } else {
        format!("crash:other:{}", m.replace(['\n', ' '], "_"))
    }
}

/// the real decoder, in this process, under catch_unwind, allocation requests observed
pub fn decode_here(codec: u8, input: &[u8]) -> Obs {
    let mut o = Obs { kind: Kind::Crash, text: String::new(), val: None, consumed: 0, bigs: vec![], maxreq: 0 };
    if codec == 1 {
        let mut buf = BytesMut::from(input);
        alloc::window_open();
        let r = catch_unwind(AssertUnwindSafe(|| RespCodec::parse(&mut buf)));
        let (bigs, maxreq) = alloc::window_close();
        o.bigs = bigs;
        o.maxreq = maxreq;
        match r {
            Err(_) => o.text = classify_panic(),
            Ok(Ok(Some(v))) => {
                let v = V::from_zc(&v);
                o.consumed = input.len().wrapping_sub(buf.len());
                o.kind = Kind::Ok;
                o.text = format!("ok {} {}", v.show(), o.consumed);
                o.val = Some(v);
            }
            Ok(Ok(None)) => {
                o.kind = Kind::Incomplete;
                o.text = "incomplete".into();
            }
            Ok(Err(e)) => {
                o.kind = Kind::Error;
                o.text = err_class(&e).into();
            }
        }
    } else {
        alloc::window_open();
        let r = catch_unwind(AssertUnwindSafe(|| RespParser::parse(input)));
        let (bigs, maxreq) = alloc::window_close();
        o.bigs = bigs;
        o.maxreq = maxreq;
        match r {
            Err(_) => o.text = classify_panic(),
            Ok(Ok((v, n))) => {
                let v = V::from_rv(&v);
                o.consumed = n;
                o.kind = Kind::Ok;
                o.text = format!("ok {} {}", v.show(), n);
                o.val = Some(v);
            }
            Ok(Err(e)) => {
                let (k, t) = match e.as_str() {
                    "Empty input" => (Kind::Incomplete, "err:empty"),
                    "No CRLF found" => (Kind::Incomplete, "err:nocrlf"),
                    "Incomplete bulk string" => (Kind::Incomplete, "err:short"),
                    x => (Kind::Error, err_class(x)),
                };
                o.kind = k;
                o.text = t.into();
            }
        }
    }
    o
}

pub fn nested(depth: usize) -> Vec<u8> {
    let mut v = Vec::with_capacity(depth * 4 + 4);
    for _ in 0..depth {
        v.extend_from_slice(b"*1\r\n");
    }
    v.extend_from_slice(b":1\r\n");
    v
}

/// entry point of the child process: `rvharness --c15-child <codec> <stack-bytes>`; stdin holds
/// `x<hex>` or `nested <depth>`; prints the canonical outcome line
pub fn child(args: &[String]) {
    let codec: u8 = args[0].parse().expect("codec");
    let stack: usize = args[1].parse().expect("stack");
    let mut spec = String::new();
    std::io::stdin().read_line(&mut spec).expect("stdin");
    let spec = spec.trim().to_string();
    let input = if let Some(d) = spec.strip_prefix("nested ") {
        nested(d.parse().expect("depth"))
    } else {
        crate::enc::unhex(&spec)
    };
    install_silent_panic_hook();
    alloc::limit_on();
    let h = std::thread::Builder::new()
        .stack_size(stack)
        .spawn(move || decode_here(codec, &input))
        .expect("spawn");
    let o = h.join().expect("join");
    let mut text = o.line();
    if text.len() > 4000 {
        // deep values are not printed in full (the parent only needs the outcome class)
        text = format!("{} big=[]", text.split(' ').next().unwrap_or("?"));
    }
    println!("{}", text);
}

/// run one decode in a child process; aborts are mapped to `abort:alloc` / `abort:stack`
pub fn decode_in_child(codec: u8, stack: usize, spec: &str) -> Obs {
    let exe = std::env::current_exe().expect("current_exe");
    let mut ch = Command::new(exe)
        .args(["--c15-child", &codec.to_string(), &stack.to_string()])
        .stdin(Stdio::piped())
        .stdout(Stdio::piped())
        .stderr(Stdio::piped())
        .spawn()
        .expect("spawn child");
    {
        let mut si = ch.stdin.take().unwrap();
        let _ = writeln!(si, "{}", spec);
    }
    let outp = ch.wait_with_output().expect("child wait");
    let so = String::from_utf8_lossy(&outp.stdout).trim().to_string();
    let se = String::from_utf8_lossy(&outp.stderr).to_string();
    let mut o = Obs { kind: Kind::Abort, text: String::new(), val: None, consumed: 0, bigs: vec![], maxreq: 0 };
    if outp.status.success() && !so.is_empty() {
        // "<outcome> big=[..]"
        let (t, b) = so.rsplit_once(" big=[").expect("child line");
        o.text = t.to_string();
        o.bigs = b.trim_end_matches(']').split(',').filter(|x| !x.is_empty()).map(|x| x.parse().unwrap()).collect();
        o.maxreq = o.bigs.iter().copied().max().unwrap_or(0);
        o.kind = if t.starts_with("ok ") {
            o.consumed = t.rsplit(' ').next().and_then(|x| x.parse().ok()).unwrap_or(0);
            Kind::Ok
        } else if t.starts_with("crash") {
            Kind::Crash
        } else if t == "incomplete" || t == "err:empty" || t == "err:nocrlf" || t == "err:short" {
            Kind::Incomplete
        } else {
            Kind::Error
        };
        return o;
    }
    if se.contains("overflowed its stack") {
        o.text = "abort:stack".into();
    } else if let Some(i) = se.find("memory allocation of ") {
        let n: usize = se[i + 21..].split(' ').next().unwrap_or("0").parse().unwrap_or(0);
        o.text = "abort:alloc".into();
        o.bigs = vec![n];
        o.maxreq = n;
    } else {
        o.text = format!("abort:other:{:?}:{}", outp.status.code(), se.replace(['\n', ' '], "_"));
    }
    o
}

// ---------------------------------------------------------------- checks

struct Ctx {
    out: Out,
    child_budget: u64,
    /// recent inputs that are exactly one complete frame, per codec (for the concatenation oracle)
    recent: [Vec<Vec<u8>>; 2],
}

/// an array header `*<n digits or more>` somewhere in the input: codec 1 may pre-allocate
/// 40 * 10^(n-1) bytes or more
fn has_digit_run(input: &[u8], n: usize) -> bool {
    for i in 0..input.len() {
        if input[i] == b'*' {
            let mut j = i + 1;
            if j < input.len() && input[j] == b'+' {
                j += 1;
            }
            let mut run = 0;
            while j < input.len() && input[j].is_ascii_digit() {
                run += 1;
                j += 1;
            }
            if run >= n {
                return true;
            }
        }
    }
    false
}

fn find(h: &[u8], n: &[u8]) -> bool {
    h.windows(n.len()).any(|w| w == n)
}

fn crash_signature(codec: u8, text: &str, input: &[u8]) -> String {
    let class = if text.starts_with("crash:slice") {
        if find(input, b"$-") { "bulk-negative-len" } else { "slice-other" }
    } else if text.starts_with("crash:capacity") {
        if find(input, b"*-") { "array-negative-len" } else { "array-huge-len" }
    } else if text.starts_with("abort:alloc") {
        "array-prealloc-abort"
    } else if text.starts_with("abort:stack") {
        "stack-overflow:nested-array"
    } else {
        "other"
    };
    format!("C15:crash:{}:codec{}", class, codec)
}

/// decode `input` with the real codec (here or in a child), emit the op, evaluate the oracle
fn check_decode(cx: &mut Ctx, codec: u8, input: &[u8], src: &str) -> Option<Obs> {
    let dangerous = codec == 1 && has_digit_run(input, 8);
    let o = if dangerous {
        if cx.child_budget == 0 {
            cx.out.count("skipped:child-budget");
            return None;
        }
        cx.child_budget -= 1;
        cx.out.count("ran-in-child");
        decode_in_child(codec, 8 << 20, &hex(input))
    } else {
        decode_here(codec, input)
    };
    cx.out.op(format!("D{} {}", codec, hex(input)), o.line());
    cx.out.count(&format!("src:{}", src));
    cx.out.count(&format!("outcome:codec{}:{}", codec, o.text.split(' ').next().unwrap_or("")));
    let nontrivial = input.len() >= 3 && b"+-:$*".contains(&input[0]);
    cx.out.case(&format!("D{}|{}", codec, hex(input)), nontrivial);
    let replay = |what: &str| json!({"op": format!("D{} {}", codec, hex(input)), "bytes": String::from_utf8_lossy(input), "observed": o.line(), "expected": what, "source": src});
    cx.out.sample(replay("sample"));

    // ---- oracle
    if o.kind == Kind::Crash || o.kind == Kind::Abort {
        cx.out.violation(&crash_signature(codec, &o.text, input), "the real decoder panics / aborts on this input (release builds: panic = abort)", replay("ok | incomplete | protocol error"));
    }
    if o.kind == Kind::Ok && o.consumed > input.len() {
        cx.out.violation(&format!("C15:overread:codec{}", codec), "consumed > input length", replay("consumed <= len"));
    }
    if o.kind == Kind::Ok && o.consumed == 0 {
        cx.out.violation(&format!("C15:zero-consumed:codec{}", codec), "a value was decoded from zero bytes", replay("consumed >= 1"));
    }
    if o.maxreq > 64 * input.len() + 4096 {
        cx.out.violation(&format!("C15:alloc:array-prealloc:codec{}", codec), &format!("a single allocation request of {} bytes for an input of {} bytes (driven by an unvalidated length field)", o.maxreq, input.len()), replay("allocation <= 64*len + 4096"));
    }
    if dangerous {
        return Some(o);
    }
    // ---- the RESP grammar, stated on the bytes (independent of the model)
    if let Some(v) = &o.val {
        if v.lines_have(&|b| find(b, b"\r\n")) {
            cx.out.violation(&format!("C15:grammar:crlf-inside-line:codec{}", codec), "a decoded simple string / error contains CR LF: the line did not end at the first CR LF", replay("line text without CR LF"));
        }
    }
    if !input.is_empty() && b"+-:".contains(&input[0]) {
        let fc = first_crlf(&input[1..]);
        if let (Kind::Ok, Some(p)) = (&o.kind, fc) {
            if o.consumed != p + 3 {
                cx.out.violation(&format!("C15:grammar:line-consumed:codec{}", codec), &format!("a line frame consumed {} bytes, its first CR LF ends at {}", o.consumed, p + 3), replay("consumed = index of the first CR LF + 2"));
            }
        }
        if o.kind == Kind::Ok && fc.is_none() {
            cx.out.violation(&format!("C15:grammar:line-without-crlf:codec{}", codec), "a line frame was decoded although no CR LF has arrived", replay("incomplete"));
        }
        if o.kind == Kind::Incomplete && fc.is_some() {
            cx.out.violation(&format!("C15:grammar:complete-line-incomplete:codec{}", codec), "a + / - / : frame whose CR LF has arrived is reported incomplete (the connection stalls)", replay("a value or a protocol error"));
        }
    }
    // frames do not overlap: two complete frames, concatenated, decode one by one
    if o.kind == Kind::Ok && o.consumed == input.len() && input.len() <= 64 {
        let ci = (codec - 1) as usize;
        let others: Vec<Vec<u8>> = cx.recent[ci].iter().rev().take(3).cloned().collect();
        for b in others {
            for (x, y) in [(input.to_vec(), b.clone()), (b.clone(), input.to_vec())] {
                let alone_x = decode_here(codec, &x);
                let alone_y = decode_here(codec, &y);
                let mut cat = x.clone();
                cat.extend_from_slice(&y);
                let first = decode_here(codec, &cat);
                let ok1 = first.text == alone_x.text;
                let ok2 = ok1 && first.consumed <= cat.len() && decode_here(codec, &cat[first.consumed..]).text == alone_y.text;
                if !ok1 || !ok2 {
                    cx.out.violation(&format!("C15:frames-overlap:codec{}", codec), "two complete frames, concatenated, do not decode to the first frame with its own length followed by the second",
                        json!({"first": hex(&x), "first_alone": alone_x.text, "second": hex(&y), "second_alone": alone_y.text, "concatenated": hex(&cat), "decoded": first.text}));
                }
            }
        }
        if cx.recent[ci].len() >= 8 {
            cx.recent[ci].remove(0);
        }
        cx.recent[ci].push(input.to_vec());
    }
    // exact occupancy: the first `consumed` bytes alone decode to the same thing
    if o.kind == Kind::Ok && o.consumed < input.len() {
        let p = decode_here(codec, &input[..o.consumed]);
        if p.text != o.text {
            cx.out.violation(&format!("C15:prefix-unstable:ok:codec{}", codec), "decoding exactly the consumed bytes gives a different result", replay(&p.text));
        }
    }
    // decided outcomes are stable under extension
    if matches!(o.kind, Kind::Ok | Kind::Error) {
        for ext in [&b"\r\n"[..], b"$-1\r\n", b"*", b"a"] {
            let mut e = input.to_vec();
            e.extend_from_slice(ext);
            let p = decode_here(codec, &e);
            if p.text != o.text {
                cx.out.violation(&format!("C15:prefix-unstable:{}:codec{}", if o.kind == Kind::Ok { "ok" } else { "error" }, codec), "appending bytes after a decided frame changes the result", json!({"input": hex(input), "ext": hex(ext), "before": o.text, "after": p.text}));
            }
        }
    }
    // "more bytes needed" must be completable: a first CR that is not followed by LF
    if o.kind == Kind::Incomplete {
        if let Some(i) = input.iter().position(|b| *b == b'\r') {
            if i + 1 < input.len() && input[i + 1] != b'\n' && b"+-:$*".contains(&input[0]) {
                let mut stuck = true;
                for ext in [&b"\r\n"[..], b"\n", b"\r\n\r\n", b"aaaaaaaaaaaaaaaaaaaaaaaaaaaaaaaa\r\n", b"\r\n$-1\r\n"] {
                    let mut e = input.to_vec();
                    e.extend_from_slice(ext);
                    if decode_here(codec, &e).kind != Kind::Incomplete {
                        stuck = false;
                    }
                }
                if stuck {
                    cx.out.violation(&format!("C15:stall:lone-cr:codec{}", codec), "the decoder reports 'incomplete' although the line contains a CR not followed by LF: no continuation is ever accepted or rejected (the connection stalls)", replay("protocol error, or a line that ends at the next CRLF"));
                }
            }
        }
    }
    Some(o)
}

fn first_crlf(b: &[u8]) -> Option<usize> {
    b.windows(2).position(|w| w == b"\r\n")
}

fn lossy(v: &V) -> V {
    let f = |b: &Vec<u8>| String::from_utf8_lossy(b).as_bytes().to_vec();
    match v {
        V::S(b) => V::S(f(b)),
        V::E(b) => V::E(f(b)),
        V::A(a) => V::A(a.iter().map(lossy).collect()),
        v => v.clone(),
    }
}

/// both decoders on the same input + the agreement oracle: same value (up to the lossy UTF-8
/// conversion of line texts) and consumed count, both incomplete, or the same error class —
/// except where RespCodec rejects a (negative array) length
fn check_both(cx: &mut Ctx, input: &[u8], src: &str) {
    let a = check_decode(cx, 1, input, src);
    let b = check_decode(cx, 2, input, src);
    let (a, b) = match (a, b) {
        (Some(a), Some(b)) => (a, b),
        _ => return,
    };
    if a.val.is_none() && a.kind == Kind::Ok {
        return; // ran in a child process: only the text is known
    }
    if matches!(a.kind, Kind::Crash | Kind::Abort) || matches!(b.kind, Kind::Crash | Kind::Abort) {
        return; // reported by the crash oracle
    }
    if a.text == "err:bad-len" {
        cx.out.count("agree:excluded:codec1-bad-len");
        return;
    }
    let same = match (&a.kind, &b.kind) {
        (Kind::Ok, Kind::Ok) => a.consumed == b.consumed && a.val.as_ref().map(lossy) == b.val,
        (Kind::Incomplete, Kind::Incomplete) => true,
        (Kind::Error, Kind::Error) => a.text == b.text,
        _ => false,
    };
    if !same {
        let class = format!("{}-vs-{}", a.text.split(' ').next().unwrap_or(""), b.text.split(' ').next().unwrap_or(""));
        cx.out.violation(&format!("C15:decoders-disagree:{}", class.replace("err:", "err-")), "RespCodec and RespParser decode the same bytes differently",
            json!({"bytes": String::from_utf8_lossy(input), "hex": hex(input), "codec1": a.text, "codec2": b.text, "source": src}));
    }
}

fn count_cr_patterns(cx: &mut Ctx, s: &[u8]) {
    let n = s.len();
    for i in 0..n {
        if s[i] == b'\r' && (i + 1 >= n || s[i + 1] != b'\n') {
            cx.out.count(if i + 1 >= n { "crpat:bare-cr-at-end" } else if s[i + 1] == b'\r' { "crpat:cr-cr" } else { "crpat:bare-cr-inside" });
        }
        if s[i] == b'\n' && (i == 0 || s[i - 1] != b'\r') {
            cx.out.count(if i + 1 >= n { "crpat:bare-lf-at-end" } else { "crpat:bare-lf-inside" });
        }
    }
    if find(s, b"\r\r\r\n") {
        cx.out.count("crpat:cr-cr-cr-lf");
    } else if find(s, b"\r\r\n") {
        cx.out.count("crpat:cr-cr-lf");
    }
}

/// every type byte, a line built from up to three pieces out of text / bare CR / bare LF / CR CR LF /
/// CR CR CR LF / CR LF, followed by nothing, another frame, or a CR LF
fn cr_patterns(cx: &mut Ctx) {
    let pieces: [&[u8]; 8] = [b"a", b"1", b"\r", b"\n", b"\r\r\n", b"\r\r\r\n", b"\r\n", b"\r\n\r"];
    let tails: [&[u8]; 3] = [b"", b":1\r\n", b"\r\n"];
    let mut bodies: Vec<Vec<u8>> = vec![vec![]];
    let mut layer: Vec<Vec<u8>> = vec![vec![]];
    for _ in 0..3 {
        let mut next = Vec::new();
        for b in &layer {
            for p in pieces {
                let mut x = b.clone();
                x.extend_from_slice(p);
                next.push(x);
            }
        }
        bodies.extend(next.iter().cloned());
        layer = next;
    }
    for t in [b'+', b'-', b':', b'$', b'*'] {
        for b in &bodies {
            for tail in tails {
                let mut s = vec![t];
                s.extend_from_slice(b);
                s.extend_from_slice(tail);
                count_cr_patterns(cx, &s);
                check_both(cx, &s, "cr-patterns");
            }
        }
    }
}

/// the buffer loop around the real decoder
fn feed_real(codec: u8, chunks: &[&[u8]]) -> (Vec<String>, usize, bool) {
    let mut frames = Vec::new();
    let mut dead = false;
    if codec == 1 {
        let mut buf = BytesMut::new();
        for c in chunks {
            if dead {
                break;
            }
            buf.extend_from_slice(c);
            loop {
                let before = buf.len();
                match catch_unwind(AssertUnwindSafe(|| RespCodec::parse(&mut buf))) {
                    Err(_) => {
                        frames.push(format!("CRASH:{}", classify_panic()));
                        buf.clear();
                        dead = true;
                        break;
                    }
                    Ok(Ok(Some(v))) => {
                        frames.push(format!("V {}", V::from_zc(&v).show()));
                        if buf.len() == before {
                            dead = true;
                            break;
                        }
                    }
                    Ok(Ok(None)) => break,
                    Ok(Err(e)) => {
                        frames.push(format!("ERR:{}", err_class(&e)));
                        buf.clear();
                        dead = true;
                        break;
                    }
                }
            }
        }
        (frames, buf.len(), dead)
    } else {
        let mut buf: Vec<u8> = Vec::new();
        for c in chunks {
            if dead {
                break;
            }
            buf.extend_from_slice(c);
            loop {
                let o = decode_here(2, &buf);
                match o.kind {
                    Kind::Ok => {
                        frames.push(format!("V {}", o.val.as_ref().unwrap().show()));
                        if o.consumed == 0 || o.consumed > buf.len() {
                            dead = true;
                            break;
                        }
                        buf.drain(..o.consumed);
                    }
                    Kind::Incomplete => break,
                    Kind::Error => {
                        frames.push(format!("ERR:{}", o.text));
                        buf.clear();
                        dead = true;
                        break;
                    }
                    _ => {
                        frames.push(format!("CRASH:{}", o.text));
                        buf.clear();
                        dead = true;
                        break;
                    }
                }
            }
        }
        (frames, buf.len(), dead)
    }
}

fn feed_line(f: &(Vec<String>, usize, bool)) -> String {
    format!("n={} [{}] rest={} dead={}", f.0.len(), f.0.join(" ; "), f.1, f.2 as u8)
}

fn split_at_cuts<'a>(stream: &'a [u8], cuts: &[usize]) -> Vec<&'a [u8]> {
    let mut v = Vec::new();
    let mut base = 0;
    for c in cuts {
        v.push(&stream[base..*c]);
        base = *c;
    }
    v.push(&stream[base..]);
    v
}

fn check_frag(cx: &mut Ctx, codec: u8, stream: &[u8], cuts: &[usize], src: &str) {
    if codec == 1 && has_digit_run(stream, 8) {
        return;
    }
    let whole = feed_real(codec, &[stream]);
    let parts = split_at_cuts(stream, cuts);
    let got = feed_real(codec, &parts);
    let cs = if cuts.is_empty() { "-".to_string() } else { cuts.iter().map(|c| c.to_string()).collect::<Vec<_>>().join(",") };
    cx.out.op(format!("F{} {} {}", codec, hex(stream), cs), feed_line(&got));
    cx.out.count(&format!("frag:{}:cuts={}", src, cuts.len().min(5)));
    cx.out.case(&format!("F{}|{}|{}", codec, hex(stream), cs), !cuts.is_empty() && got.0.len() >= 1);
    if got != whole {
        cx.out.violation(&format!("C15:fragmentation:codec{}", codec), "feeding the stream in fragments yields different frames than feeding it whole",
            json!({"stream": hex(stream), "cuts": cuts, "whole": feed_line(&whole), "fragmented": feed_line(&got), "source": src}));
    }
}

fn valid_utf8_lines(v: &V) -> bool {
    !v.lines_have(&|b| std::str::from_utf8(b).is_err())
}

/// encoder 3 = the connection handler's private `encode_resp_into`, encoder 4 = the simulated
/// connection's `encode_resp`, both through hook H1c (present only after the hook commit)
#[cfg(verif_h1c)]
fn hook_encoders(rv: &RespValue) -> Vec<(u8, Vec<u8>)> {
    vec![
        (3, redis_sim::production::verif_hooks::encode_reply(rv)),
        (4, redis_sim::simulator::SimulatedConnection::verif_encode_resp(rv)),
    ]
}
#[cfg(not(verif_h1c))]
fn hook_encoders(_rv: &RespValue) -> Vec<(u8, Vec<u8>)> {
    Vec::new()
}

/// encoder 5 = `encode_resp_into` / `encode_error_into` of src/bin/server_persistent.rs, compiled from
/// their source text (harness/build.rs)
#[cfg(verif_persist_enc)]
mod persist_enc {
    #![allow(dead_code)]
    use bytes::{BufMut, BytesMut};
    use redis_sim::redis::{RespCodec, RespValue};
    include!(concat!(env!("OUT_DIR"), "/persist_enc.rs"));
    pub fn enc(v: &RespValue) -> Vec<u8> {
        let mut b = BytesMut::new();
        encode_resp_into(v, &mut b);
        b.to_vec()
    }
    pub fn err(m: &str) -> Vec<u8> {
        let mut b = BytesMut::new();
        encode_error_into(m, &mut b);
        b.to_vec()
    }
}
/// encoder 7 = `encode_command` of the CLI client in src/main.rs (a bin target), compiled from its source text
#[cfg(verif_main_enc)]
mod main_enc {
    #![allow(dead_code)]
    include!(concat!(env!("OUT_DIR"), "/main_enc.rs"));
    pub fn enc(parts: &[&str]) -> Vec<u8> {
        encode_command(parts)
    }
}
/// the shadow proxy's command-name extractor `parse_resp_command` (src/bin/shadow_proxy.rs), compiled from its source text
#[cfg(verif_proxy_dec)]
mod proxy_dec {
    #![allow(dead_code)]
    include!(concat!(env!("OUT_DIR"), "/proxy_dec.rs"));
    pub fn name(data: &[u8]) -> Option<String> {
        parse_resp_command(data)
    }
}
#[cfg(verif_persist_enc)]
fn persist_encoders(rv: &RespValue) -> Vec<(u8, Vec<u8>)> {
    vec![(5, persist_enc::enc(rv))]
}
#[cfg(not(verif_persist_enc))]
fn persist_encoders(_rv: &RespValue) -> Vec<(u8, Vec<u8>)> {
    Vec::new()
}

fn kind_name(v: &V) -> &'static str {
    match v {
        V::S(_) => "simple",
        V::E(_) => "error",
        V::I(_) => "int",
        V::N => "null-bulk",
        V::B(b) if b.is_empty() => "empty-bulk",
        V::B(_) => "bulk",
        V::Z => "null-array",
        V::A(a) if a.is_empty() => "empty-array",
        V::A(_) => "array",
    }
}

/// does this value, encoded by encoder `k`, decode back to itself (as written on the wire)?
fn roundtrips(k: u8, v: &V) -> bool {
    let bytes = match (k, v.to_rv()) {
        (1, _) => RespCodec::encode(&v.to_zc()).to_vec(),
        (2, Some(rv)) => RespParser::encode(&rv),
        (_, Some(rv)) => match hook_encoders(&rv).into_iter().chain(persist_encoders(&rv)).find(|e| e.0 == k) {
            Some(e) => e.1,
            None => return true,
        },
        _ => return true,
    };
    let o = decode_here(2, &bytes);
    o.kind == Kind::Ok && o.consumed == bytes.len() && o.val.as_ref().map(|x| x == &lossy_v(&v.sanitized())).unwrap_or(false)
}

fn lossy_v(v: &V) -> V {
    lossy(v)
}

/// the smallest sub-value that does not round-trip on its own: names the shape of the defect
fn failing_shape(k: u8, v: &V) -> String {
    if let V::A(a) = v {
        for x in a {
            if !roundtrips(k, x) {
                return format!("in-array:{}", failing_shape(k, x));
            }
        }
    }
    kind_name(v).to_string()
}

fn check_roundtrip(cx: &mut Ctx, v: &V, src: &str) {
    let mut encs: Vec<(u8, Vec<u8>)> = vec![(1, RespCodec::encode(&v.to_zc()).to_vec())];
    if let Some(rv) = v.to_rv() {
        encs.push((2, RespParser::encode(&rv)));
        encs.extend(hook_encoders(&rv));
        encs.extend(persist_encoders(&rv));
    }
    cx.out.count(&format!("roundtrip:{}:depth={}", src, v.depth().min(4)));
    for (k, bytes) in encs {
        cx.out.op(format!("E{} {}", k, v.show()), hex(&bytes));
        cx.out.case(&format!("E{}|{}", k, v.show()), true);
        cx.out.count(&format!("encoder:{}", k));
        for codec in [1u8, 2u8] {
            if codec == 2 && !valid_utf8_lines(v) {
                cx.out.count("excluded:roundtrip:non-utf8-line-under-codec2");
                continue;
            }
            let o = match check_decode(cx, codec, &bytes, "encoded") {
                Some(o) => o,
                None => continue,
            };
            // the encoders write CR / LF inside a reply line as a space: the value on the wire
            let wire = v.sanitized();
            if &wire != v {
                cx.out.count("roundtrip:line-sanitised");
            }
            let good = o.text == format!("ok {} {}", wire.show(), bytes.len());
            if !good {
                let sig = if k == 3 {
                    format!("C15:roundtrip:conn-encoder:{}", failing_shape(k, v))
                } else if k == 4 {
                    format!("C15:roundtrip:sim-encoder:{}", failing_shape(k, v))
                } else if k == 5 {
                    format!("C15:roundtrip:persistent-server-encoder:{}", failing_shape(k, v))
                } else {
                    let class = if v.lines_have(&|b| find(b, b"\r\n")) {
                        "crlf-in-line"
                    } else if v.lines_have(&|b| b.contains(&b'\r')) {
                        "cr-in-line"
                    } else {
                        "other"
                    };
                    format!("C15:roundtrip:{}:enc{}", class, k)
                };
                cx.out.violation(&sig, &format!("decode{}(encode{} v) != v", codec, k),
                    json!({"value": v.show(), "encoder": k, "decoder": codec, "encoded": hex(&bytes), "decoded": o.line(), "source": src}));
            }
        }
    }
}

/// `encode_error_into` (protocol errors, command-parse errors) through hook H1c
#[cfg(verif_h1c)]
fn error_encoder(cx: &mut Ctx) {
    let msgs: [&str; 12] = ["protocol error", "buffer overflow", "ERR wrong number of arguments for 'get' command", "WRONGTYPE Operation against a key",
        "EXECABORT Transaction discarded", "NOAUTH Authentication required", "NOPERM no", "WRONGPASS invalid", "", "ERR", "unknown command 'a\r\n+b'", "line\nfeed\rcr é"];
    for m in msgs {
        let bytes = redis_sim::production::verif_hooks::encode_error_reply(m);
        cx.out.op(format!("EE {}", hex(m.as_bytes())), hex(&bytes));
        cx.out.case(&format!("EE|{}", m), true);
        for codec in [1u8, 2u8] {
            if let Some(o) = check_decode(cx, codec, &bytes, "encoded-error") {
                let one_error_frame = o.kind == Kind::Ok && o.consumed == bytes.len() && matches!(o.val, Some(V::E(_)));
                if !one_error_frame {
                    cx.out.violation("C15:roundtrip:conn-encoder:error-reply", "encode_error_into does not write exactly one error frame", json!({"message": m, "encoded": hex(&bytes), "decoded": o.line()}));
                }
            }
        }
    }
}
#[cfg(not(verif_h1c))]
fn error_encoder(cx: &mut Ctx) {
    cx.out.count("hook-h1c-absent");
    cx.out.violation("C15:coverage:hook-h1c-absent", "the harness was built without hook H1c (verif_hooks::encode_reply / encode_error_reply, SimulatedConnection::verif_encode_resp): the connection handler's private encoder, its error encoder and the simulated connection's encoder are not driven on arbitrary values",
        json!({"looked_for": "pub fn encode_reply in <redis-sim>/src/production/mod.rs (harness/build.rs)"}));
}

/// `encode_error_into` of server_persistent.rs (always `-ERR ` in front)
#[cfg(verif_persist_enc)]
fn error_encoder5(cx: &mut Ctx) {
    for m in ["protocol error: Unknown RESP type: ?", "wrong number of arguments for 'get' command", "ERR already prefixed", "", "a\r\n+b", "line\nfeed\rcr é"] {
        let bytes = persist_enc::err(m);
        cx.out.op(format!("EE5 {}", hex(m.as_bytes())), hex(&bytes));
        cx.out.case(&format!("EE5|{}", m), true);
        for codec in [1u8, 2u8] {
            if let Some(o) = check_decode(cx, codec, &bytes, "encoded-error5") {
                if !(o.kind == Kind::Ok && o.consumed == bytes.len() && matches!(o.val, Some(V::E(_)))) {
                    cx.out.violation("C15:roundtrip:persistent-server-encoder:error-reply", "encode_error_into of server_persistent.rs does not write exactly one error frame", json!({"message": m, "encoded": hex(&bytes), "decoded": o.line()}));
                }
            }
        }
    }
}
#[cfg(not(verif_persist_enc))]
fn error_encoder5(cx: &mut Ctx) {
    cx.out.violation("C15:coverage:persistent-server-encoder-not-extracted", "harness/build.rs did not find `fn encode_resp_into` … `fn encode_error_into` in src/bin/server_persistent.rs: the binary's copy of the reply encoder is not driven", json!({"file": "src/bin/server_persistent.rs"}));
}

/// encoder 6, the CLIENT side: `SimulatedReadBuffer::encode_command` (private) through the public
/// queue_command / flush_to_buffer / read.  Every Command it knows must come out as the frame of its
/// arguments (model: CE) and decode back to the same command; the rest is documented to be sent as PING.
fn command_encoder(cx: &mut Ctx) {
    use redis_sim::redis::{Command, SDS};
    use redis_sim::simulator::connection::SimulatedReadBuffer;
    let vals: [&[u8]; 5] = [b"v", b"", b"with\r\ncrlf", b"\x00\xff$*", b"0123456789012345678901234567890123456789"];
    let keys: [&str; 5] = ["k", "", "key with space", "k\r\n", "ké✓"];
    let mut cases: Vec<(Command, Vec<Vec<u8>>)> = vec![(Command::Ping(None), vec![b"PING".to_vec()])];
    for v in vals {
        cases.push((Command::Ping(Some(SDS::new(v.to_vec()))), vec![b"PING".to_vec(), v.to_vec()]));
        for k in keys {
            cases.push((Command::set(k.to_string(), SDS::new(v.to_vec())), vec![b"SET".to_vec(), k.as_bytes().to_vec(), v.to_vec()]));
        }
    }
    for k in keys {
        cases.push((Command::Get(k.to_string()), vec![b"GET".to_vec(), k.as_bytes().to_vec()]));
        cases.push((Command::Incr(k.to_string()), vec![b"INCR".to_vec(), k.as_bytes().to_vec()]));
        cases.push((Command::Del(vec![k.to_string(), "other".to_string()]), vec![b"DEL".to_vec(), k.as_bytes().to_vec(), b"other".to_vec()]));
    }
    cases.push((Command::Del(vec![]), vec![b"DEL".to_vec()]));
    for (cmd, args) in cases {
        let mut rb = SimulatedReadBuffer::new(1);
        rb.queue_command(cmd.clone());
        rb.flush_to_buffer();
        let bytes = rb.read().map(|b| b.to_vec()).unwrap_or_default();
        let op = format!("CE {}", args.iter().map(|a| hex(a)).collect::<Vec<_>>().join(" "));
        cx.out.op(op.clone(), hex(&bytes));
        cx.out.case(&op, true);
        cx.out.count("encoder:6");
        // the frame decodes (RespCodec, as the simulated connection does) to exactly its arguments
        let o = decode_here(1, &bytes);
        let want = V::A(args.iter().map(|a| V::B(a.clone())).collect());
        if !(o.kind == Kind::Ok && o.consumed == bytes.len() && o.val.as_ref() == Some(&want)) {
            cx.out.violation("C15:roundtrip:command-encoder", "a command written by SimulatedReadBuffer::encode_command does not decode to the array of its arguments", json!({"command": format!("{:?}", cmd), "encoded": hex(&bytes), "decoded": o.line(), "expected": want.show()}));
        }
    }
    // documented substitution: anything else is sent as PING
    let mut rb = SimulatedReadBuffer::new(1);
    rb.queue_command(Command::Exists(vec!["k".into()]));
    rb.flush_to_buffer();
    let bytes = rb.read().map(|b| b.to_vec()).unwrap_or_default();
    cx.out.count(if bytes == b"*1\r\n$4\r\nPING\r\n" { "encoder6:other-commands-sent-as-PING(documented)" } else { "encoder6:other-commands-encoded" });
}

/// encoder 7: the CLI client's `encode_command(parts: &[&str])` — the same frame as encoder 6 (model CE)
#[cfg(verif_main_enc)]
fn cli_encoder(cx: &mut Ctx) {
    let lines: [&[&str]; 9] = [&[], &["PING"], &["GET", "k"], &["SET", "k", "v"], &["set", "ké✓", "0123456789012345678901234567890123456789"], &["ECHO", ""],
        &["DEL", "a", "b", "c", "d", "e", "f", "g", "h", "i", "j", "k"], &["X\r\nY", "\r\n"], &["EVAL", "return redis.call('GET', KEYS[1])", "1", "k"]];
    for parts in lines {
        let bytes = main_enc::enc(parts);
        let op = format!("CE {}", parts.iter().map(|a| hex(a.as_bytes())).collect::<Vec<_>>().join(" "));
        let op = op.trim_end().to_string();
        cx.out.op(op.clone(), hex(&bytes));
        cx.out.case(&format!("CE7|{}", op), true);
        cx.out.count("encoder:7");
        let o = decode_here(1, &bytes);
        let want = V::A(parts.iter().map(|a| V::B(a.as_bytes().to_vec())).collect());
        if !(o.kind == Kind::Ok && o.consumed == bytes.len() && o.val.as_ref() == Some(&want)) {
            cx.out.violation("C15:roundtrip:cli-command-encoder", "a command line written by the CLI client's encode_command does not decode to the array of its words", json!({"words": parts, "encoded": hex(&bytes), "decoded": o.line(), "expected": want.show()}));
        }
    }
}
#[cfg(not(verif_main_enc))]
fn cli_encoder(cx: &mut Ctx) {
    cx.out.violation("C15:coverage:cli-encoder-not-extracted", "harness/build.rs did not find the free function `encode_command` in src/main.rs: the CLI client's copy of the command encoder is not driven", json!({"file": "src/main.rs"}));
}

/// the shadow proxy's command-name extractor on client frames, their truncations, near-frames and short
/// strings over the grammar alphabet: never a panic; the name the model predicts (Resp.proxyName)
#[cfg(verif_proxy_dec)]
fn proxy_names(cx: &mut Ctx) {
    fn frame(args: &[&[u8]]) -> Vec<u8> {
        let mut v = format!("*{}\r\n", args.len()).into_bytes();
        for a in args {
            v.extend(format!("${}\r\n", a.len()).into_bytes());
            v.extend_from_slice(a);
            v.extend_from_slice(b"\r\n");
        }
        v
    }
    let mut inputs: Vec<Vec<u8>> = Vec::new();
    let cmds: [&[&[u8]]; 12] = [&[b"PING"], &[b"get", b"k"], &[b"SET", b"k", b"v"], &[b"set", b"k", b"\xff\x00"], &[b"\r\n"], &[b"a\rb", b"x"], &[b"G\r\nT", b"x"], &[b""], &[],
        &["\u{e9}cho".as_bytes(), b"x"], &[b"stra\xc3\x9fe"], &[b"MiXeD-123_z{|}~", b"\r\n"]];
    for c in cmds {
        let f = frame(c);
        for cutoff in 0..=f.len() {
            inputs.push(f[..cutoff].to_vec());
        }
        let mut two = f.clone();
        two.extend_from_slice(&frame(&[b"PING"]));
        inputs.push(two);
    }
    for s in [&b"*1\r\n$2\r\n\r\n\r\n"[..], b"*2\r\nX3\r\nGET\r\n", b"*2\r\n$3\r\n", b"*2\r\n$3", b"*\r\n$\r\n\r\n", b"*\r\n\r\n\r\n", b"\r\n$\r\nA\r\n", b"*1\n$4\nPING\n", b"*1\r$4\rPING\r",
        b"*1\r\r\n$4\r\r\nPING", b"*-1\r\n", b"*1\r\n+PING\r\n", b"*1\r\n:1\r\n", b"$4\r\nPING\r\n", b"+OK\r\n", b"*1\r\n$4\r\nping\r\n\xff", b"*1\r\n$1\r\n\xc3\r\n"] {
        inputs.push(s.to_vec());
    }
    // every string of length <= 5 over a small alphabet, after `*`
    let alpha: &[u8] = b"*$1\r\na";
    for len in 0..=5usize {
        let total = (alpha.len() as u64).pow(len as u32);
        for mut idx in 0..total {
            let mut s = vec![b'*'];
            for _ in 0..len {
                s.push(alpha[(idx % alpha.len() as u64) as usize]);
                idx /= alpha.len() as u64;
            }
            inputs.push(s);
        }
    }
    for data in inputs {
        let r = std::panic::catch_unwind(|| proxy_dec::name(&data));
        let line = match &r {
            Err(_) => "crash".to_string(),
            Ok(None) => "none".to_string(),
            // (Unicode upper-casing is not modelled: the name is compared for all-ASCII buffers only)
            Ok(Some(n)) => if data.is_ascii() { format!("name={}", hex(n.as_bytes())) } else { "name=~".to_string() },
        };
        let op = format!("PN {}", hex(&data));
        cx.out.op(op.clone(), line);
        cx.out.case(&op, data.len() > 1);
        cx.out.count("proxy-name");
        if r.is_err() {
            cx.out.violation("C15:crash:proxy-name-extractor", "parse_resp_command of the shadow proxy panicked on client bytes", json!({"input": hex(&data)}));
        }
    }
}
#[cfg(not(verif_proxy_dec))]
fn proxy_names(cx: &mut Ctx) {
    cx.out.violation("C15:coverage:proxy-name-extractor-not-extracted", "harness/build.rs did not find the free function `parse_resp_command` in src/bin/shadow_proxy.rs: the proxy's reader of client frames is not driven", json!({"file": "src/bin/shadow_proxy.rs"}));
}

/// every value of the FIRST byte (RESP3 type bytes, inline commands, control bytes) before several
/// tails; nesting exactly around MAX_NESTING_DEPTH; bulk payloads around the sizes that matter
fn sweeps(cx: &mut Ctx) {
    let tails: [&[u8]; 6] = [b"", b"\r\n", b"1\r\n", b"-1\r\n", b"2\r\nab\r\n", b"PING\r\n"];
    for t in 0..=255u8 {
        for tail in tails {
            let mut s = vec![t];
            s.extend_from_slice(tail);
            check_both(cx, &s, "first-byte-sweep");
        }
    }
    // the same inside an array (the element decoder)
    for t in 0..=255u8 {
        let mut s = b"*1\r\n".to_vec();
        s.push(t);
        s.extend_from_slice(b"1\r\n");
        check_both(cx, &s, "first-byte-sweep:element");
    }
    let maxn = std::env::var("VERIF_C15_MAX_NESTING").ok().and_then(|v| v.parse::<usize>().ok()).unwrap_or(32);
    for d in [maxn.saturating_sub(2), maxn - 1, maxn, maxn + 1, maxn + 2, 2 * maxn] {
        let full = nested(d);
        check_both(cx, &full, "nesting-at-limit");
        for cutoff in [1usize, 3, 4, 5] {
            if full.len() > cutoff {
                check_both(cx, &full[..full.len() - cutoff], "nesting-at-limit:truncated");
            }
        }
        // null arrays and empty arrays at the limit: the depth test comes before the length is read
        let mut z = Vec::new();
        for _ in 0..d {
            z.extend_from_slice(b"*1\r\n");
        }
        let mut z1 = z.clone();
        z1.extend_from_slice(b"*-1\r\n");
        check_both(cx, &z1, "nesting-at-limit:null-array");
        let mut z2 = z.clone();
        z2.extend_from_slice(b"*0\r\n");
        check_both(cx, &z2, "nesting-at-limit:empty-array");
    }
    // bulk payload sizes: around the encoder's initial 256-byte buffer, u16, the harness' 1 MiB threshold
    for n in [255usize, 256, 257, 65535, 65536, (1 << 20) - 1, 1 << 20] {
        let v = V::B(vec![b'x'; n]);
        if n <= 65536 {
            check_roundtrip(cx, &v, "bulk-sizes");
            check_roundtrip(cx, &V::A(vec![V::I(1), v.clone(), V::N]), "bulk-sizes");
        } else {
            let bytes = encode_any(&v);
            check_both(cx, &bytes, "bulk-sizes");
            check_both(cx, &bytes[..bytes.len() - 1], "bulk-sizes:truncated");
        }
    }
    // wide arrays (element vector growth; the pre-allocation clamp at 3 bytes per element)
    for n in [85usize, 86, 1000, 16_000] {
        let mut s = format!("*{}\r\n", n).into_bytes();
        for _ in 0..n {
            s.extend_from_slice(b"+\r\n");
        }
        check_both(cx, &s, "wide-array");
        check_both(cx, &s[..s.len() - 3], "wide-array:one-element-short");
        check_both(cx, &s[..s.len() - 1], "wide-array:one-byte-short");
    }
    // RespCodec only: a pre-allocation above the 1 MiB observation threshold, clamped by the input
    // (RespParser's element vector grows by doubling: its amortised requests are not modelled)
    {
        let n = 30_000usize;
        let mut s = format!("*{}\r\n", n).into_bytes();
        for _ in 0..n {
            s.extend_from_slice(b"+\r\n");
        }
        check_decode(cx, 1, &s, "wide-array:prealloc-above-1MiB");
        check_decode(cx, 1, &s[..s.len() - 3], "wide-array:prealloc-above-1MiB");
    }
}

/// every RESP encoder / decoder of the tree, by scanning the SOURCE the binary was built against:
/// a function that looks like a RESP codec and is not accounted for here is a coverage violation
fn codec_enumeration(cx: &mut Ctx) {
    fn repo_dir() -> String {
        const MANIFEST: &str = include_str!("../Cargo.toml");
        for line in MANIFEST.lines() {
            if line.trim_start().starts_with("redis-sim") {
                if let Some(i) = line.find("path = \"") {
                    let rest = &line[i + 8..];
                    if let Some(j) = rest.find('"') {
                        return rest[..j].to_string();
                    }
                }
            }
        }
        "/repo".to_string()
    }
    fn account(file: &str, f: &str) -> Option<&'static str> {
        Some(match (file, f) {
            ("src/redis/resp_optimized.rs", "parse") | ("src/redis/resp_optimized.rs", "try_parse") | ("src/redis/resp_optimized.rs", "try_parse_nested") | ("src/redis/resp_optimized.rs", "parse_simple_string")
            | ("src/redis/resp_optimized.rs", "parse_error") | ("src/redis/resp_optimized.rs", "parse_integer") | ("src/redis/resp_optimized.rs", "parse_bulk_string") | ("src/redis/resp_optimized.rs", "parse_array")
            | ("src/redis/resp_optimized.rs", "find_crlf") => "decoder 1 (codec1): D1 / F1 ops",
            ("src/redis/resp_optimized.rs", "encode") | ("src/redis/resp_optimized.rs", "encode_into") | ("src/redis/resp_optimized.rs", "put_line") => "encoder 1: E1 ops (put_line: the line sanitiser shared by encoders 1, 3, 4, 5)",
            ("src/redis/resp.rs", "parse") | ("src/redis/resp.rs", "parse_nested") | ("src/redis/resp.rs", "parse_simple_string") | ("src/redis/resp.rs", "parse_error") | ("src/redis/resp.rs", "parse_integer")
            | ("src/redis/resp.rs", "parse_bulk_string") | ("src/redis/resp.rs", "parse_array") | ("src/redis/resp.rs", "find_crlf") => "decoder 2 (codec2): D2 / F2 ops",
            ("src/redis/resp.rs", "encode") | ("src/redis/resp.rs", "encode_line") => "encoder 2: E2 ops",
            ("src/production/connection_optimized.rs", "encode_resp_into") | ("src/production/connection_optimized.rs", "encode_error_into") => "encoder 3 + error encoder: E3 / EE ops (hook H1c) and byte-exact end to end (C04 W ops)",
            ("src/simulator/connection.rs", "encode_resp") => "encoder 4: E4 ops (hook H1c)",
            ("src/simulator/connection.rs", "encode_command") => "encoder 6 (client side): CE ops through the public SimulatedReadBuffer API",
            ("src/bin/server_persistent.rs", "encode_resp_into") | ("src/bin/server_persistent.rs", "encode_error_into") => "encoder 5 + its error encoder: E5 / EE5 ops on the source text compiled into the harness (build.rs)",
            ("src/main.rs", "encode_command") => "encoder 7 (CLI client of the bin target main.rs): CE ops on its source text compiled into the harness (build.rs); theorem command_frame_decodes",
            ("src/bin/shadow_proxy.rs", "parse_resp_command") => "the shadow proxy's command-name extractor: PN ops on its source text compiled into the harness (build.rs); model Resp.proxyName, theorems proxy_name_agrees_partial / proxy_name_counterexample",
            ("src/redis/server.rs", "encode_with_request_id") | ("src/redis/server.rs", "decode_request_id") => "not RESP: 8-byte request-id envelope of the simulated server around RespParser::parse / encode (decoder 2 / encoder 2)",
            _ => return None,
        })
    }
    let root = repo_dir();
    let mut table = serde_json::Map::new();
    let mut files: Vec<String> = Vec::new();
    fn walk(dir: &std::path::Path, out: &mut Vec<String>) {
        if let Ok(rd) = std::fs::read_dir(dir) {
            for e in rd.flatten() {
                let p = e.path();
                if p.is_dir() {
                    walk(&p, out);
                } else if p.extension().map(|x| x == "rs").unwrap_or(false) {
                    out.push(p.to_string_lossy().to_string());
                }
            }
        }
    }
    walk(std::path::Path::new(&format!("{}/src", root)), &mut files);
    files.sort();
    if files.len() < 50 {
        cx.out.violation("C15:coverage:source-scan-failed", "the scan of the source tree found fewer than 50 files", json!({"root": root, "files": files.len()}));
    }
    let mut found = 0;
    for f in &files {
        let rel = f.strip_prefix(&format!("{}/", root)).unwrap_or(f).to_string();
        if rel.contains("/tests/") || rel.ends_with("_test.rs") || rel.ends_with("_tests.rs") {
            continue;
        }
        let src = std::fs::read_to_string(f).unwrap_or_default();
        // a RESP codec writes / searches CR LF framing of typed values: the null markers, or a CRLF search
        let looks_resp = src.contains("$-1\\r\\n") || src.contains("*-1\\r\\n") || src.contains("fn find_crlf") || src.contains("fn parse_resp") || src.contains("*1\\r\\n$4\\r\\nPING");
        if !looks_resp {
            continue;
        }
        let names_of = |src: &str| -> Vec<String> {
            src.lines()
                .filter_map(|l| {
                    let t = l.trim_start();
                    ["pub async fn ", "async fn ", "pub fn ", "fn ", "pub(crate) fn "].iter().find_map(|p| t.strip_prefix(p)).map(|r| r.chars().take_while(|c| c.is_alphanumeric() || *c == '_').collect::<String>())
                })
                .collect()
        };
        let file_has_accounted = names_of(&src).iter().any(|n| account(&rel, n).is_some());
        for line in src.lines() {
            let t = line.trim_start();
            for pre in ["pub async fn ", "async fn ", "pub fn ", "fn ", "pub(crate) fn "] {
                if let Some(r) = t.strip_prefix(pre) {
                    let name: String = r.chars().take_while(|c| c.is_alphanumeric() || *c == '_').collect();
                    let codec_like = name.starts_with("encode") || name.starts_with("decode") || name.starts_with("parse") || name == "find_crlf" || name == "put_line" || name == "try_parse" || name == "try_parse_nested";
                    if codec_like {
                        found += 1;
                        match account(&rel, &name) {
                            Some(a) => {
                                table.insert(format!("{}::{}", rel, name), json!(a));
                            }
                            None => {
                                // helpers that are no RESP codecs, in files that contain one: listed one by one
                                let benign = matches!((rel.as_str(), name.as_str()), ("src/bin/server_persistent.rs", "parse_replica_id_from_env") | ("src/production/connection_optimized.rs", "parse_usize_fast"));
                                // a PRIVATE function of a LIBRARY file whose codec functions are accounted for can be
                                // reached only through those (they are what the generators drive and the models
                                // transcribe): a new or renamed private helper is no new entry point.  (In a bin target
                                // every function is private: there a new codec-like function stays a violation.)
                                let is_bin = rel.starts_with("src/bin/") || rel == "src/main.rs";
                                let private_helper = pre == "fn " && !is_bin && file_has_accounted;
                                if benign {
                                    table.insert(format!("{}::{}", rel, name), json!("not a RESP codec (environment / length-field helper; parse_usize_fast is part of the C04 recognisers)"));
                                } else if private_helper {
                                    table.insert(format!("{}::{}", rel, name), json!("private helper of a library file whose codec functions are accounted for: reachable only through them"));
                                } else if !is_bin && call_sites(&root, &name) == 0 {
                                    // a new PUBLIC codec-like function that nothing in the tree calls cannot produce or
                                    // consume a byte of the server's traffic: listed; the first call site makes it a violation
                                    table.insert(format!("{}::{}", rel, name), json!("public, but called nowhere in src/ (unreachable for now): not driven; a call site makes it a violation"));
                                } else {
                                    table.insert(format!("{}::{}", rel, name), json!("UNACCOUNTED"));
                                    cx.out.violation(&format!("C15:coverage:resp-codec-not-accounted:{}::{}", rel, name), "a function of the source tree looks like a RESP encoder / decoder and is neither in the model's table nor listed with the reason why not (harness/src/c15.rs codec_enumeration)", json!({"file": rel, "fn": name}));
                                }
                            }
                        }
                    }
                    break;
                }
            }
        }
    }
    if found < 20 {
        cx.out.violation("C15:coverage:source-scan-failed", "the scan of the source tree found fewer than 20 codec functions", json!({"root": root, "found": found}));
    }
    cx.out.extra.insert("resp_codecs(derived from the source tree at run time)".into(), serde_json::Value::Object(table));
}

// ---------------------------------------------------------------- source text helpers (shared with C04)

/// index just behind the `}` that closes the block opening at `open` (`src[open] == '{'`); string,
/// raw-string, byte-string and char literals and comments are skipped
pub fn match_brace(src: &[u8], open: usize) -> Option<usize> {
    let mut depth = 0usize;
    let mut i = open;
    while i < src.len() {
        let c = src[i];
        match c {
            b'/' if src.get(i + 1) == Some(&b'/') => {
                while i < src.len() && src[i] != b'\n' {
                    i += 1;
                }
                continue;
            }
            b'/' if src.get(i + 1) == Some(&b'*') => {
                let mut d = 1;
                i += 2;
                while i + 1 < src.len() && d > 0 {
                    if src[i] == b'/' && src[i + 1] == b'*' {
                        d += 1;
                        i += 2;
                    } else if src[i] == b'*' && src[i + 1] == b'/' {
                        d -= 1;
                        i += 2;
                    } else {
                        i += 1;
                    }
                }
                continue;
            }
            b'r' if matches!(src.get(i + 1), Some(&b'"') | Some(&b'#'))
                && (i == 0 || !(src[i - 1].is_ascii_alphanumeric() || src[i - 1] == b'_') || src[i - 1] == b'b') =>
            {
                // raw string r"…" / r#"…"# (also br"…")
                let mut j = i + 1;
                let mut hashes = 0;
                while src.get(j) == Some(&b'#') {
                    hashes += 1;
                    j += 1;
                }
                if src.get(j) == Some(&b'"') {
                    j += 1;
                    'raw: while j < src.len() {
                        if src[j] == b'"' {
                            let mut k = 0;
                            while k < hashes && src.get(j + 1 + k) == Some(&b'#') {
                                k += 1;
                            }
                            if k == hashes {
                                j += 1 + hashes;
                                break 'raw;
                            }
                        }
                        j += 1;
                    }
                    i = j;
                    continue;
                }
            }
            b'"' => {
                i += 1;
                while i < src.len() && src[i] != b'"' {
                    if src[i] == b'\\' {
                        i += 1;
                    }
                    i += 1;
                }
            }
            b'\'' => {
                // a char literal ('x', '\n', '\'', '\u{1f600}', a multi-byte char) or a lifetime ('a)
                if src.get(i + 1) == Some(&b'\\') {
                    i += 3;
                    while i < src.len() && src[i] != b'\'' {
                        i += 1;
                    }
                } else {
                    let close = (2..=5).find(|k| src.get(i + k) == Some(&b'\''));
                    let ident = src.get(i + 1).map(|c| c.is_ascii_alphabetic() || *c == b'_').unwrap_or(false);
                    match close {
                        Some(k) if !(ident && k > 2) => i += k,
                        _ => {}
                    }
                }
            }
            b'{' => depth += 1,
            b'}' => {
                depth -= 1;
                if depth == 0 {
                    return Some(i + 1);
                }
            }
            _ => {}
        }
        i += 1;
    }
    None
}

/// number of call sites of `name` (`name(` not preceded by `fn `) in the non-test sources under `<root>/src`
pub fn call_sites(root: &str, name: &str) -> usize {
    fn walk(dir: &std::path::Path, out: &mut Vec<std::path::PathBuf>) {
        if let Ok(rd) = std::fs::read_dir(dir) {
            for e in rd.flatten() {
                let p = e.path();
                if p.is_dir() {
                    walk(&p, out);
                } else if p.extension().map(|x| x == "rs").unwrap_or(false) {
                    out.push(p);
                }
            }
        }
    }
    let mut files = Vec::new();
    walk(std::path::Path::new(&format!("{}/src", root)), &mut files);
    let pat = format!("{}(", name);
    let mut n = 0;
    for f in files {
        let src = std::fs::read_to_string(&f).unwrap_or_default();
        // (a `#[cfg(test)] mod tests` at the end of a file is not production code)
        let src = match src.find("#[cfg(test)]") {
            Some(i) => &src[..i],
            None => &src[..],
        };
        let b = src.as_bytes();
        let mut from = 0;
        while let Some(off) = src[from..].find(&pat) {
            let at = from + off;
            from = at + pat.len();
            let ident_before = at > 0 && (b[at - 1].is_ascii_alphanumeric() || b[at - 1] == b'_');
            let is_def = src[..at].ends_with("fn ");
            let line_start = src[..at].rfind('\n').map(|x| x + 1).unwrap_or(0);
            let in_comment = src[line_start..at].trim_start().starts_with("//");
            if !ident_before && !is_def && !in_comment {
                n += 1;
            }
        }
    }
    n
}

/// the text of the function (free or method, any visibility) `name` of `src`, from the `fn` keyword to
/// its closing brace — found by NAME with brace matching, wherever it stands in the file
pub fn fn_text<'a>(src: &'a str, name: &str) -> Option<&'a str> {
    let b = src.as_bytes();
    let pat = format!("fn {}", name);
    let mut from = 0;
    while let Some(off) = src[from..].find(&pat) {
        let at = from + off;
        from = at + pat.len();
        let before_ok = at == 0 || !(b[at - 1].is_ascii_alphanumeric() || b[at - 1] == b'_');
        let after_ok = matches!(b.get(at + pat.len()).copied(), Some(b'(') | Some(b'<'));
        // not inside a comment line
        let line_start = src[..at].rfind('\n').map(|x| x + 1).unwrap_or(0);
        let in_comment = src[line_start..at].trim_start().starts_with("//");
        if !(before_ok && after_ok) || in_comment {
            continue;
        }
        let open = at + src[at..].find('{')?;
        let end = match_brace(b, open)?;
        return Some(&src[at..end]);
    }
    None
}

// ---------------------------------------------------------------- generators

const ALPHABET: &[u8] = b"+-:$*019\r\na";

fn exhaustive(cx: &mut Ctx, maxlen: usize) {
    // all strings of length 0..=maxlen over ALPHABET
    let k = ALPHABET.len() as u64;
    for len in 0..=maxlen {
        let total = k.pow(len as u32);
        for mut idx in 0..total {
            let mut s = vec![0u8; len];
            for i in (0..len).rev() {
                s[i] = ALPHABET[(idx % k) as usize];
                idx /= k;
            }
            check_both(cx, &s, "exhaustive");
        }
    }
}

fn strings_over(alpha: &[u8], maxlen: usize) -> Vec<Vec<u8>> {
    let mut all: Vec<Vec<u8>> = vec![vec![]];
    let mut layer: Vec<Vec<u8>> = vec![vec![]];
    for _ in 0..maxlen {
        let mut next = Vec::new();
        for s in &layer {
            for a in alpha {
                let mut t = s.clone();
                t.push(*a);
                next.push(t);
            }
        }
        all.extend(next.iter().cloned());
        layer = next;
    }
    all
}

/// every header `<type><field>` with field over {-,+,0,1,2,9} up to 3 bytes, followed by each tail
fn header_exhaustive(cx: &mut Ctx, fieldlen: usize) {
    let tails: [&[u8]; 8] = [b"", b"\r", b"\r\n", b"\r\na\r\n", b"\r\n\r\n", b"\r\nab", b"\r\n:1\r\n", b"\r\n+\r\n:1\r\n"];
    for t in [b'$', b'*', b':'] {
        for f in strings_over(b"-+0129", fieldlen) {
            for tail in tails {
                let mut s = vec![t];
                s.extend_from_slice(&f);
                s.extend_from_slice(tail);
                check_both(cx, &s, "header-exhaustive");
            }
        }
    }
}

fn atom_bytes(rng: &mut Rng) -> Vec<u8> {
    match rng.below(10) {
        0 => vec![],
        1 => b"OK".to_vec(),
        2 => b"a".to_vec(),
        3 => b"ERR unknown command 'x'".to_vec(),
        4 => "héllo ✓".as_bytes().to_vec(),
        5 => vec![0, 255, 128, 10],
        6 => b"a\rb".to_vec(),
        7 => b"x\r\ny".to_vec(),
        8 => (0..rng.range(1, 12)).map(|_| rng.below(256) as u8).collect(),
        _ => (0..rng.range(1, 6)).map(|_| *rng.pick(ALPHABET)).collect(),
    }
}

fn line_bytes(rng: &mut Rng) -> Vec<u8> {
    // mostly line-safe text, sometimes CR / LF / non-UTF-8 inside
    match rng.below(12) {
        0 => b"a\rb".to_vec(),
        1 => b"x\r\ny".to_vec(),
        2 => b"tail\r".to_vec(),
        3 => b"l\nf".to_vec(),
        4 => vec![b'a', 0xff, b'b'],
        5 => "é✓".as_bytes().to_vec(),
        6 => vec![],
        _ => {
            let n = rng.below(10);
            (0..n).map(|_| *rng.pick(b"abcOKER 019-+:$*'")).collect()
        }
    }
}

fn rand_int(rng: &mut Rng) -> i64 {
    match rng.below(8) {
        0 => 0,
        1 => -1,
        2 => i64::MAX,
        3 => i64::MIN,
        4 => 10,
        5 => -(rng.below(1000) as i64),
        6 => rng.next() as i64,
        _ => rng.below(100) as i64,
    }
}

fn rand_value(rng: &mut Rng, depth: u64) -> V {
    let k = if depth == 0 { rng.below(6) } else { rng.below(9) };
    match k {
        0 => V::S(line_bytes(rng)),
        1 => V::E(line_bytes(rng)),
        2 => V::I(rand_int(rng)),
        3 => V::N,
        4 => V::B(atom_bytes(rng)),
        5 => V::Z,
        _ => {
            let n = rng.below(4);
            V::A((0..n).map(|_| rand_value(rng, depth - 1)).collect())
        }
    }
}

/// line-safe values (what a well-behaved server emits): valid frames for streams
fn safe_value(rng: &mut Rng, depth: u64) -> V {
    let k = if depth == 0 { rng.below(6) } else { rng.below(9) };
    match k {
        0 => V::S(rng.pick(&[&b"OK"[..], b"PONG", b"QUEUED", b""]).to_vec()),
        1 => V::E(rng.pick(&[&b"ERR x"[..], b"WRONGTYPE Operation against a key"]).to_vec()),
        2 => V::I(rand_int(rng)),
        3 => V::N,
        4 => V::B(atom_bytes(rng)),
        5 => V::Z,
        _ => {
            let n = rng.below(4);
            V::A((0..n).map(|_| safe_value(rng, depth - 1)).collect())
        }
    }
}

fn encode_any(v: &V) -> Vec<u8> {
    RespCodec::encode(&v.to_zc()).to_vec()
}

const SPECIAL_NUMS: &[&str] = &[
    "-2", "-3", "-5", "-7", "-8", "-9", "-10", "-100", "-0", "+5", "+0", "-", "+", "", "00", "007", "1 ", " 1", "1a",
    "0x10", "99", "1000", "65536", "9999999", "-9223372036854775808", "-9223372036854775809", "-1 ", "--1", "-01",
];
/// lengths that only a child process may decode with codec 1
const HUGE_NUMS: &[&str] = &[
    "10000000", "26843545", "26843546", "1000000000", "2147483648", "4294967296", "230584300921369395", "230584300921369396",
    "9223372036854775807", "9223372036854775808", "18446744073709551615", "18446744073709551616", "99999999999999999999",
    "0000000000000000000000001",
];

/// replace the numeric field of one `$`/`*`/`:` header of a valid stream
fn mutate(rng: &mut Rng, valid: &[u8], allow_huge: bool) -> Vec<u8> {
    let mut v = valid.to_vec();
    match rng.below(9) {
        0..=3 => {
            // header positions: at 0 or after "\r\n"
            let pos: Vec<usize> = (0..v.len()).filter(|i| b"$*:".contains(&v[*i]) && (*i == 0 || (*i >= 2 && &v[*i - 2..*i] == b"\r\n"))).collect();
            if !pos.is_empty() {
                let p = *rng.pick(&pos);
                let e = (p..v.len()).find(|i| v[*i] == b'\r').unwrap_or(v.len());
                let num = if allow_huge && rng.chance(1, 3) { *rng.pick(HUGE_NUMS) } else { *rng.pick(SPECIAL_NUMS) };
                v.splice(p + 1..e, num.bytes());
            }
        }
        4 => {
            // lone CR / lone LF / CRCR inserted somewhere
            let p = rng.below(v.len() as u64 + 1) as usize;
            let ins: &[u8] = *rng.pick(&[&b"\r"[..], b"\n", b"\r\r", b"\n\r", b"\r\r\n", b"\r\r\r\n"]);
            v.splice(p..p, ins.iter().copied());
        }
        5 => {
            let n = rng.below(v.len() as u64 + 1) as usize;
            v.truncate(n);
        }
        6 => {
            if !v.is_empty() {
                let p = rng.below(v.len() as u64) as usize;
                v[p] = if rng.chance(1, 2) { *rng.pick(ALPHABET) } else { rng.below(256) as u8 };
            }
        }
        7 => {
            if !v.is_empty() {
                let p = rng.below(v.len() as u64) as usize;
                v.remove(p);
            }
        }
        _ => {
            let extra: Vec<u8> = (0..rng.range(1, 4)).map(|_| *rng.pick(ALPHABET)).collect();
            v.extend(extra);
        }
    }
    v
}

fn all_small_values() -> Vec<V> {
    let atoms = vec![
        V::S(vec![]), V::S(b"OK".to_vec()), V::S(b"a\rb".to_vec()), V::S(b"x\r\ny".to_vec()), V::S(b"t\r".to_vec()),
        V::E(b"ERR x".to_vec()), V::E(b"ERR unknown command 'FOO\r\n+INJECTED'".to_vec()),
        V::I(0), V::I(-1), V::I(i64::MIN), V::I(i64::MAX), V::I(10),
        V::N, V::B(vec![]), V::B(b"a".to_vec()), V::B(b"\r\n".to_vec()), V::B(vec![0xff, 0]), V::Z,
    ];
    let mut all = atoms.clone();
    all.push(V::A(vec![]));
    for a in &atoms {
        all.push(V::A(vec![a.clone()]));
        all.push(V::A(vec![V::A(vec![a.clone()])]));
        all.push(V::A(vec![V::A(vec![]), a.clone()]));
    }
    for a in &atoms {
        for b in &atoms {
            all.push(V::A(vec![a.clone(), b.clone()]));
        }
    }
    for a in atoms.iter().take(8) {
        all.push(V::A(vec![V::A(vec![V::A(vec![a.clone(), V::Z])]), V::N]));
    }
    // the null array, the null bulk, empty arrays / bulks, a negative integer, lines with CR / LF —
    // at every nesting depth 1..6, first / last / only element
    for leaf in [V::Z, V::N, V::A(vec![]), V::B(vec![]), V::I(-42), V::E(b"e\r\nx".to_vec()), V::S(b"s\nx".to_vec())] {
        let mut v = leaf.clone();
        for d in 0..6 {
            v = match d % 3 {
                0 => V::A(vec![v]),
                1 => V::A(vec![V::I(d as i64), v]),
                _ => V::A(vec![v, V::B(b"tail".to_vec())]),
            };
            all.push(v.clone());
        }
    }
    all
}

fn all_cuts(cx: &mut Ctx, codec: u8, stream: &[u8], ncuts: usize, src: &str) {
    // every set of `ncuts` ascending cut offsets 1..len-1
    let n = stream.len();
    if n < 2 {
        return;
    }
    fn rec(cx: &mut Ctx, codec: u8, stream: &[u8], from: usize, left: usize, cur: &mut Vec<usize>, src: &str) {
        if left == 0 {
            check_frag(cx, codec, stream, cur, src);
            return;
        }
        for c in from..stream.len() {
            cur.push(c);
            rec(cx, codec, stream, c + 1, left - 1, cur, src);
            cur.pop();
        }
    }
    rec(cx, codec, stream, 1, ncuts, &mut Vec::new(), src);
}

fn fixed_corpus(cx: &mut Ctx) {
    // the witnesses of the recorded findings (run first on every run)
    for (codec, s) in [
        (1u8, &b"$-2\r\n"[..]), (2, b"$-2\r\n"), (1, b"*-5\r\n"), (2, b"*-5\r\n"), (1, b"*1000000000\r\n"), (2, b"*1000000000\r\n"),
        (1, b"*9999\r\n"), (1, b"+a\rb\r\n"), (2, b"+a\rb\r\n"), (1, b"$1\r\nabc"), (2, b"$1\r\nabc"), (1, b"$-7\r\n"), (1, b"$-8\r\n"),
        (1, b"*230584300921369396\r\n"), (1, b"*26843546\r\n"), (1, b"*26843545\r\n"), (1, b":+5\r\n"), (2, b"$-0\r\n"),
        (1, b"*2\r\n$3\r\nGET\r\n$1\r\nk\r\n"), (2, b"*2\r\n$3\r\nGET\r\n$1\r\nk\r\n"),
    ] {
        check_decode(cx, codec, s, "corpus");
    }
    // a CR LF directly preceded by a bare CR (seeded change C15-find-crlf-skips-two)
    for s in [&b"+a\r\r\n"[..], b"+a\r\r\n:1\r\n", b":7\r\r\n", b"-e\r\r\r\n", b"$0\r\n\r\n", b"$0\r\n\r\n:1\r\n"] {
        check_both(cx, s, "corpus");
    }
    // unbounded recursion: 20000 nested arrays on a 256 KiB stack (model: at most stack/16 frames),
    // and a depth that certainly fits
    for codec in [1u8, 2] {
        for (depth, stack) in [(20000usize, 256usize << 10), (40, 256 << 10)] {
            let o = decode_in_child(codec, stack, &format!("nested {}", depth));
            let text = if o.text.starts_with("ok ") { o.text.clone() } else { o.text.clone() };
            // deep values are printed in full only when small
            cx.out.op(format!("N{} {} {}", codec, depth, stack), format!("{} big=[]", text));
            cx.out.case(&format!("N{}|{}|{}", codec, depth, stack), true);
            if o.kind == Kind::Abort || o.kind == Kind::Crash {
                cx.out.violation(&crash_signature(codec, &o.text, b"*1\r\n"), &format!("{} nested arrays ({} bytes) overflow a {} byte stack: the recursion has no depth limit", depth, depth * 4 + 4, stack),
                    json!({"op": format!("N{} {} {}", codec, depth, stack), "observed": o.text}));
            }
        }
        // tokio's default worker stack (2 MiB), oracle only
        let o = decode_in_child(codec, 2 << 20, "nested 200000");
        cx.out.count(&format!("nested-200000-on-2MiB:codec{}:{}", codec, o.text.split(' ').next().unwrap_or("")));
        if o.kind == Kind::Abort {
            cx.out.violation(&crash_signature(codec, &o.text, b"*1\r\n"), "200000 nested arrays (800 KB) overflow a 2 MiB stack (tokio worker default)", json!({"nested": 200000, "stack": 2 << 20, "observed": o.text}));
        }
    }
}

fn primitives(cx: &mut Ctx, rng: &mut Rng, n: u64) {
    // String::from_utf8_lossy and str::parse::<i64> against their models
    let mut cases: Vec<Vec<u8>> = vec![vec![], vec![0xff], vec![0xc3], vec![0xc3, 0xa9], vec![0xe2, 0x9c], vec![0xe2, 0x9c, 0x93], vec![0xe0, 0x80, 0x80],
        vec![0xed, 0xa0, 0x80], vec![0xf0, 0x9f, 0x98, 0x80], vec![0xf0, 0x9f, 0x98], vec![0xf4, 0x90, 0x80, 0x80], vec![0xc0, 0x80], vec![0xf5, 0x80], vec![0xe1, 0x80, 0x41], vec![0xf1, 0x80, 0x80, 0x41]];
    for _ in 0..n {
        let len = rng.below(7);
        cases.push((0..len).map(|_| *rng.pick(&[0x41u8, 0x7f, 0x80, 0xbf, 0xc2, 0xc3, 0xdf, 0xe0, 0xa0, 0x9f, 0xe1, 0xed, 0xee, 0xef, 0xf0, 0x90, 0x8f, 0xf1, 0xf4, 0xf5, 0xff, 0x0d])).collect());
    }
    for c in &cases {
        cx.out.op(format!("L {}", hex(c)), hex(String::from_utf8_lossy(c).as_bytes()));
    }
    let mut nums: Vec<Vec<u8>> = SPECIAL_NUMS.iter().chain(HUGE_NUMS.iter()).map(|s| s.as_bytes().to_vec()).collect();
    nums.push(b"9223372036854775807".to_vec());
    nums.push(b"+9223372036854775807".to_vec());
    nums.push(b"-9223372036854775808".to_vec());
    nums.push(b"-00000000000000000000009223372036854775808".to_vec());
    nums.push(vec![0x31, 0xff]);
    for _ in 0..n {
        let len = rng.below(5);
        nums.push((0..len).map(|_| *rng.pick(b"-+0129 a")).collect());
    }
    for c in &nums {
        let r = String::from_utf8_lossy(c).parse::<i64>();
        let r1 = std::str::from_utf8(c).ok().and_then(|s| s.parse::<i64>().ok());
        // both decoders' routes to an i64 agree
        assert_eq!(r.clone().ok(), r1);
        cx.out.op(format!("I {}", hex(c)), match r { Ok(n) => n.to_string(), Err(_) => "none".into() });
    }
    cx.out.count_n("primitive-ops", (cases.len() + nums.len()) as u64);
}

/// encoder 3 (`encode_resp_into`, private to the connection handler) observed through hook H1:
/// replies of a real connection, cut into frames; each frame must be what the model's encoder 3
/// produces for the value it decodes to, and must re-decode under both decoders
fn encoder3(cx: &mut Ctx) {
    use crate::c04::{frame, Cfg, Runner};
    let runner = Runner::new();
    let cmds: Vec<Vec<&[u8]>> = vec![
        vec![b"PING"], vec![b"ECHO", b"bin\r\n\x00\xff"], vec![b"GET", b"missing"], vec![b"SET", b"k", b"v"], vec![b"GET", b"k"],
        vec![b"INCR", b"n"], vec![b"DECRBY", b"n", b"9223372036854775807"], vec![b"RPUSH", b"l", b"a", b"", b"c"], vec![b"LRANGE", b"l", b"0", b"-1"],
        vec![b"LRANGE", b"nolist", b"0", b"-1"], vec![b"MULTI"], vec![b"GET", b"k"], vec![b"LRANGE", b"l", b"0", b"-1"], vec![b"INCR", b"n"], vec![b"EXEC"],
        vec![b"NOSUCHCOMMAND", b"x"], vec![b"GET"], vec![b"EXEC"], vec![b"HSET", b"h", b"f", b"1"], vec![b"HGETALL", b"h"], vec![b"EXISTS", b"k", b"zz"],
    ];
    let segs: Vec<Vec<u8>> = cmds.iter().map(|c| frame(c)).collect();
    let r = runner.run(&Cfg::default_like(), &segs);
    let bytes = r.written.clone();
    let mut off = 0;
    let mut n = 0;
    while off < bytes.len() {
        let o = decode_here(2, &bytes[off..]);
        if o.kind != Kind::Ok || o.consumed == 0 {
            break;
        }
        let span = bytes[off..off + o.consumed].to_vec();
        let v = o.val.clone().unwrap();
        cx.out.op(format!("E3 {}", v.show()), hex(&span));
        cx.out.case(&format!("E3|{}", v.show()), true);
        cx.out.count("encoder3-replies");
        check_both(cx, &span, "encoder3");
        off += o.consumed;
        n += 1;
    }
    if n != cmds.len() || off != bytes.len() {
        cx.out.violation("C15:roundtrip:other:enc3", "the replies of a connection do not decode into one value per command", json!({"commands": cmds.len(), "replies": n, "undecoded": bytes.len() - off, "written": hex(&bytes)}));
    }
    // end to end: the values the server can be made to emit that only the connection encoder sees —
    // the null array (aborted EXEC, ACL GETUSER of a missing user), nested arrays with nils (EVAL,
    // MGET), an error inside an EXEC array.  Each reply must decode to the EXPECTED value.
    let e2e: Vec<(Vec<&[u8]>, Option<V>, &str)> = vec![
        (vec![b"SET", b"wk", b"v"], Some(V::S(b"OK".to_vec())), "set"),
        (vec![b"WATCH", b"wk"], Some(V::S(b"OK".to_vec())), "watch"),
        (vec![b"SET", b"wk", b"changed"], Some(V::S(b"OK".to_vec())), "set"),
        (vec![b"MULTI"], Some(V::S(b"OK".to_vec())), "multi"),
        (vec![b"PING"], Some(V::S(b"QUEUED".to_vec())), "queued"),
        (vec![b"EXEC"], Some(V::Z), "aborted-exec"),
        (vec![b"ACL", b"GETUSER", b"no-such-user"], None, "acl-getuser-missing"),
        (vec![b"MGET", b"wk", b"missing", b"wk"], Some(V::A(vec![V::B(b"changed".to_vec()), V::N, V::B(b"changed".to_vec())])), "mget-with-nil"),
        (vec![b"EVAL", b"return {1,{2,'x',{3,{}}},false,'s'}", b"0"], Some(V::A(vec![V::I(1), V::A(vec![V::I(2), V::B(b"x".to_vec()), V::A(vec![V::I(3), V::A(vec![])])]), V::N, V::B(b"s".to_vec())])), "eval-nested"),
        (vec![b"MULTI"], Some(V::S(b"OK".to_vec())), "multi"),
        (vec![b"INCR", b"wk"], Some(V::S(b"QUEUED".to_vec())), "queued"),
        (vec![b"GET", b"missing"], Some(V::S(b"QUEUED".to_vec())), "queued"),
        (vec![b"EXEC"], None, "exec-with-error-inside"),
    ];
    let segs: Vec<Vec<u8>> = e2e.iter().map(|c| frame(&c.0)).collect();
    let r = runner.run(&Cfg::default_like(), &segs);
    let (vals, rest) = crate::c04::decode_replies(&r.written);
    cx.out.count_n("encoder3-e2e-replies", vals.len() as u64);
    if vals.len() != e2e.len() || rest != 0 {
        cx.out.violation("C15:roundtrip:conn-encoder:e2e:reply-count", "the end-to-end replies do not decode into one value per command", json!({"commands": e2e.len(), "replies": vals.len(), "written": hex(&r.written)}));
    }
    for (i, v) in vals.iter().enumerate().take(e2e.len()) {
        let (cmd, want, name) = &e2e[i];
        let ok = match (want, *name) {
            (Some(w), _) => v == w,
            (None, "exec-with-error-inside") => matches!(v, V::A(a) if a.len() == 2 && matches!(a[0], V::E(_)) && a[1] == V::N),
            (None, "acl-getuser-missing") => *v == V::Z || matches!(v, V::A(_)),
            _ => true,
        };
        if !ok {
            cx.out.violation(&format!("C15:roundtrip:conn-encoder:e2e:{}", name), "a reply of the production connection does not decode to the value the server emitted",
                json!({"command": cmd.iter().map(|a| String::from_utf8_lossy(a).to_string()).collect::<Vec<_>>(), "decoded": v.show(), "expected": want.as_ref().map(|w| w.show()), "written": hex(&r.written)}));
        }
    }
    // a reply that embeds client bytes containing CR LF (unknown command name)
    let inj = frame(&[b"FOO\r\n+INJECTED"]);
    let r = runner.run(&Cfg::default_like(), &[inj.clone()]);
    let o = decode_here(2, &r.written);
    if o.kind == Kind::Ok && o.consumed < r.written.len() {
        cx.out.violation("C15:roundtrip:crlf-in-line:enc3", "encode_resp_into writes the CR LF inside an error text unescaped: the reply to ONE command decodes to a shorter error followed by further frames", json!({"command": hex(&inj), "written": hex(&r.written), "first_frame": o.line()}));
    }
}

/// the coverage audit of C15 against the eleven classes of missed inputs (also DESIGN §4 C15 "coverage audit")
fn audit() -> serde_json::Value {
    json!([
      {"class": 1, "topic": "entry paths / variants never driven",
       "covered": "both decoders (every per-type parser, find_crlf), encoders 1-6, both error encoders, put_line; encoder 5 = the bin server_persistent.rs's copy, its SOURCE TEXT compiled into the harness by build.rs; encoder 6 = SimulatedReadBuffer::encode_command through its public API; every function of the source tree that looks like a RESP codec is enumerated at run time and accounted for (C15:coverage:resp-codec-not-accounted); hook H1c detection restored in build.rs (its loss had left encoders 3 / 4 silently undriven: now C15:coverage:hook-h1c-absent)",
       "open": "— (session 4: encoder 7 = main.rs::encode_command and the shadow proxy's parse_resp_command are compiled from their source text and driven: CE / PN ops)"},
      {"class": 2, "topic": "input alphabet",
       "covered": "exhaustive strings over the grammar alphabet; all 256 values of the first byte (top level and as array element) before six tails; CR / LF patterns; non-UTF-8 lines; integers at the i64 / usize limits",
       "open": ""},
      {"class": 3, "topic": "comparisons at equality",
       "covered": "nesting at limit-2 .. limit+2 and 2*limit (complete, truncated, null / empty arrays below the limit); bulk trailer missing by 0 / 1 / 2 bytes (all cuts); array pre-allocation clamp at 3 bytes per element (85 / 86 / 1000 / 16000 / 30000 elements, one element short, one byte short)",
       "open": "the clamp's exact request is observed only above the allocator log threshold (1 MiB)"},
      {"class": 4, "topic": "configuration", "covered": "no configuration is read; MAX_NESTING_DEPTH is read from resp.rs by ./check and compared with the value the theorems assume", "open": "feature opt-itoa-encode off"},
      {"class": 5, "topic": "capacity thresholds", "covered": "encoder buffer 256, 64 KiB, the 1 MiB observation threshold (bulk 2^20-1 / 2^20), allocator cap 1 GiB (child), 2 MiB / 256 KiB stacks", "open": "RespParser's amortised vector growth is not modelled (stated assumption)"},
      {"class": 6, "topic": "fault kinds", "covered": "panic, allocation refusal (child process), stack overflow (child process)", "open": ""},
      {"class": 7, "topic": "history shapes", "covered": "one buffer across many frames and chunks, dead after an error, every 1- and 2-cut fragmentation of short streams", "open": ""},
      {"class": 8, "topic": "node-global state", "covered": "none exists", "open": ""},
      {"class": 9, "topic": "observations", "covered": "value, consumed, error class, big allocation requests, exact encoder bytes, frames / rest / liveness of the buffer loop", "open": "exact decoder error texts (the connection discards them)"},
      {"class": 10, "topic": "finding signatures", "covered": "no listed finding (all repaired)", "open": ""},
      {"class": 11, "topic": "harness fragility", "covered": "absence of hook H1c or of the extracted bin encoder is a violation; a failed source scan is a violation; skipped:child-budget is counted (corpus cases run first)", "open": ""}
    ])
}

fn run_inner(a: &Args) {
    install_silent_panic_hook();
    let quick = a.tier != "thorough";
    let mut cx = Ctx { out: Out::new(&a.out), child_budget: if quick { 60 } else { 600 }, recent: [Vec::new(), Vec::new()] };
    let mut rng = Rng::new(a.seed);
    cx.out.op("Z".into(), format!("elemsize={}", std::mem::size_of::<RespValueZeroCopy>()));
    fixed_corpus(&mut cx);
    primitives(&mut cx, &mut rng, if quick { 300 } else { 5000 });
    exhaustive(&mut cx, if quick { 5 } else { 6 });
    header_exhaustive(&mut cx, if quick { 3 } else { 4 });
    cr_patterns(&mut cx);

    encoder3(&mut cx);
    error_encoder(&mut cx);
    error_encoder5(&mut cx);
    command_encoder(&mut cx);
    cli_encoder(&mut cx);
    proxy_names(&mut cx);
    sweeps(&mut cx);
    codec_enumeration(&mut cx);
    // the static reply constructors of RespValue
    for rv in [RespValue::ok(), RespValue::pong(), RespValue::queued(), RespValue::nil(), RespValue::simple_string("dyn\r\nx".to_string()), RespValue::empty_array(), RespValue::err("ERR e"), RespValue::simple("s")] {
        check_roundtrip(&mut cx, &V::from_rv(&rv), "static-constructors");
    }
    // round trips of all small values
    for v in all_small_values() {
        check_roundtrip(&mut cx, &v, "all-small");
    }
    // fragmentation: every 1-cut and 2-cut split of short valid streams (and of malformed ones)
    let streams: Vec<Vec<u8>> = vec![
        b"+OK\r\n:1\r\n".to_vec(), b"$3\r\nfoo\r\n$-1\r\n".to_vec(), b"*2\r\n$1\r\na\r\n:7\r\n+x\r\n".to_vec(), b"*-1\r\n*0\r\n-ERR\r\n".to_vec(),
        b"*1\r\n*1\r\n$2\r\n\r\n\r\n".to_vec(), b"+a\rb\r\n:1\r\n".to_vec(), b":1\r\n$-2\r\n:2\r\n".to_vec(), b":1\r\n:x\r\n:2\r\n".to_vec(), b"+1\r\n?\r\n".to_vec(),
        // stray separators between / before frames (empty lines, a lone LF / CR, a blank): whatever the
        // decoder makes of them, it must make the same of them in every fragmentation
        b"+a\r\n\r\n+b\r\n".to_vec(), b"\r\n+a\r\n".to_vec(), b"\r\n\r\n:1\r\n".to_vec(), b"+a\r\n\n+b\r\n".to_vec(), b"+a\r\n\r+b\r\n".to_vec(), b"+a\r\n +b\r\n".to_vec(),
        b"$1\r\nx\r\n\r\n$1\r\ny\r\n".to_vec(), b"*1\r\n\r\n:1\r\n".to_vec(),
    ];
    // EVERY string of up to 3 (thorough: 4) bytes over the grammar alphabet, at every single cut: fragmentation
    // invariance is a statement about all byte strings, not about valid streams
    {
        let k = ALPHABET.len() as u64;
        for len in 2..=(if quick { 3 } else { 4 }) {
            for mut idx in 0..k.pow(len as u32) {
                let mut st = Vec::with_capacity(len);
                for _ in 0..len {
                    st.push(ALPHABET[(idx % k) as usize]);
                    idx /= k;
                }
                for codec in [1u8, 2] {
                    all_cuts(&mut cx, codec, &st, 1, "exhaustive-short");
                }
            }
        }
    }
    for s in &streams {
        for codec in [1u8, 2] {
            check_frag(&mut cx, codec, s, &[], "short-stream");
            all_cuts(&mut cx, codec, s, 1, "short-stream");
            all_cuts(&mut cx, codec, s, 2, "short-stream");
            if !quick {
                all_cuts(&mut cx, codec, s, 3, "short-stream");
            }
        }
    }

    // random part
    let mut done = 0u64;
    while done < a.n {
        done += 1;
        match rng.below(10) {
            0..=2 => {
                // mutated valid stream
                let nf = rng.range(1, 3);
                let mut s = Vec::new();
                for _ in 0..nf {
                    s.extend(encode_any(&safe_value(&mut rng, 2)));
                }
                let mut m = mutate(&mut rng, &s, true);
                if rng.chance(1, 4) {
                    m = mutate(&mut rng, &m, false);
                }
                check_both(&mut cx, &m, "mutated");
                if rng.chance(1, 3) && m.len() >= 2 {
                    let k = rng.range(1, 3) as usize;
                    let mut cuts: Vec<usize> = (0..k).map(|_| rng.range(1, m.len() as u64 - 1) as usize).collect();
                    cuts.sort();
                    cuts.dedup();
                    check_frag(&mut cx, 1, &m, &cuts, "mutated");
                    check_frag(&mut cx, 2, &m, &cuts, "mutated");
                }
            }
            3 => {
                // random bytes, biased to the grammar alphabet
                let len = rng.below(24);
                let s: Vec<u8> = (0..len).map(|_| if rng.chance(4, 5) { *rng.pick(ALPHABET) } else { rng.below(256) as u8 }).collect();
                check_both(&mut cx, &s, "random-bytes");
                if s.len() >= 2 && rng.chance(1, 2) {
                    let c = rng.range(1, s.len() as u64 - 1) as usize;
                    check_frag(&mut cx, 1, &s, &[c], "random-bytes");
                    check_frag(&mut cx, 2, &s, &[c], "random-bytes");
                }
            }
            4..=5 => {
                let v = rand_value(&mut rng, 3);
                check_roundtrip(&mut cx, &v, "random-tree");
            }
            6..=8 => {
                // fragmentation of a valid stream, up to 4 cuts, incl. 1-byte chunks
                let nf = rng.range(1, 4);
                let mut s = Vec::new();
                for _ in 0..nf {
                    s.extend(encode_any(&safe_value(&mut rng, 2)));
                }
                if rng.chance(1, 5) {
                    let n = rng.below(s.len() as u64) as usize;
                    s.truncate(n);
                }
                if s.len() < 2 {
                    continue;
                }
                let cuts: Vec<usize> = if rng.chance(1, 8) {
                    (1..s.len()).collect()
                } else {
                    let k = rng.range(1, 4) as usize;
                    let mut c: Vec<usize> = (0..k).map(|_| rng.range(1, s.len() as u64 - 1) as usize).collect();
                    c.sort();
                    c.dedup();
                    c
                };
                for codec in [1u8, 2] {
                    check_frag(&mut cx, codec, &s, &cuts, "valid-stream");
                }
            }
            _ => {
                // moderately deep / wide valid values (in-process safe)
                let depth = rng.range(1, 300) as usize;
                let mut s = nested(depth);
                if rng.chance(1, 2) {
                    let n = rng.below(s.len() as u64) as usize;
                    s.truncate(n);
                }
                check_both(&mut cx, &s, "nested");
            }
        }
    }
    cx.out.extra.insert("audit".into(), audit());
    cx.out.extra.insert("mutations_self_tested".into(), json!([
      {"mutation": "server_persistent.rs encode_resp_into writes Array(None) as $-1", "class": "1 entry paths (encoder 5)", "before": "missed (exit 0): the binary's encoder was not driven", "after": "C15:roundtrip:persistent-server-encoder:null-array (+ in-array shapes), 223 ops"},
      {"mutation": "RespCodec accepts the RESP3 null `_\\r\\n`", "class": "2 input alphabet (first byte)", "before": "caught by ONE random input", "after": "caught systematically: first-byte sweep, C15:decoders-disagree:ok-vs-err-unknown-type, C15:prefix-unstable:error:codec1"},
      {"mutation": "MAX_NESTING_DEPTH = 33", "class": "4 configuration / 5 thresholds", "before": "model disagreement on 4 random nested inputs", "after": "proof-obligation-broken: the theorems are about 32, the source has 33 (+ 18 ops of the nesting-at-limit corpus); no property-level failing input: the bound still holds"},
      {"mutation": "SimulatedReadBuffer::encode_command writes the CHARACTER count of a GET key as its length", "class": "1 entry paths (encoder 6) / 2 alphabet (non-ASCII key)", "before": "missed (exit 0)", "after": "C15:roundtrip:command-encoder on GET \"ké✓\""},
      {"mutation": "server_persistent.rs encode_error_into copies the message verbatim (no put_line)", "class": "1 entry paths (error encoder 5)", "before": "missed (exit 0)", "after": "C15:roundtrip:persistent-server-encoder:error-reply on a message with CR LF"}
    ]));
    cx.out.finish("case = one decoder call D<codec>(bytes) | one fragmented feed F<codec>(stream, cuts) | one encoder call E<k>(value) | one nested-array decode N<codec>(depth, stack); distinct by canonical text; a decode is non-trivial iff the input has at least 3 bytes and starts with a RESP type byte, a feed iff it has at least one cut and yields at least one frame");
}

pub fn run(a: &Args) {
    // decode on a thread with a large stack: in-process inputs nest at most a few hundred levels
    let a2 = Args { seed: a.seed, n: a.n, out: a.out.clone(), tier: a.tier.clone(), replay: a.replay.clone() };
    std::thread::Builder::new()
        .stack_size(256 << 20)
        .spawn(move || run_inner(&a2))
        .expect("spawn")
        .join()
        .expect("C15 harness thread panicked");
}
