//! Canonical text encoding of replicated values (the line protocol shared with the Lean
//! driver, see lean/RedisVerif/Driver/Codec.lean) and a neutral mirror type `MRv` from
//! which REAL `ReplicatedValue`s are built and into which they are read back.
//! Payload-bearing parts (`LwwRegister<SDS>` in `Lww` and `Hash`) go through the PUBLIC fields, so
//! payload BYTES are observed exactly and the mirror does not depend on how `SDS` serialises.
//! The counters / sets / vector clocks have crate-private fields and are read through serde_json;
//! if their serialised shape changes the mirror does not panic: it records a
//! `<Cxx>:mirror:shape-changed` case (see `mirror_error`, reported by `Out::finish`) and continues
//! with a placeholder — a change of the serialised shape of a replicated value is itself a
//! persistence / wire compatibility event.
use redis_sim::redis::SDS;
use redis_sim::replication::lattice::{LamportClock, LwwRegister, ReplicaId, VectorClock};
use redis_sim::replication::state::{CrdtValue, ReplicatedValue};
use serde_json::{json, Map, Value};
use std::collections::{BTreeMap, BTreeSet};
use std::sync::Mutex;

static MIRROR_ERRORS: Mutex<Vec<(String, String)>> = Mutex::new(Vec::new());

/// record that the serialised shape of (a part of) a replicated value is not what the mirror knows
pub fn mirror_error(what: &str, json: String) {
    let mut v = MIRROR_ERRORS.lock().unwrap();
    if v.len() < 20 && !v.iter().any(|(w, _)| w == what) {
        let mut j = json;
        j.truncate(600);
        v.push((what.to_string(), j));
    }
}

pub fn take_mirror_errors() -> Vec<(String, String)> {
    std::mem::take(&mut *MIRROR_ERRORS.lock().unwrap())
}

pub fn hex(b: &[u8]) -> String {
    let mut s = String::with_capacity(1 + 2 * b.len());
    s.push('x');
    for x in b {
        s.push_str(&format!("{:02x}", x));
    }
    s
}

pub fn unhex(s: &str) -> Vec<u8> {
    let s = s.strip_prefix('x').expect("hex token");
    (0..s.len() / 2)
        .map(|i| u8::from_str_radix(&s[2 * i..2 * i + 2], 16).expect("hex"))
        .collect()
}

/// order of the model's key codes: length first, then bytes
pub fn key_cmp(a: &str, b: &str) -> std::cmp::Ordering {
    (a.len(), a.as_bytes()).cmp(&(b.len(), b.as_bytes()))
}

#[derive(Clone, Debug, PartialEq, Eq, PartialOrd, Ord)]
pub struct MLww {
    pub v: Option<Vec<u8>>,
    pub t: u64,
    pub r: u64,
    pub tomb: bool,
}

#[derive(Clone, Debug, PartialEq, Eq)]
pub enum MCrdt {
    Lww(MLww),
    G(BTreeMap<u64, u64>),
    P(BTreeMap<u64, u64>, BTreeMap<u64, u64>),
    S(BTreeSet<String>),
    O(BTreeMap<String, BTreeSet<(u64, u64)>>, BTreeMap<u64, u64>),
    H(BTreeMap<String, MLww>),
}

#[derive(Clone, Debug, PartialEq, Eq)]
pub struct MRv {
    pub crdt: MCrdt,
    pub vc: Option<BTreeMap<u64, u64>>,
    pub exp: Option<u64>,
    pub t: u64,
    pub r: u64,
    pub rf: Option<u8>,
}

impl MCrdt {
    pub fn kind(&self) -> u8 {
        match self {
            MCrdt::Lww(_) => 0,
            MCrdt::G(_) => 1,
            MCrdt::P(_, _) => 2,
            MCrdt::S(_) => 3,
            MCrdt::O(_, _) => 4,
            MCrdt::H(_) => 5,
        }
    }
    pub fn kind_name(&self) -> &'static str {
        ["lww", "gcounter", "pncounter", "gset", "orset", "hash"][self.kind() as usize]
    }
}

fn jmap(m: &BTreeMap<u64, u64>) -> Value {
    let mut o = Map::new();
    for (k, v) in m {
        o.insert(k.to_string(), json!(v));
    }
    Value::Object(o)
}

fn jlww(l: &MLww) -> Value {
    json!({"value": l.v, "timestamp": {"time": l.t, "replica_id": l.r}, "tombstone": l.tomb})
}

impl MRv {
    pub fn to_json(&self) -> Value {
        let crdt = match &self.crdt {
            MCrdt::Lww(l) => json!({"Lww": jlww(l)}),
            MCrdt::G(m) => json!({"GCounter": {"counts": jmap(m)}}),
            MCrdt::P(p, n) => {
                json!({"PNCounter": {"positive": {"counts": jmap(p)}, "negative": {"counts": jmap(n)}}})
            }
            MCrdt::S(s) => json!({"GSet": {"elements": s.iter().collect::<Vec<_>>()}}),
            MCrdt::O(e, nx) => {
                let mut o = Map::new();
                for (k, tags) in e {
                    let ts: Vec<Value> = tags
                        .iter()
                        .map(|(r, s)| json!({"replica_id": r, "sequence": s}))
                        .collect();
                    o.insert(k.clone(), Value::Array(ts));
                }
                json!({"ORSet": {"elements": o, "next_sequence": jmap(nx)}})
            }
            MCrdt::H(h) => {
                let mut o = Map::new();
                for (k, l) in h {
                    o.insert(k.clone(), jlww(l));
                }
                json!({ "Hash": o })
            }
        };
        json!({
            "crdt": crdt,
            "vector_clock": self.vc.as_ref().map(|m| json!({"clocks": jmap(m)})),
            "expiry_ms": self.exp,
            "timestamp": {"time": self.t, "replica_id": self.r},
            "replication_factor": self.rf,
        })
    }

    /// build the REAL value: registers through the public fields, the rest through serde_json
    pub fn to_real(&self) -> ReplicatedValue {
        let clock = |t: u64, r: u64| LamportClock { time: t, replica_id: ReplicaId(r) };
        let lww = |l: &MLww| LwwRegister { value: l.v.as_ref().map(|b| SDS::new(b.clone())), timestamp: clock(l.t, l.r), tombstone: l.tomb };
        let crdt = match &self.crdt {
            MCrdt::Lww(l) => CrdtValue::Lww(lww(l)),
            MCrdt::H(h) => CrdtValue::Hash(h.iter().map(|(k, l)| (k.clone(), lww(l))).collect()),
            _ => {
                let j = self.to_json()["crdt"].clone();
                match serde_json::from_value::<CrdtValue>(j.clone()) {
                    Ok(c) => c,
                    Err(e) => {
                        mirror_error("build-crdt", format!("{} <- {}", e, j));
                        CrdtValue::Lww(LwwRegister { value: None, timestamp: clock(self.t, self.r), tombstone: true })
                    }
                }
            }
        };
        let vector_clock = self.vc.as_ref().and_then(|m| {
            let j = json!({"clocks": jmap(m)});
            match serde_json::from_value::<VectorClock>(j.clone()) {
                Ok(v) => Some(v),
                Err(e) => {
                    mirror_error("build-vector-clock", format!("{} <- {}", e, j));
                    None
                }
            }
        });
        ReplicatedValue { crdt, vector_clock, expiry_ms: self.exp, timestamp: clock(self.t, self.r), replication_factor: self.rf }
    }

    /// read a REAL value back: payload bytes through the public fields, private counters / sets
    /// through serde_json (tolerantly)
    pub fn from_real(rv: &ReplicatedValue) -> MRv {
        let mlww = |r: &LwwRegister<SDS>| MLww { v: r.value.as_ref().map(|s| s.as_bytes().to_vec()), t: r.timestamp.time, r: r.timestamp.replica_id.0, tomb: r.tombstone };
        let crdt = match &rv.crdt {
            CrdtValue::Lww(r) => MCrdt::Lww(mlww(r)),
            CrdtValue::Hash(h) => MCrdt::H(h.iter().map(|(k, r)| (k.clone(), mlww(r))).collect()),
            other => {
                let j = serde_json::to_value(other).unwrap_or(Value::Null);
                match Self::try_crdt(&j) {
                    Some(c) => c,
                    None => {
                        mirror_error("read-crdt", j.to_string());
                        MCrdt::Lww(MLww { v: None, t: 0, r: 0, tomb: true })
                    }
                }
            }
        };
        let vc = rv.vector_clock.as_ref().and_then(|v| {
            let j = serde_json::to_value(v).unwrap_or(Value::Null);
            match Self::try_umap(&j["clocks"]) {
                Some(m) => Some(m),
                None => {
                    mirror_error("read-vector-clock", j.to_string());
                    None
                }
            }
        });
        MRv { crdt, vc, exp: rv.expiry_ms, t: rv.timestamp.time, r: rv.timestamp.replica_id.0, rf: rv.replication_factor }
    }

    fn try_umap(v: &Value) -> Option<BTreeMap<u64, u64>> {
        v.as_object()?.iter().map(|(k, v)| Some((k.parse().ok()?, v.as_u64()?))).collect()
    }

    /// the counter / set variants from their serde_json form (`{"GCounter": {...}}` …)
    fn try_crdt(j: &Value) -> Option<MCrdt> {
        let c = j.as_object()?;
        let (tag, body) = c.iter().next()?;
        Some(match tag.as_str() {
            "GCounter" => MCrdt::G(Self::try_umap(&body["counts"])?),
            "PNCounter" => MCrdt::P(Self::try_umap(&body["positive"]["counts"])?, Self::try_umap(&body["negative"]["counts"])?),
            "GSet" => MCrdt::S(body["elements"].as_array()?.iter().map(|s| s.as_str().map(|x| x.to_string())).collect::<Option<_>>()?),
            "ORSet" => MCrdt::O(
                body["elements"]
                    .as_object()?
                    .iter()
                    .map(|(k, tags)| {
                        let ts: Option<BTreeSet<(u64, u64)>> = tags.as_array()?.iter().map(|t| Some((t["replica_id"].as_u64()?, t["sequence"].as_u64()?))).collect();
                        Some((k.clone(), ts?))
                    })
                    .collect::<Option<_>>()?,
                Self::try_umap(&body["next_sequence"])?,
            ),
            _ => return None,
        })
    }

    #[allow(dead_code)]
    pub fn from_json(j: &Value) -> MRv {
        fn umap(v: &Value) -> BTreeMap<u64, u64> {
            v.as_object()
                .expect("map")
                .iter()
                .map(|(k, v)| (k.parse().expect("u64 key"), v.as_u64().expect("u64")))
                .collect()
        }
        fn lww(v: &Value) -> MLww {
            MLww {
                v: if v["value"].is_null() {
                    None
                } else {
                    Some(
                        v["value"]
                            .as_array()
                            .expect("bytes")
                            .iter()
                            .map(|b| b.as_u64().unwrap() as u8)
                            .collect(),
                    )
                },
                t: v["timestamp"]["time"].as_u64().unwrap(),
                r: v["timestamp"]["replica_id"].as_u64().unwrap(),
                tomb: v["tombstone"].as_bool().unwrap(),
            }
        }
        let c = j["crdt"].as_object().expect("crdt enum");
        let (tag, body) = c.iter().next().expect("variant");
        let crdt = match tag.as_str() {
            "Lww" => MCrdt::Lww(lww(body)),
            "GCounter" => MCrdt::G(umap(&body["counts"])),
            "PNCounter" => MCrdt::P(
                umap(&body["positive"]["counts"]),
                umap(&body["negative"]["counts"]),
            ),
            "GSet" => MCrdt::S(
                body["elements"]
                    .as_array()
                    .unwrap()
                    .iter()
                    .map(|s| s.as_str().unwrap().to_string())
                    .collect(),
            ),
            "ORSet" => MCrdt::O(
                body["elements"]
                    .as_object()
                    .unwrap()
                    .iter()
                    .map(|(k, tags)| {
                        (
                            k.clone(),
                            tags.as_array()
                                .unwrap()
                                .iter()
                                .map(|t| {
                                    (
                                        t["replica_id"].as_u64().unwrap(),
                                        t["sequence"].as_u64().unwrap(),
                                    )
                                })
                                .collect(),
                        )
                    })
                    .collect(),
                umap(&body["next_sequence"]),
            ),
            "Hash" => MCrdt::H(
                body.as_object()
                    .unwrap()
                    .iter()
                    .map(|(k, v)| (k.clone(), lww(v)))
                    .collect(),
            ),
            x => panic!("unknown crdt variant {}", x),
        };
        MRv {
            crdt,
            vc: if j["vector_clock"].is_null() {
                None
            } else {
                Some(umap(&j["vector_clock"]["clocks"]))
            },
            exp: j["expiry_ms"].as_u64(),
            t: j["timestamp"]["time"].as_u64().unwrap(),
            r: j["timestamp"]["replica_id"].as_u64().unwrap(),
            rf: j["replication_factor"].as_u64().map(|x| x as u8),
        }
    }

    /// canonical text (same grammar and same key order as the Lean driver prints)
    pub fn show(&self) -> String {
        fn smap(m: &BTreeMap<u64, u64>) -> String {
            let mut s = m.len().to_string();
            for (k, v) in m {
                s.push_str(&format!(" {} {}", k, v));
            }
            s
        }
        fn slww(l: &MLww) -> String {
            format!(
                "{} {} {} {}",
                match &l.v {
                    None => "~".to_string(),
                    Some(b) => hex(b),
                },
                l.t,
                l.r,
                if l.tomb { 1 } else { 0 }
            )
        }
        fn sorted_keys<'a, I: Iterator<Item = &'a String>>(it: I) -> Vec<&'a String> {
            let mut v: Vec<&String> = it.collect();
            v.sort_by(|a, b| key_cmp(a, b));
            v
        }
        let crdt = match &self.crdt {
            MCrdt::Lww(l) => format!("L {}", slww(l)),
            MCrdt::G(m) => format!("G {}", smap(m)),
            MCrdt::P(p, n) => format!("P {} {}", smap(p), smap(n)),
            MCrdt::S(s) => {
                let mut o = format!("S {}", s.len());
                for k in sorted_keys(s.iter()) {
                    o.push(' ');
                    o.push_str(&hex(k.as_bytes()));
                }
                o
            }
            MCrdt::O(e, nx) => {
                let mut o = format!("O {}", e.len());
                for k in sorted_keys(e.keys()) {
                    let tags = &e[k];
                    o.push_str(&format!(" {} {}", hex(k.as_bytes()), tags.len()));
                    let mut codes: Vec<u128> = tags
                        .iter()
                        .map(|(r, s)| ((*r as u128) << 64) | (*s as u128))
                        .collect();
                    codes.sort();
                    for c in codes {
                        o.push_str(&format!(" {}", c));
                    }
                }
                o.push(' ');
                o.push_str(&smap(nx));
                o
            }
            MCrdt::H(h) => {
                let mut o = format!("H {}", h.len());
                for k in sorted_keys(h.keys()) {
                    o.push_str(&format!(" {} {}", hex(k.as_bytes()), slww(&h[k])));
                }
                o
            }
        };
        format!(
            "{} {} {} {} {} {}",
            crdt,
            match &self.vc {
                None => "-".to_string(),
                Some(m) => format!("V {}", smap(m)),
            },
            self.exp.map(|e| e.to_string()).unwrap_or("-".into()),
            self.t,
            self.r,
            self.rf.map(|e| e.to_string()).unwrap_or("-".into())
        )
    }

    /// the model's decidable `tieOk` (Props/C07.lean), recomputed on the Rust side so that the
    /// direct oracle knows which pairs the commutativity law is claimed for; the model's own
    /// answer is compared with this one by the correspondence.
    pub fn tie_ok(&self, o: &MRv) -> bool {
        match (&self.crdt, &o.crdt) {
            (MCrdt::Lww(x), MCrdt::Lww(y)) => (x.t, x.r) != (y.t, y.r) || x == y,
            (MCrdt::H(x), MCrdt::H(y)) => x.iter().all(|(k, a)| match y.get(k) {
                Some(b) => (a.t, a.r) != (b.t, b.r) || a == b,
                None => true,
            }),
            (a, b) => a.kind() == b.kind() || (self.t, self.r) != (o.t, o.r),
        }
    }

    /// canonical-form predicate of the model (`RV.WF`): only "no empty tag set" can fail for a
    /// value held in real HashMaps
    pub fn wf(&self) -> bool {
        match &self.crdt {
            MCrdt::O(e, _) => e.values().all(|t| !t.is_empty()),
            _ => true,
        }
    }
}

/// canonical text of a bare `CrdtValue` (the crdt part of `MRv::show`)
pub fn show_crdt(c: &CrdtValue) -> String {
    let rv = ReplicatedValue { crdt: c.clone(), vector_clock: None, expiry_ms: None, timestamp: LamportClock { time: 0, replica_id: ReplicaId(0) }, replication_factor: None };
    let s = MRv::from_real(&rv).show();
    s.strip_suffix(" - - 0 0 -").unwrap_or(&s).to_string()
}

pub fn smap_text(m: &BTreeMap<u64, u64>) -> String {
    let mut s = m.len().to_string();
    for (k, v) in m {
        s.push_str(&format!(" {} {}", k, v));
    }
    s
}

/// a real `VectorClock` from a map (the field is crate-private: through serde) and back
pub fn vclock_from(m: &BTreeMap<u64, u64>) -> Option<VectorClock> {
    serde_json::from_value::<VectorClock>(json!({"clocks": jmap(m)})).ok()
}

pub fn vclock_map(v: &VectorClock) -> Option<BTreeMap<u64, u64>> {
    let j = serde_json::to_value(v).ok()?;
    j["clocks"].as_object()?.iter().map(|(k, v)| Some((k.parse().ok()?, v.as_u64()?))).collect()
}

pub fn show_real(rv: &ReplicatedValue) -> String {
    MRv::from_real(rv).show()
}
