//! The manifest object byte for byte (model M4j, `lean/RedisVerif/Model/ManifestJson.lean`):
//! `serde_json::to_vec_pretty(&Manifest)` vs `ManifestJson.encode`, and
//! `serde_json::from_slice::<Manifest>` vs `ManifestJson.decode` on
//!  * EVERY single-bit flip of real encodings (op MJFLIPS: per flip rejected / accepted-same /
//!    accepted-different, plus a hash over the different values),
//!  * hand-made variants of the grammar (struct as array, any field order, unknown fields with
//!    nested values, duplicates, missing Option field, escapes in names and values, surrogates,
//!    invalid UTF-8, every number shape, whitespace, trailing characters / commas),
//!  * random multi-byte damage (replace / insert / delete).
//! Oracle (real code only): an accepted flip that yields a DIFFERENT manifest is the listed finding
//! C12:read-corruption-accepted:manifest:read-flip (the manifest has no checksum) — counted, and
//! its class (which byte of which token) recorded in the evidence.
use crate::enc::hex;
use crate::out::Out;
use crate::rng::Rng;
use redis_sim::streaming::{CheckpointInfo, Manifest, SegmentInfo};
use serde_json::json;

fn xhex(b: &[u8]) -> String {
    format!("x{}", hex(b).trim_start_matches('x'))
}

fn show_man(m: &Manifest) -> String {
    let chk = match &m.checkpoint {
        None => "-".to_string(),
        Some(c) => format!("{}:{}:{}:{}", xhex(c.key.as_bytes()), c.timestamp_ms, c.key_count, c.last_segment_id),
    };
    let segs: Vec<String> = m.segments.iter().map(|s| format!("{}:{}:{}:{}:{}:{}", s.id, xhex(s.key.as_bytes()), s.record_count, s.size_bytes, s.min_timestamp, s.max_timestamp)).collect();
    format!("v={} rid={} next={} chk={} segs=[{}]", m.version, m.replica_id, m.next_segment_id, chk, segs.join(","))
}

fn hash_text(s: &str) -> u64 {
    s.bytes().fold(7u64, |h, b| (h * 131 + b as u64) % 4294967296)
}

fn decode(bs: &[u8]) -> Option<Manifest> {
    serde_json::from_slice::<Manifest>(bs).ok()
}

fn dec_line(bs: &[u8]) -> String {
    match decode(bs) {
        Some(m) => format!("ok {}", show_man(&m)),
        None => "err".into(),
    }
}

fn gen_u64(rng: &mut Rng) -> u64 {
    match rng.below(8) {
        0 => 0,
        1 => rng.below(10),
        2 => 9 + rng.below(3),
        3 => u64::MAX,
        4 => u64::MAX - rng.below(3),
        5 => 1u64 << rng.below(64),
        _ => rng.below(100_000),
    }
}

fn gen_key(rng: &mut Rng) -> String {
    match rng.below(8) {
        0 => String::new(),
        1 => "p/segments/segment-00000001.seg".into(),
        2 => "quote\"back\\slash/".into(),
        3 => "ctl\u{1}\u{8}\t\n\r\u{c}\u{1f}\u{7f}".into(),
        4 => "é€😀\u{fffd}".into(),
        5 => "k".repeat(rng.range(1, 40) as usize),
        _ => format!("p/segments/segment-{:08}.seg", rng.below(100)),
    }
}

fn gen_manifest(rng: &mut Rng) -> Manifest {
    let n = match rng.below(4) { 0 => 0, 1 => 1, _ => rng.range(2, 4) };
    let segments = (0..n)
        .map(|_| SegmentInfo {
            id: gen_u64(rng),
            key: gen_key(rng),
            record_count: match rng.below(4) { 0 => 0, 1 => u32::MAX, _ => rng.below(1000) as u32 },
            size_bytes: gen_u64(rng),
            min_timestamp: gen_u64(rng),
            max_timestamp: gen_u64(rng),
        })
        .collect();
    let checkpoint = if rng.chance(1, 2) { None } else { Some(CheckpointInfo { key: gen_key(rng), timestamp_ms: gen_u64(rng), key_count: gen_u64(rng), last_segment_id: gen_u64(rng) }) };
    Manifest { version: gen_u64(rng), replica_id: gen_u64(rng), segments, checkpoint, next_segment_id: gen_u64(rng) }
}

fn enc_line(m: &Manifest) -> String {
    let chk = match &m.checkpoint {
        None => "-".to_string(),
        Some(c) => format!("{}:{}:{}:{}", xhex(c.key.as_bytes()), c.timestamp_ms, c.key_count, c.last_segment_id),
    };
    let mut l = format!("MJENC {} {} {} {} {}", m.version, m.replica_id, m.next_segment_id, chk, m.segments.len());
    for s in &m.segments {
        l.push_str(&format!(" {} {} {} {} {} {}", s.id, xhex(s.key.as_bytes()), s.record_count, s.size_bytes, s.min_timestamp, s.max_timestamp));
    }
    l
}

/// which token of the pretty encoding a byte offset falls into (for the evidence only)
fn token_class(bs: &[u8], i: usize) -> &'static str {
    let b = bs[i];
    // inside a string?  count unescaped quotes before i
    let mut in_str = false;
    let mut esc = false;
    let mut after_colon = false;
    for (j, &c) in bs.iter().enumerate() {
        if j == i {
            break;
        }
        if in_str {
            if esc { esc = false; } else if c == b'\\' { esc = true; } else if c == b'"' { in_str = false; }
        } else if c == b'"' {
            in_str = true;
        } else if c == b':' {
            after_colon = true;
        } else if c == b',' || c == b'{' || c == b'[' {
            after_colon = false;
        }
    }
    if in_str {
        if after_colon { "string-value" } else { "field-name" }
    } else if b.is_ascii_digit() {
        "number"
    } else if b == b' ' || b == b'\n' {
        "whitespace"
    } else if b == b'"' {
        "quote"
    } else if b"nul".contains(&b) {
        "null"
    } else {
        "structure"
    }
}

fn flips_case(out: &mut Out, m: &Manifest, tag: &str) {
    let bs = serde_json::to_vec_pretty(m).expect("serialise");
    out.op(enc_line(m), xhex(&bs));
    let base = decode(&bs);
    if base.as_ref() != Some(m) {
        out.violation("C12:manifest-json:roundtrip", "a manifest does not read back from its own serialisation", json!({"manifest": show_man(m)}));
    }
    let mut chars = String::with_capacity(bs.len() * 8);
    let mut h: u64 = 0;
    for i in 0..bs.len() {
        for bit in 0..8 {
            let mut f = bs.clone();
            f[i] ^= 1 << bit;
            match decode(&f) {
                None => chars.push('R'),
                Some(x) => {
                    if Some(&x) == base.as_ref() {
                        chars.push('S');
                        out.count(&format!("j:flip:accepted-same:{}", token_class(&bs, i)));
                    } else {
                        chars.push('D');
                        h = (h * 1000003 + hash_text(&show_man(&x))) % 4294967296;
                        out.count(&format!("j:flip:accepted-DIFFERENT:{}", token_class(&bs, i)));
                    }
                }
            }
        }
    }
    out.count_n("j:flip:rejected", chars.bytes().filter(|c| *c == b'R').count() as u64);
    out.op(format!("MJFLIPS {}", xhex(&bs)), format!("{} {}", chars, h));
    out.count(&format!("j:case:flips:{}", tag));
    out.case(&format!("flips:{}", show_man(m)), true);
}

fn rand_json_value(rng: &mut Rng, depth: u32) -> String {
    match if depth == 0 { rng.below(6) } else { rng.below(9) } {
        0 => "null".into(),
        1 => (*rng.pick(&["true", "false", "tru", "nul", "fals"])).into(),
        2 => (*rng.pick(&["0", "-0", "12", "-3", "1.5", "1e5", "1E+2", "0.0e-1", "01", "1.", ".5", "1e", "-", "18446744073709551616", "1e999", "--1", "+1"])).into(),
        3 => format!("\"{}\"", rng.pick(&["", "a", "\\n", "\\u0041", "\\ud83d\\ude00", "\\ud83d", "\\udc00", "\\x", "\\u12", "é", "tab\tinside"])),
        4 => "\"\u{1}\"".into(),
        5 => "[]".into(),
        6 => format!("[{}]", (0..rng.below(3)).map(|_| rand_json_value(rng, depth - 1)).collect::<Vec<_>>().join(if rng.chance(1, 8) { ",," } else { " , " })),
        7 => format!("{{{}}}", (0..rng.below(3)).map(|i| format!("\"k{}\" : {}", i, rand_json_value(rng, depth - 1))).collect::<Vec<_>>().join(",")),
        _ => format!("{}{}{}", "[".repeat(200), "", "]".repeat(200)),
    }
}

fn variants_case(out: &mut Out, rng: &mut Rng) {
    let m = gen_manifest(rng);
    let seg_obj = |s: &SegmentInfo, order: &[usize]| -> String {
        let f = [
            format!("\"id\":{}", s.id),
            format!("\"key\":{}", serde_json::to_string(&s.key).unwrap()),
            format!("\"record_count\":{}", s.record_count),
            format!("\"size_bytes\":{}", s.size_bytes),
            format!("\"min_timestamp\":{}", s.min_timestamp),
            format!("\"max_timestamp\":{}", s.max_timestamp),
        ];
        format!("{{{}}}", order.iter().map(|i| f[*i].clone()).collect::<Vec<_>>().join(","))
    };
    let seg_arr = |s: &SegmentInfo| format!("[{},{},{},{},{},{}]", s.id, serde_json::to_string(&s.key).unwrap(), s.record_count, s.size_bytes, s.min_timestamp, s.max_timestamp);
    let chk_txt = |c: &Option<CheckpointInfo>, arr: bool| match c {
        None => "null".to_string(),
        Some(c) => if arr { format!("[{},{},{},{}]", serde_json::to_string(&c.key).unwrap(), c.timestamp_ms, c.key_count, c.last_segment_id) } else { format!("{{\"last_segment_id\":{},\"key_count\":{},\"timestamp_ms\":{},\"key\":{}}}", c.last_segment_id, c.key_count, c.timestamp_ms, serde_json::to_string(&c.key).unwrap()) },
    };
    let segs_txt = |arr: bool, order: &[usize]| format!("[{}]", m.segments.iter().map(|s| if arr { seg_arr(s) } else { seg_obj(s, order) }).collect::<Vec<_>>().join(","));
    let mut texts: Vec<Vec<u8>> = Vec::new();
    let push = |texts: &mut Vec<Vec<u8>>, s: String| texts.push(s.into_bytes());
    let ws = *rng.pick(&["", " ", "\t", "\r\n", " \n\t\r "]);
    let unknown = format!("\"zz{}\"{}:{}{}", rng.below(3), ws, ws, rand_json_value(rng, 3));
    // compact form, fields reordered, nested structs as arrays / objects, whitespace everywhere
    push(&mut texts, String::from_utf8(serde_json::to_vec(&m).unwrap()).unwrap());
    push(&mut texts, format!("{ws}{{{ws}\"next_segment_id\"{ws}:{ws}{}{ws},{ws}\"segments\":{},\"checkpoint\":{},\"replica_id\":{},\"version\":{}{ws}}}{ws}", m.next_segment_id, segs_txt(false, &[5, 4, 3, 2, 1, 0]), chk_txt(&m.checkpoint, false), m.replica_id, m.version));
    // the whole manifest as an array, nested ones too
    push(&mut texts, format!("[{},{},{},{},{}]", m.version, m.replica_id, segs_txt(true, &[]), chk_txt(&m.checkpoint, true), m.next_segment_id));
    push(&mut texts, format!("[{},{},{},{}]", m.version, m.replica_id, segs_txt(true, &[]), chk_txt(&m.checkpoint, true)));
    push(&mut texts, format!("[{},{},{},{},{},0]", m.version, m.replica_id, segs_txt(true, &[]), chk_txt(&m.checkpoint, true), m.next_segment_id));
    push(&mut texts, format!("[{},{},{},{},{},]", m.version, m.replica_id, segs_txt(true, &[]), chk_txt(&m.checkpoint, true), m.next_segment_id));
    // unknown fields (skipped with a syntax check), first / middle / last
    push(&mut texts, format!("{{{},\"version\":{},\"replica_id\":{},\"segments\":{},\"next_segment_id\":{}}}", unknown, m.version, m.replica_id, segs_txt(false, &[0, 1, 2, 3, 4, 5]), m.next_segment_id));
    push(&mut texts, format!("{{\"version\":{},\"replica_id\":{},{},\"segments\":{},\"next_segment_id\":{},\"checkpoint\":{}}}", m.version, m.replica_id, unknown, segs_txt(false, &[0, 1, 2, 3, 4, 5]), m.next_segment_id, chk_txt(&m.checkpoint, false)));
    // missing / duplicate fields
    push(&mut texts, format!("{{\"version\":{},\"segments\":[],\"next_segment_id\":0}}", m.version));
    push(&mut texts, format!("{{\"version\":{},\"version\":{},\"replica_id\":1,\"segments\":[],\"next_segment_id\":0}}", m.version, m.version));
    push(&mut texts, format!("{{\"version\":1,\"replica_id\":1,\"segments\":[],\"checkpoint\":null,\"checkpoint\":null,\"next_segment_id\":0}}"));
    // escapes in field names and values
    push(&mut texts, "{\"\\u0076ersion\":1,\"replica_id\":2,\"segments\":[{\"\\u0069d\":3,\"key\":\"\\ud83d\\ude00\\u00e9\\/\\b\",\"record_count\":1,\"size_bytes\":2,\"min_timestamp\":3,\"max_timestamp\":4}],\"next_segment_id\":5}".to_string());
    for bad in ["\\ud83d", "\\udc00", "\\ud83d\\u0041", "\\x41", "\\u12", "\\ud83dx", "\\"] {
        push(&mut texts, format!("{{\"version\":1,\"replica_id\":2,\"segments\":[],\"checkpoint\":{{\"key\":\"{}\",\"timestamp_ms\":1,\"key_count\":1,\"last_segment_id\":1}},\"next_segment_id\":5}}", bad));
    }
    // numbers
    for num in ["0", "00", "01", "-0", "-1", "1.0", "1e0", "1E2", "18446744073709551615", "18446744073709551616", "99999999999999999999999999", "+1", "", "0x10", "1 2", "1,", " 7 "] {
        push(&mut texts, format!("{{\"version\":{},\"replica_id\":2,\"segments\":[],\"next_segment_id\":5}}", num));
    }
    for num in ["4294967295", "4294967296", "-1", "0"] {
        push(&mut texts, format!("{{\"version\":1,\"replica_id\":2,\"segments\":[{{\"id\":0,\"key\":\"k\",\"record_count\":{},\"size_bytes\":2,\"min_timestamp\":3,\"max_timestamp\":4}}],\"next_segment_id\":5}}", num));
    }
    // wrong types, trailing things, empty input
    for t in ["", " ", "null", "{}", "[]", "{\"version\":\"1\",\"replica_id\":2,\"segments\":[],\"next_segment_id\":5}", "{\"version\":1,\"replica_id\":2,\"segments\":{},\"next_segment_id\":5}", "{\"version\":1,\"replica_id\":2,\"segments\":[],\"next_segment_id\":5}x", "{\"version\":1,\"replica_id\":2,\"segments\":[],\"next_segment_id\":5,}", "{\"version\":1,\"replica_id\":2,\"segments\":[,],\"next_segment_id\":5}", "{\"version\":1,\"replica_id\":2,\"segments\":[null],\"next_segment_id\":5}", "{\"version\":1,\"replica_id\":2,\"segments\":[],\"checkpoint\":nul,\"next_segment_id\":5}", "{\"version\":1 \"replica_id\":2,\"segments\":[],\"next_segment_id\":5}", "{version:1,\"replica_id\":2,\"segments\":[],\"next_segment_id\":5}", "\u{feff}{\"version\":1,\"replica_id\":2,\"segments\":[],\"next_segment_id\":5}"] {
        push(&mut texts, t.to_string());
    }
    // invalid UTF-8: in a field name, in a string value, inside a skipped value
    let mut bad1 = b"{\"version\":1,\"replica_id\":2,\"segments\":[],\"next_segment_id\":5,\"z".to_vec();
    bad1.extend_from_slice(&[0xff, b'"', b':', b'1', b'}']);
    texts.push(bad1);
    let mut bad2 = b"{\"version\":1,\"replica_id\":2,\"segments\":[],\"next_segment_id\":5,\"z\":\"".to_vec();
    bad2.extend_from_slice(&[0xc3, 0x28, b'"', b'}']);
    texts.push(bad2);
    let mut bad3 = b"{\"version\":1,\"replica_id\":2,\"segments\":[],\"next_segment_id\":5,\"checkpoint\":{\"key\":\"".to_vec();
    bad3.extend_from_slice(&[0xed, 0xa0, 0x80]);
    bad3.extend_from_slice(b"\",\"timestamp_ms\":1,\"key_count\":1,\"last_segment_id\":1}}");
    texts.push(bad3);
    // random multi-byte damage of the pretty encoding
    let pretty = serde_json::to_vec_pretty(&m).unwrap();
    for _ in 0..12 {
        let mut d = pretty.clone();
        for _ in 0..rng.range(1, 3) {
            if d.is_empty() {
                break;
            }
            let i = rng.below(d.len() as u64) as usize;
            match rng.below(4) {
                0 => d[i] = rng.below(256) as u8,
                1 => { d.remove(i); }
                2 => d.insert(i, *rng.pick(b" \t\n,:\"{}[]0159-.eEnu\\x")),
                _ => d[i] = *rng.pick(b"0123456789"),
            }
        }
        texts.push(d);
    }
    let mut accepted = 0;
    for t in &texts {
        let ans = dec_line(t);
        if ans != "err" {
            accepted += 1;
        }
        out.op(format!("MJDEC {}", xhex(t)), ans);
    }
    out.count_n("j:variant:accepted", accepted);
    out.count_n("j:variant:rejected", texts.len() as u64 - accepted);
    out.count("j:case:variants");
    out.case(&format!("variants:{}", show_man(&m)), true);
}

/// The face of the listed finding that `C12.checkpoint_name_damage_drops_checkpoint` proves for every
/// manifest, on the REAL recovery: a store with a checkpoint (key `old`) and one later segment
/// (key `new`); bit 0 of the first letter of the NAME "checkpoint" in the stored manifest is flipped
/// (damage at rest, a read that returns it — the same to the reader); `RecoveryManager::recover`
/// returns Ok without the checkpoint: `old` is gone, no error.
fn checkpoint_name_flip_on_recovery(out: &mut Out) {
    use crate::c11::{chk_key, fold_recovered, seg_key, PREFIX};
    use crate::c12::{lww_upd, FaultStore};
    use redis_sim::replication::lattice::ReplicaId;
    use redis_sim::replication::state::ReplicationDelta;
    use redis_sim::streaming::{CheckpointWriter, Compression, ManifestManager, ObjectStore, RecoveryManager, SegmentWriter};
    let rt = tokio::runtime::Builder::new_current_thread().enable_all().build().unwrap();
    rt.block_on(async {
        let store = FaultStore::new(&[]);
        let old = lww_upd("old", b"covered-by-the-checkpoint", 5, 1, false);
        let new = lww_upd("new", b"in-a-later-segment", 9, 1, false);
        let mut state = std::collections::HashMap::new();
        state.insert(old.0.clone(), old.1.clone());
        let chk = CheckpointWriter::new(Compression::None).write(state, 1000, 0).unwrap();
        store.put(&chk_key(1000), &chk).await.unwrap();
        let mut w = SegmentWriter::new(Compression::None);
        w.write_delta(&ReplicationDelta::new(new.0.clone(), new.1.clone(), ReplicaId::new(1))).unwrap();
        let seg = w.finish().unwrap();
        store.put(&seg_key(1), &seg).await.unwrap();
        let mut m = Manifest::new(1);
        m.add_segment(SegmentInfo { id: 1, key: seg_key(1), record_count: 1, size_bytes: seg.len() as u64, min_timestamp: 9, max_timestamp: 9 });
        m.checkpoint = Some(CheckpointInfo { key: chk_key(1000), timestamp_ms: 1000, key_count: 1, last_segment_id: 0 });
        ManifestManager::new(store.clone(), PREFIX).save(&m).await.unwrap();
        let clean = RecoveryManager::new(store.clone(), PREFIX, 1).recover().await;
        let clean_keys = clean.as_ref().map(|r| fold_recovered(r).len()).unwrap_or(0);
        // damage: bit 0 of the `c` of "checkpoint"
        let mkey = format!("{}/manifest.json", PREFIX);
        let mut body = store.image().get(&mkey).cloned().unwrap();
        let pos = body.windows(12).position(|w| w == b"\"checkpoint\"").map(|p| p + 1);
        match pos {
            None => out.violation("C12:manifest-json:checkpoint-name-not-found", "the stored manifest does not contain the member name \"checkpoint\"", json!(null)),
            Some(p) => {
                body[p] ^= 1;
                store.put(&mkey, &body).await.unwrap();
                let r = RecoveryManager::new(store.clone(), PREFIX, 1).recover().await;
                match r {
                    Ok(rs) => {
                        let keys = fold_recovered(&rs).len();
                        if rs.checkpoint_state.is_none() && keys < clean_keys {
                            out.count("j:recovery:checkpoint-name-flip:checkpoint-silently-ignored");
                            out.violation("C12:read-corruption-accepted:manifest:read-flip", "one flipped bit in the member NAME \"checkpoint\" of the manifest: recover() returns Ok without the checkpoint (the reader skips the unknown field, the Option defaults to None): every key covered only by the checkpoint is gone, no error",
                                json!({"clean_keys": clean_keys, "keys_after_flip": keys, "flipped_byte_offset": p}));
                        } else {
                            out.count("j:recovery:checkpoint-name-flip:detected-or-harmless");
                        }
                    }
                    Err(_) => out.count("j:recovery:checkpoint-name-flip:rejected"),
                }
            }
        }
    });
    out.case("checkpoint-name-flip-on-recovery", true);
}

pub fn run_all(out: &mut Out, rng: &mut Rng, n: u64) {
    checkpoint_name_flip_on_recovery(out);
    // a manifest as the workloads produce it: runs first on every run
    let typical = Manifest {
        version: 3,
        replica_id: 1,
        segments: vec![
            SegmentInfo { id: 0, key: "p/segments/segment-00000000.seg".into(), record_count: 2, size_bytes: 165, min_timestamp: 5, max_timestamp: 6 },
            SegmentInfo { id: 1, key: "p/segments/segment-00000001.seg".into(), record_count: 1, size_bytes: 98, min_timestamp: 7, max_timestamp: 7 },
        ],
        checkpoint: None,
        next_segment_id: 2,
    };
    flips_case(out, &typical, "typical");
    for i in 0..n {
        let mut r = rng.fork();
        if i % 3 == 0 {
            let m = gen_manifest(&mut r);
            flips_case(out, &m, "generated");
        }
        variants_case(out, &mut r);
    }
}
