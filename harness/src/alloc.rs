//! Global allocator of the harness binary: the system allocator plus
//!  * a log of every single allocation request of at least `BIG` bytes made while a measuring
//!    window is open (C15: pre-allocation driven by an unvalidated length field), and
//!  * a deterministic stand-in for "the machine has no more memory": while `LIMIT_ON` is set,
//!    a single request of at least `LIMIT` bytes is refused (null) — which Rust turns into
//!    `handle_alloc_error` = abort.  Only child processes of the C15 harness switch it on.
use std::alloc::{GlobalAlloc, Layout, System};
use std::sync::atomic::{AtomicBool, AtomicUsize, Ordering::SeqCst};

pub const BIG: usize = 1 << 20;
pub const LIMIT: usize = 1 << 30;
const SLOTS: usize = 32;

pub struct Counting;

static WINDOW: AtomicBool = AtomicBool::new(false);
static LIMIT_ON: AtomicBool = AtomicBool::new(false);
static NBIG: AtomicUsize = AtomicUsize::new(0);
static MAXREQ: AtomicUsize = AtomicUsize::new(0);
#[allow(clippy::declare_interior_mutable_const)]
const Z: AtomicUsize = AtomicUsize::new(0);
static BIGS: [AtomicUsize; SLOTS] = [Z; SLOTS];

#[inline]
fn note(size: usize) -> bool {
    if WINDOW.load(SeqCst) {
        MAXREQ.fetch_max(size, SeqCst);
        if size >= BIG {
            let i = NBIG.fetch_add(1, SeqCst);
            if i < SLOTS {
                BIGS[i].store(size, SeqCst);
            }
        }
    }
    !(LIMIT_ON.load(SeqCst) && size >= LIMIT)
}

unsafe impl GlobalAlloc for Counting {
    unsafe fn alloc(&self, l: Layout) -> *mut u8 {
        if note(l.size()) {
            System.alloc(l)
        } else {
            std::ptr::null_mut()
        }
    }
    unsafe fn dealloc(&self, p: *mut u8, l: Layout) {
        System.dealloc(p, l)
    }
    unsafe fn alloc_zeroed(&self, l: Layout) -> *mut u8 {
        if note(l.size()) {
            System.alloc_zeroed(l)
        } else {
            std::ptr::null_mut()
        }
    }
    unsafe fn realloc(&self, p: *mut u8, l: Layout, new_size: usize) -> *mut u8 {
        if note(new_size) {
            System.realloc(p, l, new_size)
        } else {
            std::ptr::null_mut()
        }
    }
}

pub fn limit_on() {
    LIMIT_ON.store(true, SeqCst);
}

/// open a measuring window (single-threaded use)
pub fn window_open() {
    NBIG.store(0, SeqCst);
    MAXREQ.store(0, SeqCst);
    WINDOW.store(true, SeqCst);
}

/// close the window: (requests ≥ BIG in order, largest single request)
pub fn window_close() -> (Vec<usize>, usize) {
    WINDOW.store(false, SeqCst);
    let n = NBIG.load(SeqCst).min(SLOTS);
    ((0..n).map(|i| BIGS[i].load(SeqCst)).collect(), MAXREQ.load(SeqCst))
}
