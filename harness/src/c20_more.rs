//! C20 — further harness families and entry points (session 3); the framework (children, oracles,
//! `RUN` lines) is c20.rs.  Everything here was found by the source-derived entry-point audit of
//! c20_src.rs (`C20:coverage:entry-not-driven:*`): public simulation entry points of the tree that
//! no C20 family ever ran twice.
//!
//! * `batch`            — every `run_*_batch` / `BatchRunner` / `summarize_*`: the i-th result of a
//!                        batch must be the result of a single run of seed `start + i` (a failure
//!                        the batch reports is reproducible from the seed alone), and the batch
//!                        must agree across processes.  EXPLORED.
//! * `dst-api`          — the public API of `DSTSimulation` and `CrashSimulator` that "subclasses"
//!                        use (`new`, `with_nodes`, `random_running_node`, `maybe_crash_node`,
//!                        `crash_node`, `start_recovery`, `advance_time`, `record_operation`,
//!                        `checkpoint`, `simulate_state_loss`, …) driven by a generated scenario.  EXPLORED.
//! * `scenario-timing`  — `ScenarioBuilder::{run, run_with_eviction}` / `SimulationHarness`: the
//!                        invoke / complete time of every operation is PREDICTED by the Lean model
//!                        (`SimMore.runScenario`); the replies are compared across processes.
//! * `streaming-workload`, `compaction-workload` — `StreamingWorkload` / `CompactionWorkload`
//!                        (`next_operation`, `make_*_delta`, `next_timestamp`, `record_*`): the
//!                        operation sequence is PREDICTED (`SimMore.runWorkload`) and must be the
//!                        one the real harness records in its history.
//! * `connection-gen`   — `SimulatedConnection` / `SimulatedReadBuffer` / `PipelineSimulator::with_sizes`
//!                        with generated pipelines, partial reads, partial arrivals.  EXPLORED.
//! * `multi-node-api`   — remaining `MultiNodeSimulation` / `SimulatedNode` entry points
//!                        (`with_auto_anti_entropy`, `can_communicate`, `count_gossip_messages`,
//!                        `get_all_deltas`).  EXPLORED.
//!
//! Child-side oracles: a trace line `ORACLE-FAIL <signature suffix> <text>` makes the parent report
//! `C20:<signature suffix>`; a raw line `order-of:<accessor> …` that differs between processes is
//! reported as `C20:accessor-in-map-order:<family>:<accessor>`.
use crate::rng::Rng;
use redis_sim::buggify::{self, faults, FaultConfig};
use redis_sim::redis::{Command, SDS};
use redis_sim::simulator::dst::{DSTConfig, DSTSimulation};
use redis_sim::simulator::{
    BatchRunner, CrashConfig, CrashReason, CrashSimulator, HostId, MultiNodeSimulation, PipelineSimulator, ScenarioBuilder, SimulatedConnection,
    SimulatedReadBuffer, SimulationHarness, VirtualTime,
};

fn sorted_map<'a, M>(m: &'a M) -> String
where
    &'a M: IntoIterator<Item = (&'a String, &'a u64)>,
{
    // whatever map type the counters live in (HashMap today): only its (key, count) pairs are used
    let mut v: Vec<(&String, &u64)> = m.into_iter().collect();
    v.sort();
    v.iter().map(|(k, n)| format!("{}={}", k, n)).collect::<Vec<_>>().join(",")
}

// ------------------------------------------------------------------------------------------
// batch
// ------------------------------------------------------------------------------------------

pub const BATCH_PRESETS: &[&str] = &[
    "with-seed", "gcounter", "pncounter", "orset", "vclock", "executor", "list", "set", "hash", "sorted-set", "transaction", "wal", "redis-dst", "runner", "streaming", "compaction",
];

fn crdt_line(r: &redis_sim::replication::crdt_dst::CRDTDSTResult) -> String {
    let mut per: Vec<(usize, u64)> = r.ops_per_replica.iter().map(|(k, v)| (*k, *v)).collect();
    per.sort();
    format!("{} per={:?} viol={:?} success={}", r.summary(), per, r.invariant_violations, r.is_success())
}

fn sim_result_line(r: &redis_sim::simulator::SimulationResult) -> String {
    format!("{} by_type={} history={} success={}", r.summary(), sorted_map(&r.operations_by_type), r.operation_history.len(), r.is_success())
}

/// `batch[i] …` / `single[i] …` line pairs + the summary text; a mismatch is an `ORACLE-FAIL`
pub fn batch(preset: &str, seed: u64, ops: usize, lines: &mut Vec<String>, raw: &mut Vec<String>) -> bool {
    use redis_sim::redis::*;
    use redis_sim::replication::crdt_dst::*;
    let n = 3usize;
    let mut b: Vec<String> = Vec::new();
    let mut s: Vec<String> = Vec::new();
    macro_rules! typed {
        ($batch:ident, $summ:path, $H:ident, $C:ident, $preset:ident) => {{
            let rs = $batch(seed, n, ops, $C::$preset);
            for r in &rs {
                b.push(format!("{:?}", r));
            }
            raw.push(format!("summary {}", $summ(&rs)));
            for i in 0..n {
                let mut h = $H::new($C::$preset(seed + i as u64));
                h.run(ops);
                s.push(format!("{:?}", h.result()));
            }
        }};
    }
    macro_rules! crdt {
        ($batch:ident, $new:path) => {{
            let rs = $batch(seed, n, ops, CRDTDSTConfig::moderate);
            for r in &rs {
                b.push(crdt_line(r));
            }
            raw.push(format!("summary {}", redis_sim::replication::crdt_dst::summarize_batch(&rs)));
            for i in 0..n {
                let mut h = $new(CRDTDSTConfig::moderate(seed + i as u64));
                h.run(ops);
                h.sync_all();
                h.check_convergence();
                s.push(crdt_line(&h.into_result()));
            }
        }};
    }
    macro_rules! with_seed {
        ($ws:path, $new:path, $cn:path) => {{
            // `with_seed(s)` is `new(Config::new(s))`
            let mut a = $ws(seed);
            a.run(ops);
            let mut c = $new($cn(seed));
            c.run(ops);
            b.push(format!("{:?}", a.result()));
            s.push(format!("{:?}", c.result()));
        }};
    }
    match preset {
        "with-seed" => {
            with_seed!(ExecutorDSTHarness::with_seed, ExecutorDSTHarness::new, ExecutorDSTConfig::new);
            with_seed!(ListDSTHarness::with_seed, ListDSTHarness::new, ListDSTConfig::new);
            with_seed!(SetDSTHarness::with_seed, SetDSTHarness::new, SetDSTConfig::new);
            with_seed!(HashDSTHarness::with_seed, HashDSTHarness::new, HashDSTConfig::new);
            with_seed!(SortedSetDSTHarness::with_seed, SortedSetDSTHarness::new, SortedSetDSTConfig::new);
            with_seed!(TransactionDSTHarness::with_seed, TransactionDSTHarness::new, TransactionDSTConfig::new);
        }
        "gcounter" => crdt!(run_gcounter_batch, GCounterDSTHarness::new),
        "pncounter" => crdt!(run_pncounter_batch, PNCounterDSTHarness::new),
        "orset" => crdt!(run_orset_batch, ORSetDSTHarness::new),
        "vclock" => crdt!(run_vectorclock_batch, VectorClockDSTHarness::new),
        "executor" => typed!(run_executor_batch, redis_sim::redis::executor_dst::summarize_executor_batch, ExecutorDSTHarness, ExecutorDSTConfig, chaos),
        "list" => typed!(run_list_batch, redis_sim::redis::list_dst::summarize_list_batch, ListDSTHarness, ListDSTConfig, high_churn),
        "set" => typed!(run_set_batch, redis_sim::redis::set_dst::summarize_set_batch, SetDSTHarness, SetDSTConfig, high_churn),
        "hash" => typed!(run_hash_batch, redis_sim::redis::hash_dst::summarize_hash_batch, HashDSTHarness, HashDSTConfig, high_churn),
        "sorted-set" => typed!(run_sorted_set_batch, redis_sim::redis::sorted_set_dst::summarize_batch, SortedSetDSTHarness, SortedSetDSTConfig, small_keyspace),
        "transaction" => typed!(run_transaction_batch, redis_sim::redis::transaction_dst::summarize_transaction_batch, TransactionDSTHarness, TransactionDSTConfig, high_conflict),
        "wal" => {
            use redis_sim::streaming::wal_dst::{run_wal_dst_batch, summarize_wal_dst_batch, WalDSTConfig, WalDSTHarness};
            let seeds: Vec<u64> = (0..n as u64).map(|i| seed + i).collect();
            let rs = run_wal_dst_batch(seed..seed + n as u64, WalDSTConfig::chaos());
            for r in &rs {
                b.push(format!("{:?}", r));
            }
            raw.push(format!("summary {}", summarize_wal_dst_batch(&rs)));
            for sd in &seeds {
                s.push(format!("{:?}", WalDSTHarness::new(*sd, WalDSTConfig::chaos()).run()));
            }
        }
        "redis-dst" => {
            use redis_sim::simulator::dst_integration::{run_redis_dst_batch, RedisDSTSimulation};
            let st = run_redis_dst_batch(seed, n, ops, FaultConfig::chaos());
            // BatchStats aggregates: compare with the sums of the single runs
            b.push(format!("{:?}", st));
            let (mut o, mut c, mut r, mut failed) = (0u64, 0u64, 0u64, Vec::new());
            for i in 0..n {
                let sd = seed + i as u64;
                buggify::reset_stats();
                buggify::set_config(FaultConfig::chaos());
                let mut sim = RedisDSTSimulation::new(sd, 5).with_faults(FaultConfig::chaos());
                let res = sim.run(ops);
                o += res.total_operations;
                c += res.crashes;
                r += res.recoveries;
                if !res.is_success() {
                    failed.push(sd);
                }
            }
            s.push(format!("BatchStats {{ base_seed: {}, total_runs: {}, total_operations: {}, total_crashes: {}, total_recoveries: {}, failed_seeds: {:?} }}", seed, n, o, c, r, failed));
            raw.push(format!("summary {} all_passed={}", st.summary(), st.all_passed()));
        }
        "runner" => {
            // BatchRunner: run_default and run_sequential with a per-run hook that uses the public API
            let tmpl = DSTConfig::chaos(0).with_nodes(4);
            let br = BatchRunner::new(seed, n).with_config(tmpl.clone());
            let d = br.run_default(ops);
            b.push(format!("default {:?}", d));
            let q = br.run_sequential(ops, |sim| {
                sim.crash_node(1, CrashReason::PowerFailure);
                let _ = sim.random_running_node();
            });
            b.push(format!("sequential {:?}", q));
            raw.push(format!("summary {} | {} all_passed={}", d.summary(), q.summary(), d.all_passed()));
            let (mut o, mut c, mut r) = (0u64, 0u64, 0u64);
            let (mut o2, mut c2, mut r2) = (0u64, 0u64, 0u64);
            for i in 0..n {
                let cfg = DSTConfig { seed: seed + i as u64, ..tmpl.clone() };
                let mut sim = DSTSimulation::with_config(cfg.clone());
                let res = sim.run_operations(ops);
                o += res.total_operations;
                c += res.crashes;
                r += res.recoveries;
                let mut sim = DSTSimulation::with_config(cfg);
                sim.crash_node(1, CrashReason::PowerFailure);
                let _ = sim.random_running_node();
                let res = sim.run_operations(ops);
                o2 += res.total_operations;
                c2 += res.crashes;
                r2 += res.recoveries;
            }
            let f = |o: u64, c: u64, r: u64| format!("BatchResult {{ base_seed: {}, total_runs: {}, successful_runs: {}, failed_runs: 0, failed_seeds: [], total_operations: {}, total_crashes: {}, total_recoveries: {} }}", seed, n, n, o, c, r);
            s.push(format!("default {}", f(o, c, r)));
            s.push(format!("sequential {}", f(o2, c2, r2)));
        }
        "streaming" => {
            use redis_sim::streaming::dst::{run_dst_batch, summarize_batch, StreamingDSTConfig, StreamingDSTHarness};
            let cfg = StreamingDSTConfig::chaos(0);
            crate::c20::paused_runtime().block_on(async {
                let rs = run_dst_batch(seed, n, ops, StreamingDSTConfig::chaos).await;
                for r in &rs {
                    b.push(format!("{:?}", r));
                }
                raw.push(format!("summary {}", summarize_batch(&rs)));
                for i in 0..n {
                    let mut c = cfg.clone();
                    c.seed = seed + i as u64;
                    let mut h = StreamingDSTHarness::new(c).await;
                    h.run(ops).await;
                    h.check_invariants().await;
                    s.push(format!("{:?}", h.into_result()));
                }
            });
        }
        "compaction" => {
            use redis_sim::streaming::compaction_dst::{run_compaction_dst_batch, summarize_compaction_batch, CompactionDSTConfig, CompactionDSTHarness};
            let cfg = CompactionDSTConfig::chaos(0);
            crate::c20::paused_runtime().block_on(async {
                let rs = run_compaction_dst_batch(seed, n, ops, CompactionDSTConfig::chaos).await;
                for r in &rs {
                    b.push(format!("{:?}", r));
                }
                raw.push(format!("summary {}", summarize_compaction_batch(&rs)));
                for i in 0..n {
                    let mut c = cfg.clone();
                    c.seed = seed + i as u64;
                    let mut h = CompactionDSTHarness::new(c).await;
                    h.run(ops).await;
                    h.check_invariants().await;
                    s.push(format!("{:?}", h.into_result()));
                }
            });
        }
        _ => return false,
    }
    for (i, l) in b.iter().enumerate() {
        lines.push(format!("batch[{}] {}", i, l));
    }
    if b.len() != s.len() {
        lines.push(format!("ORACLE-FAIL batch-differs-from-single-run:{} the batch returned {} results, {} single runs were made", preset, b.len(), s.len()));
    }
    for (i, (x, y)) in b.iter().zip(s.iter()).enumerate() {
        if x != y {
            lines.push(format!("ORACLE-FAIL batch-differs-from-single-run:{} element {} of the batch (seed {}) is not what a single run of that seed gives | batch: {} | single: {}", preset, i, seed + i as u64, x.chars().take(300).collect::<String>(), y.chars().take(300).collect::<String>()));
        }
    }
    true
}

// ------------------------------------------------------------------------------------------
// dst-api
// ------------------------------------------------------------------------------------------

/// the generated API scenario of `dst-api sim`: (variant, nodes, crash probability of variant 0, ops as (code, a, b)).
/// codes: 0 random_running_node, 1 maybe_crash_node a, 2 crash_node a (reason b), 3 start_recovery a, 4 advance_time a,
/// 5 step, 6 record_operation (kind a, key b), 7 rng().gen_range(0, 1000), 8 context().local_time(a)
pub fn dst_api_script(seed: u64, steps: usize) -> Option<(u8, usize, f64, Vec<(u8, u64, u64)>)> {
    let mut r = Rng::new(seed ^ 0xD5A);
    let nodes = 2 + r.below(6) as usize;
    let (variant, p) = if r.chance(1, 2) { (0u8, *r.pick(&[0.0, 0.05, 0.3, 1.0])) } else { (1u8, 0.0) };
    let n = nodes as u64;
    let mut ops = Vec::new();
    for _ in 0..steps {
        let what = r.below(100);
        ops.push(if what < 15 { (0, 0, 0) }
            else if what < 30 { (1, r.below(n), 0) }
            else if what < 38 { let i = r.below(n); (2, i, r.below(3)) }
            else if what < 50 { (3, r.below(n), 0) }
            else if what < 62 { (4, r.below(200), 0) }
            else if what < 80 { (5, 0, 0) }
            else if what < 90 { let k = r.below(2); (6, k, r.below(4)) }
            else if what < 95 { (7, 0, 0) }
            else { (8, r.below(n), 0) });
    }
    Some((variant, nodes, p, ops))
}

pub fn dst_api(preset: &str, seed: u64, steps: usize, lines: &mut Vec<String>, raw: &mut Vec<String>) -> bool {
    use redis_sim::simulator::crash::{OperationType as CrashOp, PendingOperation};
    use redis_sim::simulator::dst::{OperationResult, OperationType, RecordedOperation};
    let mut r = Rng::new(seed ^ 0xD5A);
    match preset {
        // DSTSimulation's public API the way a "subclass" (RedisDSTSimulation) uses it
        "sim" => {
            let Some((variant, nodes, p, script)) = dst_api_script(seed, steps) else { return false };
            let mut sim = if variant == 0 {
                let mut fc = FaultConfig::new();
                fc.set(faults::process::CRASH, p);
                DSTSimulation::new(seed).with_nodes(nodes).with_faults(fc)
            } else {
                DSTSimulation::with_config(DSTConfig::chaos(seed).with_nodes(nodes).with_crash_config(CrashConfig { min_recovery_time_ms: 5, max_recovery_time_ms: 50, ..CrashConfig::default() }))
            };
            let n = sim.config().node_count;
            raw.push(format!("shape nodes={} skew={}", n, sim.config().enable_clock_skew));
            for (k, (code, a, b)) in script.iter().enumerate() {
                let i = *a as usize;
                let l = match code {
                    0 => format!("random_running_node {:?}", sim.random_running_node()),
                    1 => format!("maybe_crash_node {} {}", i, sim.maybe_crash_node(i)),
                    2 => {
                        sim.crash_node(i, [CrashReason::PowerFailure, CrashReason::OutOfMemory, CrashReason::NetworkIsolation][*b as usize].clone());
                        format!("crash_node {}", i)
                    }
                    3 => {
                        let had = sim.start_recovery(i).is_some();
                        format!("start_recovery {} checkpoint={}", i, had)
                    }
                    4 => {
                        sim.advance_time(*a);
                        format!("advance_time {}", a)
                    }
                    5 => {
                        sim.step();
                        "step".to_string()
                    }
                    6 => {
                        let id = sim.next_op_id();
                        let node = sim.random_running_node();
                        let t = sim.current_time();
                        sim.record_operation(RecordedOperation { id, node_id: node.unwrap_or(0), op_type: if *a == 0 { OperationType::Write } else { OperationType::CompareAndSwap }, key: format!("k{}", b),
                            value: None, start_time: t, end_time: Some(t), result: if node.is_some() { OperationResult::Success(None) } else { OperationResult::Timeout } });
                        format!("record_operation id={} node={:?}", id, node)
                    }
                    7 => format!("rng {}", sim.rng().gen_range_pub(0, 1000)),
                    _ => {
                        let local = sim.context().local_time(redis_sim::io::simulation::NodeId(i)).as_millis();
                        format!("local_time {} {} ctx_now={}", i, local, sim.context().now().as_millis())
                    }
                };
                let st: Vec<String> = (0..n).map(|i| if sim.is_node_running(i) { "R".to_string() } else if sim.crash_simulator().is_crashed(HostId(i)) { "C".to_string() } else if sim.crash_simulator().is_recovering(HostId(i)) { "V".to_string() } else { "?".to_string() }).collect();
                lines.push(format!("{} {} now={} {} recovering={:?}", k + 1, l, sim.current_time().as_millis(), st.join(""), sim.crash_simulator().recovering_nodes().iter().map(|h| h.0).collect::<Vec<_>>()));
            }
            let res = sim.finalize().clone();
            lines.push(format!("result {} by_type={} history={:?}", res.summary(), sorted_map(&res.operations_by_type), res.operation_history.iter().map(|o| (o.id, o.node_id)).collect::<Vec<_>>()));
            let cs = sim.crash_simulator().stats();
            lines.push(format!("crash-stats crashes={} recoveries={} by_reason={} loss={}", cs.total_crashes, cs.total_recoveries, sorted_map(&cs.crashes_by_reason), cs.total_state_loss_events));
            raw.push(format!("avg-recovery {}", cs.average_recovery_time_ms.to_bits()));
            // BuggifyStats' own API: summary (sorted by fault id), trigger_rate, merge (per-key sums)
            let mut merged = buggify::BuggifyStats::new();
            merged.merge(&res.buggify_stats);
            merged.merge(&res.buggify_stats);
            merged.record_check(faults::process::CRASH);
            // LAST line: the thread's BUGGIFY counters as copied into the result (cumulative over earlier runs: known finding)
            lines.push(format!("buggify-summary crash_checks={} triggers={} | merged checks={} triggers={}", res.buggify_stats.checks.get(faults::process::CRASH).copied().unwrap_or(0),
                res.buggify_stats.triggers.get(faults::process::CRASH).copied().unwrap_or(0), sorted_map(&merged.checks), sorted_map(&merged.triggers)));
            raw.push(format!("buggify-text {} | rate={}", res.buggify_stats.summary().replace('\n', " / "), res.buggify_stats.trigger_rate(faults::process::CRASH).to_bits()));
        }
        // CrashSimulator on its own: checkpoints, state loss, explicit recovery completion
        "crash" => {
            buggify::set_config(FaultConfig::chaos());
            let mut g = redis_sim::io::simulation::SimulatedRng::new(seed);
            let cfg = CrashConfig {
                partial_state_loss_probability: *r.pick(&[0.0, 0.1, 0.5, 1.0]),
                base_crash_probability: *r.pick(&[0.0, 0.001, 1.0]),
                min_recovery_time_ms: *r.pick(&[0u64, 10, 100]),
                max_recovery_time_ms: *r.pick(&[100u64, 1000]),
                enable_buggify_crashes: !r.chance(1, 6),
                ..CrashConfig::default()
            };
            raw.push(format!("shape loss_prob={} buggify={}", cfg.partial_state_loss_probability, cfg.enable_buggify_crashes));
            let mut cs = if r.chance(1, 5) { CrashSimulator::new() } else { CrashSimulator::with_config(cfg) };
            let n = 1 + r.below(6) as usize;
            for i in 0..n {
                cs.register_node(HostId(i));
            }
            let mut now = 0u64;
            for k in 1..=steps {
                now += r.below(60);
                let t = VirtualTime::from_millis(now);
                let i = HostId(r.below(n as u64 + 1) as usize); // sometimes an unregistered node
                let what = r.below(100);
                let l = if what < 20 {
                    let pend: Vec<PendingOperation> = (0..r.below(6)).map(|j| PendingOperation { operation_id: k as u64 * 10 + j, operation_type: r.pick(&[CrashOp::Read, CrashOp::Write, CrashOp::Gossip, CrashOp::Replication]).clone(), start_time: t, data: vec![j as u8; 3] }).collect();
                    let np = pend.len();
                    cs.checkpoint(i, t, vec![k as u8; (k % 7) as usize], pend, k as u64);
                    format!("checkpoint {} pending={} latest={:?}", i.0, np, cs.get_latest_checkpoint(i).map(|s| (s.snapshot_time.as_millis(), s.last_ack_seq, s.pending_operations.len())))
                } else if what < 40 {
                    format!("maybe_crash {} {}", i.0, cs.maybe_crash(&mut g, i, t))
                } else if what < 50 {
                    cs.crash_node(i, t, CrashReason::TestTriggered);
                    format!("crash_node {}", i.0)
                } else if what < 65 {
                    let snap = cs.start_recovery(&mut g, i, t).cloned();
                    match snap {
                        Some(s) => {
                            let lost = cs.simulate_state_loss(&mut g, &s);
                            format!("start_recovery {} snapshot@{} lost={:?}", i.0, s.snapshot_time.as_millis(), lost.iter().map(|o| o.operation_id).collect::<Vec<_>>())
                        }
                        None => format!("start_recovery {} no-snapshot", i.0),
                    }
                } else if what < 80 {
                    format!("complete_recovery {} {}", i.0, cs.complete_recovery(i, t))
                } else {
                    format!("advance_time {:?}", cs.advance_time(t).iter().map(|h| h.0).collect::<Vec<_>>())
                };
                let st: Vec<String> = (0..n).map(|j| if cs.is_running(HostId(j)) { "R" } else if cs.is_crashed(HostId(j)) { "C" } else if cs.is_recovering(HostId(j)) { "V" } else { "?" }.to_string()).collect();
                lines.push(format!("{} t={} {} {} crashed={:?} recovering={:?}", k, now, l, st.join(""), cs.crashed_nodes().iter().map(|h| h.0).collect::<Vec<_>>(), cs.recovering_nodes().iter().map(|h| h.0).collect::<Vec<_>>()));
            }
            let s = cs.stats();
            lines.push(format!("result crashes={} recoveries={} by_reason={} loss={} avg={}", s.total_crashes, s.total_recoveries, sorted_map(&s.crashes_by_reason), s.total_state_loss_events, s.average_recovery_time_ms.to_bits()));
        }
        _ => return false,
    }
    true
}

/// `SimulatedRng::gen_range` through the `io::Rng` trait (the trait is what `DSTSimulation::rng()` hands out)
trait GenRangePub {
    fn gen_range_pub(&mut self, lo: u64, hi: u64) -> u64;
}
impl GenRangePub for redis_sim::io::simulation::SimulatedRng {
    fn gen_range_pub(&mut self, lo: u64, hi: u64) -> u64 {
        use redis_sim::io::Rng as _;
        self.gen_range(lo, hi)
    }
}

// ------------------------------------------------------------------------------------------
// scenario-timing (modelled)
// ------------------------------------------------------------------------------------------

pub struct Scenario {
    pub buggify: Option<f64>,
    pub epoch: i64,
    /// 0 = `run()`, otherwise `run_with_eviction(interval)`
    pub evict_ms: u64,
    /// (time, client) in the order the operations are handed to the builder
    pub ops: Vec<(u64, usize)>,
    pub cmds: Vec<Command>,
}

pub fn scenario_of(preset: &str, seed: u64, n_ops: usize) -> Option<Scenario> {
    let mut r = Rng::new(seed ^ 0x71E);
    let (buggify, epoch, evict_ms) = match preset {
        "plain" => (None, 0i64, 0u64),
        "buggify" => (Some(0.3), 0, 0),
        "buggify-always" => (Some(1.0), 0, 0),
        "buggify-never" => (Some(0.0), 1_700_000_000, 0),
        "evict" => (Some(0.5), 0, *r.pick(&[1u64, 7, 50, 1000])),
        "gen" => (if r.chance(1, 4) { None } else { Some(*r.pick(&[0.0, 0.01, 0.3, 0.5, 0.999999, 1.0, 1.5, -0.5])) }, *r.pick(&[0i64, 1, 1_700_000_000]), if r.chance(1, 2) { 0 } else { *r.pick(&[1u64, 3, 10, 100]) }),
        _ => return None,
    };
    let mut ops = Vec::new();
    let mut cmds = Vec::new();
    let mut t = 0u64;
    for k in 0..n_ops {
        // times out of order and with ties: the builder sorts (stably) by time
        t = if r.chance(1, 6) { t.saturating_sub(r.below(30)) } else if r.chance(1, 4) { t } else { t + r.below(25) };
        let key = format!("k{}", r.below(5));
        let cmd = match r.below(7) {
            0 | 1 => Command::set(key, SDS::from_str(&format!("v{}", k))),
            2 => Command::Get(key),
            3 => Command::Incr(format!("c{}", r.below(2))),
            4 => Command::expire(key, 1 + r.below(3) as i64),
            5 => Command::Ttl(key),
            _ => Command::Del(vec![key]),
        };
        ops.push((t, k % 3));
        cmds.push(cmd);
    }
    Some(Scenario { buggify, epoch, evict_ms, ops, cmds })
}

pub fn scenario_timing(preset: &str, seed: u64, n_ops: usize, lines: &mut Vec<String>, raw: &mut Vec<String>) -> bool {
    let Some(sc) = scenario_of(preset, seed, n_ops) else { return false };
    let mut b = ScenarioBuilder::new(seed).with_start_epoch(sc.epoch);
    if let Some(p) = sc.buggify {
        b = b.with_buggify(p);
    }
    for ((t, c), cmd) in sc.ops.iter().zip(sc.cmds.iter()) {
        b = b.at_time(*t).client(*c, cmd.clone());
    }
    let h = if sc.evict_ms == 0 { b.run() } else { b.run_with_eviction(sc.evict_ms) };
    for (k, op) in h.history().iter().enumerate() {
        lines.push(format!("{} c{} inv={} done={}", k + 1, op.client_id, op.invoke_time.as_millis(), op.complete_time.as_millis()));
        raw.push(format!("{:?} -> {:?}", op.command, op.response));
    }
    lines.push(format!("result now={} history={}", h.current_time().as_millis(), h.history().len()));
    // the harness object itself, driven directly (same timing rules, no builder)
    let mut d = match sc.buggify {
        Some(p) => SimulationHarness::with_config(seed, sc.epoch, true, p),
        None => SimulationHarness::new(seed),
    };
    let mut dl = Vec::new();
    for (i, cmd) in sc.cmds.iter().take(20).enumerate() {
        d.advance_time_ms(i as u64 % 4);
        let resp = d.execute(i % 2, cmd.clone());
        if i % 5 == 4 {
            dl.push(format!("evicted={}", d.evict_expired()));
        }
        dl.push(format!("{:?}@{}", resp, d.current_time().as_millis()));
    }
    let x = d.rng().next_u64();
    raw.push(format!("direct {} next_u64={}", dl.join(" "), x));
    true
}

// ------------------------------------------------------------------------------------------
// workloads (modelled)
// ------------------------------------------------------------------------------------------

pub fn streaming_cfg(preset: &str, seed: u64) -> Option<redis_sim::streaming::dst::StreamingDSTConfig> {
    use redis_sim::streaming::dst::StreamingDSTConfig as C;
    Some(match preset {
        "default" => C::new(seed),
        "calm" => C::calm(seed),
        "moderate" => C::moderate(seed),
        "chaos" => C::chaos(seed),
        "gen" => {
            let mut r = Rng::new(seed ^ 0x3F1);
            let mut c = C::new(seed);
            c.flush_probability = *r.pick(&[0.0, 0.1, 0.5, 0.9, 1.0]);
            c.crash_probability = *r.pick(&[0.0, 0.02, 0.3, 1.0]);
            c.replica_id = 1 + r.below(5);
            c.prefix = format!("p{}", r.below(3));
            c
        }
        _ => return None,
    })
}

pub fn compaction_cfg(preset: &str, seed: u64) -> Option<redis_sim::streaming::compaction_dst::CompactionDSTConfig> {
    use redis_sim::streaming::compaction_dst::CompactionDSTConfig as C;
    Some(match preset {
        "default" => C::new(seed),
        "calm" => C::calm(seed),
        "aggressive" => C::aggressive(seed),
        "chaos" => C::chaos(seed),
        "gen" => {
            let mut r = Rng::new(seed ^ 0x3F2);
            let mut c = C::new(seed);
            c.flush_probability = *r.pick(&[0.0, 0.1, 0.5, 1.0]);
            c.compact_probability = *r.pick(&[0.0, 0.05, 0.4, 1.0]);
            c.replica_id = 1 + r.below(5);
            c.prefix = format!("p{}", r.below(3));
            c
        }
        _ => return None,
    })
}

fn key_num(k: &str) -> u64 {
    k.rsplit('_').next().and_then(|x| x.parse().ok()).unwrap_or(u64::MAX)
}

pub fn workload(family: &str, preset: &str, seed: u64, n_ops: usize, lines: &mut Vec<String>, raw: &mut Vec<String>) -> bool {
    let mut harness_ops: Vec<String> = Vec::new();
    if family == "streaming-workload" {
        use redis_sim::streaming::dst::{StreamingDSTHarness, StreamingOperation as Op, StreamingWorkload};
        let Some(cfg) = streaming_cfg(preset, seed) else { return false };
        let mut w = StreamingWorkload::new(cfg.clone());
        for k in 1..=n_ops {
            let l = match w.next_operation() {
                Op::CrashRecover => "first".to_string(),
                Op::Flush => "flush".to_string(),
                Op::Write { key, value } => {
                    let d = w.make_write_delta(&key, &value);
                    w.record_write(&key, &value);
                    format!("write {} {} ts={} rid={}", key_num(&key), value, d.value.timestamp.time, d.source_replica.0)
                }
                Op::Delete { key } => {
                    let d = w.make_delete_delta(&key);
                    w.record_delete(&key);
                    format!("delete {} ts={} rid={} tomb={}", key_num(&key), d.value.timestamp.time, d.source_replica.0, d.value.is_tombstone())
                }
            };
            lines.push(format!("{} {}", k, l));
        }
        lines.push(format!("result next_ts={}", w.next_timestamp()));
        let mut exp: Vec<(String, Option<String>)> = w.expected_state().iter().map(|(k, v)| (k.clone(), v.clone())).collect();
        exp.sort();
        raw.push(format!("expected_state {:?}", exp));
        // the operations the REAL harness records are the workload's
        crate::c20::paused_runtime().block_on(async {
            let mut h = StreamingDSTHarness::new(cfg).await;
            h.run(n_ops).await;
            for o in &h.result().history {
                harness_ops.push(match &o.operation {
                    Op::CrashRecover => "first".to_string(),
                    Op::Flush => "flush".to_string(),
                    Op::Write { key, value } => format!("write {} {}", key_num(key), value),
                    Op::Delete { key } => format!("delete {}", key_num(key)),
                });
            }
        });
    } else {
        use redis_sim::streaming::compaction_dst::{CompactionDSTHarness, CompactionOperation as Op, CompactionWorkload};
        let Some(cfg) = compaction_cfg(preset, seed) else { return false };
        let mut w = CompactionWorkload::new(cfg.clone());
        for k in 1..=n_ops {
            let l = match w.next_operation(k as u64) {
                Op::Compact => "first".to_string(),
                Op::Flush => "flush".to_string(),
                Op::Write { key, value } => {
                    let d = w.make_write_delta(&key, &value);
                    format!("write {} {} ts={} rid={}", key_num(&key), value, d.value.timestamp.time, d.source_replica.0)
                }
                Op::Delete { key } => {
                    let d = w.make_delete_delta(&key);
                    format!("delete {} ts={} rid={} tomb={}", key_num(&key), d.value.timestamp.time, d.source_replica.0, d.value.is_tombstone())
                }
            };
            lines.push(format!("{} {}", k, l));
        }
        lines.push(format!("result next_ts={}", w.next_timestamp()));
        crate::c20::paused_runtime().block_on(async {
            let mut h = CompactionDSTHarness::new(cfg).await;
            h.run(n_ops).await;
            for o in &h.result().history {
                harness_ops.push(match &o.operation {
                    Op::Compact => "first".to_string(),
                    Op::Flush => "flush".to_string(),
                    Op::Write { key, .. } => format!("write {}", key_num(key)),
                    Op::Delete { key } => format!("delete {}", key_num(key)),
                });
            }
        });
    }
    // compare the kinds and keys (the harness passes its own op counter as the value)
    let strip = |l: &String| -> String {
        let t: Vec<&str> = l.split(' ').collect();
        match t.get(1).copied() {
            Some("write") => format!("write {}", t.get(2).unwrap_or(&"")),
            Some("delete") => format!("delete {}", t.get(2).unwrap_or(&"")),
            Some(x) => x.to_string(),
            None => String::new(),
        }
    };
    let mine: Vec<String> = lines.iter().take(n_ops).map(strip).collect();
    let theirs: Vec<String> = harness_ops.iter().map(|l| { let t: Vec<&str> = l.split(' ').collect(); if t[0] == "write" || t[0] == "delete" { format!("{} {}", t[0], t[1]) } else { t[0].to_string() } }).collect();
    if mine != theirs {
        let i = mine.iter().zip(theirs.iter()).position(|(a, b)| a != b).unwrap_or(mine.len().min(theirs.len()));
        lines.push(format!("ORACLE-FAIL workload-differs-from-harness-history:{} at operation {}: workload {:?}, harness history {:?} ({} vs {} operations)", family, i + 1, mine.get(i), theirs.get(i), mine.len(), theirs.len()));
    }
    true
}

// ------------------------------------------------------------------------------------------
// connection-gen
// ------------------------------------------------------------------------------------------

pub fn connection_gen(preset: &str, seed: u64, steps: usize, lines: &mut Vec<String>, raw: &mut Vec<String>) -> bool {
    let mut r = Rng::new(seed ^ 0xC0E);
    let gen_cmd = |r: &mut Rng, k: usize| -> Command {
        let key = format!("k{}", r.below(6));
        match r.below(6) {
            0 | 1 => Command::set(key, SDS::from_str(&format!("value-{}", k))),
            2 => Command::Get(key),
            3 => Command::Incr(format!("n{}", r.below(2))),
            4 => Command::Del(vec![key]),
            _ => Command::Ping(None),
        }
    };
    match preset {
        "conn" => {
            let p = *r.pick(&[0.0, 0.2, 0.5, 0.9, 1.0]);
            let mut c = SimulatedConnection::new(seed).with_partial_reads(p);
            if r.chance(1, 3) {
                c = c.with_unbatched_flush();
            }
            raw.push(format!("shape partial={}", p));
            for k in 1..=steps {
                let what = r.below(10);
                let resp = if what < 3 {
                    c.send_command(gen_cmd(&mut r, k));
                    c.process()
                } else if what < 7 {
                    let n = *r.pick(&[1usize, 2, 5, 16, 40, 400]); // 400 commands: more than the 8192-byte buffers hold
                    c.send_pipeline((0..n).map(|j| gen_cmd(&mut r, k * 100 + j)).collect());
                    c.process()
                } else {
                    let n = *r.pick(&[3usize, 9, 30]);
                    c.send_pipeline((0..n).map(|j| gen_cmd(&mut r, k * 100 + j)).collect());
                    c.process_with_partial_arrivals(1 + r.below(4) as usize)
                };
                lines.push(format!("{} replies={} flushes={} executed={} per_flush={:?}", k, resp.len(), c.flush_count(), c.commands_executed(), c.bytes_per_flush().iter().rev().take(3).collect::<Vec<_>>()));
                raw.push(format!("{:?}", resp));
            }
            lines.push(format!("result executed={} flushes={} avg={} history={}", c.commands_executed(), c.flush_count(), c.avg_bytes_per_flush().to_bits(), c.history().len()));
            for h in c.history().iter().take(40) {
                raw.push(format!("{:?}", h));
            }
        }
        "readbuf" => {
            let p = *r.pick(&[0.0, 0.3, 1.0]);
            let mut b = SimulatedReadBuffer::new(seed).with_partial_reads(p);
            for k in 1..=steps {
                if r.chance(1, 2) {
                    b.queue_command(gen_cmd(&mut r, k));
                } else {
                    b.queue_pipeline((0..r.below(6) as usize).map(|j| gen_cmd(&mut r, k * 10 + j)).collect());
                }
                if r.chance(1, 2) { b.flush_to_buffer() } else { b.flush_n_to_buffer(r.below(3) as usize) }
                let mut sizes = Vec::new();
                for _ in 0..r.below(4) {
                    match b.read() {
                        Some(x) => sizes.push(x.len()),
                        None => break,
                    }
                }
                lines.push(format!("{} read={:?} has_data={} pending_cmds={} pending_bytes={}", k, sizes, b.has_data(), b.pending_commands(), b.pending_bytes()));
            }
        }
        "pipeline-sizes" => {
            let sizes: Vec<usize> = (0..1 + r.below(6)).map(|_| *r.pick(&[0usize, 1, 2, 3, 17, 64, 200])).collect();
            let mut p = PipelineSimulator::new(seed).with_sizes(sizes.clone());
            for x in p.run() {
                lines.push(format!("{:?}", x));
            }
            lines.push(format!("sizes {:?}", sizes));
            raw.push(p.summary());
        }
        _ => return false,
    }
    true
}

// ------------------------------------------------------------------------------------------
// multi-node-api
// ------------------------------------------------------------------------------------------

pub fn multi_node_api(preset: &str, seed: u64, steps: usize, lines: &mut Vec<String>, raw: &mut Vec<String>) -> bool {
    let mut r = Rng::new(seed ^ 0xA91);
    let n = 3usize;
    let mut sim = match preset {
        "corpus-deltas8" | "broadcast" => MultiNodeSimulation::new(n, seed).with_auto_anti_entropy(preset == "broadcast" && seed % 2 == 0),
        "partitioned" => MultiNodeSimulation::new_partitioned(4, 2, seed).with_auto_anti_entropy(true),
        _ => return false,
    };
    let n = sim.nodes.len();
    if preset == "corpus-deltas8" {
        // 8 keys written on one node: `get_all_deltas()` lists them in the map's order
        for i in 0..8u64 {
            sim.execute(0, 0, Command::set(format!("key-{}", i), SDS::from_str("v")));
        }
    } else {
        for k in 1..=steps {
            let node = r.below(n as u64) as usize;
            let what = r.below(10);
            if what < 6 {
                sim.execute(k % 3, node, Command::set(format!("k{}", r.below(12)), SDS::from_str(&format!("v{}", k))));
            } else if what < 8 {
                let (a, b) = (r.below(n as u64) as usize, r.below(n as u64) as usize);
                if a != b {
                    if r.chance(1, 2) { sim.partition(a, b) } else { sim.heal_partition(a, b) }
                }
                lines.push(format!("{} can_communicate {} {} = {}", k, a, b, sim.can_communicate(a, b)));
            } else {
                sim.advance_time_ms(5);
                let ds = sim.nodes[node].get_all_deltas();
                lines.push(format!("{} would-gossip {:?}", k, sim.count_gossip_messages(&ds)));
                sim.gossip_round();
            }
        }
    }
    for i in 0..n {
        let d = sim.nodes[i].get_all_deltas();
        let order: Vec<String> = d.iter().map(|x| x.key.clone()).collect();
        let mut canon: Vec<String> = d.iter().map(|x| format!("{}@{}.{}", x.key, x.value.timestamp.time, x.source_replica.0)).collect();
        canon.sort();
        lines.push(format!("node{} deltas {}", i, canon.join(",")));
        raw.push(format!("order-of:get_all_deltas node{} {}", i, order.join(",")));
    }
    true
}
