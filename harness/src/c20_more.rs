//! C20 — further harness families and entry points (session 3): see c20.rs for the framework.
