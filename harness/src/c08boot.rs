//! C08 — the production start-up sequence, end to end.
//!
//! `src/bin/server_persistent.rs` (an anchor of C08) is a binary: its `main` — `recover` from the
//! object store, replay of the local WAL through a second `apply_recovered_state(None, ..)`, start of
//! the persistence workers and the WAL actor, listeners — cannot be called in-process.  The harness
//! crate therefore compiles that very source text as its second binary `rvpersist`
//! (harness/build.rs + src/bin/rvpersist.rs) and this module runs it as a child process:
//!
//!   incarnation 1: RESP writes (SET / HSET / DEL on keys of one shard and of other shards, every
//!                  payload unique), some of them old enough to be flushed to a segment (flush interval
//!                  250 ms), the rest in the WAL only (fsync = always: acknowledged ⇒ durable); SIGKILL;
//!   incarnation 2: same directories; start-up = the code of `main`; writes; SIGINT (graceful: final
//!                  flush) or SIGKILL;
//!   incarnation 3: start-up over segments + WAL of both earlier incarnations; writes; SIGKILL.
//!
//! Observation: after every incarnation the stamps it issued are read back from what it persisted
//! (the WAL through the real `WalRotator::recover_all_entries` → `to_delta`, the object store through
//! the real `RecoveryManager::recover`), each acknowledged write identified by its unique payload.
//! Oracle (the property itself): per shard, the stamps of the acknowledged writes are strictly
//! increasing in the order they were acknowledged — across the two restarts (theorem
//! `C08.startup_no_repeat` says so for the model of that start-up sequence).
//!
//! Nothing here is compared with the model line by line: how often a delta is replayed (segment AND
//! WAL) depends on flush timing, and `update` adds 1 per replayed entry — the issued stamps are
//! timing-dependent, the verdict is not.
use crate::enc::{MCrdt, MRv};
use crate::out::Out;
use crate::rng::Rng;
use redis_sim::replication::state::ReplicationDelta;
use redis_sim::streaming::wal_store::LocalWalStore;
use redis_sim::streaming::{LocalFsObjectStore, RecoveryManager, WalRotator};
use serde_json::json;
use std::io::{Read, Write};
use std::net::TcpStream;
use std::path::{Path, PathBuf};
use std::process::{Child, Command, Stdio};
use std::time::{Duration, Instant};

static T0: std::sync::OnceLock<Instant> = std::sync::OnceLock::new();
const PREFIX: &str = "redis-stream";
const WAL_MAX: usize = 64 * 1024 * 1024;

fn shard_of(key: &str) -> usize {
    use std::hash::{Hash, Hasher};
    let mut h = std::collections::hash_map::DefaultHasher::new();
    key.hash(&mut h);
    (h.finish() as usize) % 16
}

fn rvpersist_path() -> Option<PathBuf> {
    let exe = std::env::current_exe().ok()?;
    let p = exe.parent()?.join("rvpersist");
    if p.exists() { Some(p) } else { None }
}

/// two consecutive free ports (the server binds `port` and `port + 1`)
fn free_port(rng: &mut Rng) -> Option<u16> {
    for _ in 0..50 {
        let p = 20000 + (rng.below(20000) as u16 & !1);
        let a = std::net::TcpListener::bind(("127.0.0.1", p));
        let b = std::net::TcpListener::bind(("127.0.0.1", p + 1));
        if a.is_ok() && b.is_ok() {
            return Some(p);
        }
    }
    None
}

struct Server {
    child: Child,
    port: u16,
}

/// a server never outlives the history that started it (also when the harness unwinds)
impl Drop for Server {
    fn drop(&mut self) {
        let _ = self.child.kill();
        let _ = self.child.wait();
    }
}

impl Server {
    fn start(bin: &Path, dir: &Path, port: u16, inc: usize) -> Option<Server> {
        let log = std::fs::File::create(dir.join(format!("server-{}.log", inc))).ok()?;
        let child = Command::new(bin)
            .env("REDIS_PORT", port.to_string())
            .env("REDIS_STORE_TYPE", "localfs")
            .env("REDIS_DATA_PATH", dir.join("data"))
            .env("REDIS_WAL_ENABLED", "true")
            .env("REDIS_WAL_DIR", dir.join("wal"))
            .env("REDIS_WAL_FSYNC", "always")
            .env("REPLICA_ID", "1")
            .env("REPLICATION_ENABLED", "false")
            .env_remove("POD_NAME")
            .env_remove("RUST_LOG")
            .stdin(Stdio::null())
            .stdout(Stdio::from(log.try_clone().ok()?))
            .stderr(Stdio::from(log))
            .spawn()
            .ok()?;
        let mut s = Server { child, port };
        let t0 = Instant::now();
        while t0.elapsed() < Duration::from_secs(40) {
            if let Ok(Some(_)) = s.child.try_wait() {
                return None; // exited during start-up
            }
            if let Ok(mut c) = TcpStream::connect(("127.0.0.1", port)) {
                let _ = c.set_read_timeout(Some(Duration::from_secs(5)));
                if c.write_all(b"*1\r\n$4\r\nPING\r\n").is_ok() {
                    let mut b = [0u8; 16];
                    if matches!(c.read(&mut b), Ok(n) if n > 0) {
                        return Some(s);
                    }
                }
            }
            std::thread::sleep(Duration::from_millis(30));
        }
        None
    }

    /// one command, one reply (the reply is awaited: the write is ACKNOWLEDGED when this returns)
    fn cmd(&self, conn: &mut TcpStream, args: &[&[u8]]) -> Option<Vec<u8>> {
        let mut m = format!("*{}\r\n", args.len()).into_bytes();
        for a in args {
            m.extend_from_slice(format!("${}\r\n", a.len()).as_bytes());
            m.extend_from_slice(a);
            m.extend_from_slice(b"\r\n");
        }
        conn.write_all(&m).ok()?;
        let mut buf = Vec::new();
        let mut b = [0u8; 512];
        loop {
            let n = conn.read(&mut b).ok()?;
            if n == 0 {
                return None;
            }
            buf.extend_from_slice(&b[..n]);
            if buf.ends_with(b"\r\n") {
                return Some(buf);
            }
        }
    }

    fn connect(&self) -> Option<TcpStream> {
        let c = TcpStream::connect(("127.0.0.1", self.port)).ok()?;
        c.set_read_timeout(Some(Duration::from_secs(20))).ok()?;
        c.set_nodelay(true).ok()?;
        Some(c)
    }

    fn kill9(self) {
        // Drop: SIGKILL + wait
    }

    /// SIGINT: the graceful path of `main` (WAL actor shutdown, final flush of the write buffer)
    fn interrupt(mut self) -> bool {
        let _ = Command::new("kill").args(["-INT", &self.child.id().to_string()]).status();
        let t0 = Instant::now();
        while t0.elapsed() < Duration::from_secs(20) {
            if let Ok(Some(_)) = self.child.try_wait() {
                return true;
            }
            std::thread::sleep(Duration::from_millis(20));
        }
        false
    }
}

/// everything the node has persisted so far: WAL entries and object-store contents
async fn persisted(dir: &Path) -> Result<Vec<ReplicationDelta>, String> {
    let mut all = Vec::new();
    let wal_dir = dir.join("wal");
    if wal_dir.exists() {
        let store = LocalWalStore::new(wal_dir).map_err(|e| format!("wal store: {}", e))?;
        let rot = WalRotator::new(store, WAL_MAX).map_err(|e| format!("wal rotator: {}", e))?;
        for e in rot.recover_all_entries().map_err(|e| format!("wal recover: {}", e))? {
            if let Ok(d) = e.to_delta() {
                all.push(d);
            }
        }
    }
    let store = LocalFsObjectStore::new(dir.join("data"));
    let rm = RecoveryManager::new(store, PREFIX, 1);
    if rm.needs_recovery().await.map_err(|e| format!("needs_recovery: {}", e))? {
        let r = rm.recover().await.map_err(|e| format!("recover: {}", e))?;
        if let Some(c) = r.checkpoint_state {
            for (k, v) in c {
                all.push(ReplicationDelta::new(k, v, redis_sim::replication::lattice::ReplicaId::new(1)));
            }
        }
        all.extend(r.deltas);
    }
    Ok(all)
}

#[derive(Clone)]
enum W {
    Set(String, Vec<u8>),
    HSet(String, String, Vec<u8>),
    Del(String),
}

impl W {
    fn key(&self) -> &str {
        match self {
            W::Set(k, _) | W::HSet(k, _, _) | W::Del(k) => k,
        }
    }
    fn show(&self) -> String {
        match self {
            W::Set(k, v) => format!("SET {} {}", k, String::from_utf8_lossy(v)),
            W::HSet(k, f, v) => format!("HSET {} {} {}", k, f, String::from_utf8_lossy(v)),
            W::Del(k) => format!("DEL {}", k),
        }
    }
}

/// the stamp (time, replica) the write was issued with.  SET / HSET: found by the unique payload.
/// DEL: a tombstone has no payload — it is the tombstone of that key with the smallest stamp above
/// the previous acknowledged write of the key (`prev`); tombstones in between that belong to no
/// acknowledged write exist (a DEL of an already deleted key answers 0 and still re-stamps the
/// tombstone).  If there is none above `prev` (only possible when the property is violated) the
/// largest remaining one is taken, so that the monotonicity oracle reports it.
fn stamp_of(w: &W, deltas: &[ReplicationDelta], prev: Option<(u64, u64)>, seen_tombs: &mut Vec<(String, u64, u64)>) -> Option<(u64, u64)> {
    let mut hits: Vec<(u64, u64)> = Vec::new();
    for d in deltas {
        if d.key != w.key() {
            continue;
        }
        let m = MRv::from_real(&d.value);
        let hit = match (w, &m.crdt) {
            (W::Set(_, v), MCrdt::Lww(l)) => (l.v.as_ref() == Some(v) && !l.tomb).then_some((l.t, l.r)),
            (W::HSet(_, f, v), MCrdt::H(h)) => h.get(f).and_then(|l| (l.v.as_ref() == Some(v) && !l.tomb).then_some((l.t, l.r))),
            (W::Del(k), MCrdt::Lww(l)) => (l.tomb && !seen_tombs.contains(&(k.clone(), l.t, l.r))).then_some((l.t, l.r)),
            (W::Del(k), MCrdt::H(h)) => {
                // DEL of a hash: every field tombstoned with one fresh stamp = the outer stamp
                (!h.is_empty() && h.values().all(|l| l.tomb && (l.t, l.r) == (m.t, m.r)) && !seen_tombs.contains(&(k.clone(), m.t, m.r))).then_some((m.t, m.r))
            }
            _ => None,
        };
        if let Some(s) = hit {
            hits.push(s);
        }
    }
    hits.sort();
    hits.dedup();
    let best = match w {
        // a register keeps its stamp wherever it is copied: all hits agree
        W::Set(..) | W::HSet(..) => hits.first().copied(),
        W::Del(_) => match prev {
            Some(p) => hits.iter().copied().find(|s| *s > p).or(hits.last().copied()),
            None => hits.first().copied(),
        },
    };
    if let (W::Del(k), Some(s)) = (w, best) {
        seen_tombs.push((k.clone(), s.0, s.1));
    }
    best
}

/// 3 keys: two on one shard, one on another
fn keys() -> Vec<String> {
    let mut first: Option<(usize, String)> = None;
    let mut out = Vec::new();
    for i in 0..400 {
        let k = format!("bk{}", i);
        match &first {
            None => {
                first = Some((shard_of(&k), k.clone()));
                out.push(k);
            }
            Some((s, _)) => {
                if shard_of(&k) == *s && out.len() == 1 {
                    out.push(k);
                } else if shard_of(&k) != *s && out.len() == 2 {
                    out.push(k);
                    break;
                }
            }
        }
    }
    out
}

/// one boot history; `graceful2` = incarnation 2 ends with SIGINT instead of SIGKILL
pub async fn boot_history(out: &mut Out, rng: &mut Rng, graceful2: bool, wal_only: bool) {
    let Some(bin) = rvpersist_path() else {
        out.violation("C08:coverage:persistent-server-main-not-built", "the binary rvpersist (= src/bin/server_persistent.rs of the tree under test, compiled by the harness crate) is not next to rvharness: the production start-up sequence cannot be driven", json!(null));
        return;
    };
    let dir = std::env::temp_dir().join(format!("rv-c08boot-{}-{}", std::process::id(), rng.below(1 << 30)));
    let _ = std::fs::remove_dir_all(&dir);
    if std::fs::create_dir_all(dir.join("data")).is_err() {
        out.violation("C08:boot:harness", "cannot create the scratch directory", json!({"dir": dir.display().to_string()}));
        return;
    }
    let ks = keys();
    let mut nonce = 0u64;
    let mut fresh = |tag: &str| {
        nonce += 1;
        format!("{}-{}-{}", tag, nonce, std::process::id()).into_bytes()
    };
    // acknowledged writes in order: (incarnation, write, stamp once known)
    let mut acked: Vec<(usize, W, Option<(u64, u64)>)> = Vec::new();
    let mut text = String::new();
    let mut seen_tombs: Vec<(String, u64, u64)> = Vec::new();
    // stamp of the previous acknowledged write per key (to tell a DEL's tombstone from older ones)
    let mut last_on_key: std::collections::HashMap<String, (u64, u64)> = Default::default();
    let mut ok = true;
    for inc in 1..=3usize {
        let mut server = None;
        for _attempt in 0..3 {
            let Some(port) = free_port(rng) else { continue };
            server = Server::start(&bin, &dir, port, inc);
            if server.is_some() {
                break;
            }
        }
        let Some(server) = server else {
            let log = std::fs::read_to_string(dir.join(format!("server-{}.log", inc))).unwrap_or_default();
            if log.contains("rvpersist: not built") {
                out.violation("C08:coverage:persistent-server-main-not-built", "the harness could not compile src/bin/server_persistent.rs of the tree under test as its binary rvpersist: the production start-up sequence is not driven", json!({"reason": log.trim()}));
                break;
            }
            out.violation("C08:boot:server-did-not-start", &format!("incarnation {} of the persistent server did not come up (3 attempts, 40 s each)", inc), json!({"history": text, "log-tail": log.chars().rev().take(1500).collect::<String>().chars().rev().collect::<String>()}));
            ok = false;
            break;
        };
        text.push_str(&format!("START#{};", inc));
        if std::env::var("RV_BOOT_TRACE").is_ok() { eprintln!("boot: inc {} started at {:?}", inc, T0.get_or_init(Instant::now).elapsed()); }
        let Some(mut conn) = server.connect() else {
            out.violation("C08:boot:harness", "cannot connect to the started server", json!({"history": text}));
            server.kill9();
            ok = false;
            break;
        };
        // the writes of this incarnation: first the key written last before (the regression "a
        // post-restart write loses to its own pre-restart value"), then the other key of that shard,
        // the other shard, a hash, a delete
        let mut plan: Vec<W> = vec![
            W::Set(ks[0].clone(), fresh("v")),
            W::Set(ks[1].clone(), fresh("v")),
            W::Set(ks[2].clone(), fresh("v")),
        ];
        for _ in 0..rng.range(2, 5) {
            let k = rng.pick(&ks).clone();
            plan.push(match rng.below(5) {
                0 | 1 => W::Set(k, fresh("v")),
                2 | 3 => W::HSet(format!("{}h", k), rng.pick(&["f", "g"]).to_string(), fresh("h")),
                _ => W::Del(if rng.chance(1, 3) { format!("{}h", k) } else { k }),
            });
        }
        // a long run: many more writes than any batch / buffer / replay window of the pipeline holds
        // (write buffer, group commit of 64, WAL replay), in the first incarnation of every other history
        if wal_only {
            if inc == 1 {
                out.count("boot:recovery-source:wal-only(object store lost after incarnation 1)");
            }
        }
        if inc == 1 && !graceful2 {
            out.count("boot:long-run(300 writes)");
            for i in 0..300 {
                plan.push(W::Set(ks[i % 3].clone(), fresh("b")));
            }
        }
        plan.push(W::Set(ks[0].clone(), fresh("last")));
        // somewhere in the middle: wait until the write buffer has been flushed to a segment
        let pause_at = if rng.chance(2, 3) { Some(rng.range(1, plan.len() as u64 - 1) as usize) } else { None };
        for (i, w) in plan.iter().enumerate() {
            if Some(i) == pause_at {
                std::thread::sleep(Duration::from_millis(450));
                text.push_str("WAIT-FLUSH;");
                out.count("boot:segment-flush-before-crash");
            }
            let reply = match w {
                W::Set(k, v) => server.cmd(&mut conn, &[b"SET", k.as_bytes(), v]),
                W::HSet(k, f, v) => server.cmd(&mut conn, &[b"HSET", k.as_bytes(), f.as_bytes(), v]),
                W::Del(k) => server.cmd(&mut conn, &[b"DEL", k.as_bytes()]),
            };
            let Some(reply) = reply else {
                out.violation("C08:boot:no-reply", "the persistent server closed the connection / did not answer a write", json!({"history": text, "write": w.show()}));
                ok = false;
                break;
            };
            if reply.starts_with(b"-") {
                out.count("boot:write-rejected");
                continue;
            }
            // DEL of an absent key / of a key that is already deleted writes nothing
            if matches!(w, W::Del(_)) && reply == b":0\r\n" {
                out.count("boot:del-of-nothing");
                text.push_str(&format!("{} (nothing);", w.show()));
                continue;
            }
            out.count(&format!("boot:write:{}", match w { W::Set(..) => "set", W::HSet(..) => "hset", W::Del(_) => "del" }));
            text.push_str(&format!("{};", w.show()));
            acked.push((inc, w.clone(), None));
        }
        drop(conn);
        if std::env::var("RV_BOOT_TRACE").is_ok() { eprintln!("boot: inc {} writes done at {:?}", inc, T0.get_or_init(Instant::now).elapsed()); }
        if !ok {
            server.kill9();
            break;
        }
        if inc == 2 && graceful2 {
            out.count("boot:shutdown:sigint");
            text.push_str("SIGINT;");
            if !server.interrupt() {
                out.count("boot:sigint-timeout-killed");
            }
        } else {
            out.count("boot:shutdown:sigkill");
            text.push_str("SIGKILL;");
            server.kill9();
        }
        // read the stamps of this incarnation's acknowledged writes back from what it persisted
        let deltas = match persisted(&dir).await {
            Ok(d) => d,
            Err(e) => {
                out.violation("C08:boot:persisted-state-unreadable", &format!("what the server persisted cannot be read back with the real recovery code: {}", e), json!({"history": text}));
                ok = false;
                break;
            }
        };
        out.count(&format!("boot:incarnation:{}", inc));
        if std::env::var("RV_BOOT_TRACE").is_ok() { eprintln!("boot: inc {} read back at {:?}", inc, T0.get_or_init(Instant::now).elapsed()); }
        for (i, w, st) in acked.iter_mut() {
            if *i != inc {
                continue;
            }
            *st = stamp_of(w, &deltas, last_on_key.get(w.key()).copied(), &mut seen_tombs);
            if let Some(x) = *st {
                last_on_key.insert(w.key().to_string(), x);
            }
            if st.is_none() {
                out.violation("C08:boot:acked-write-not-persisted", &format!("incarnation {}: the acknowledged {} (WAL fsync = always) is neither in the WAL nor in the object store after the process ended — the next start-up cannot advance its clock past that write", inc, w.show()), json!({"history": text}));
                ok = false;
            }
        }
        if !ok {
            break;
        }
        // recovery from the WAL ALONE: the object store (segments, manifest) is lost after the first
        // incarnation — "recovery from any combination of checkpoint, segments and WAL"; every entry
        // is then replayed exactly once (nothing is applied a second time from a segment)
        if wal_only && inc == 1 {
            let _ = std::fs::remove_dir_all(dir.join("data"));
            let _ = std::fs::create_dir_all(dir.join("data"));
            text.push_str("OBJECT-STORE-LOST;");
        }
    }
    // the property: per shard, stamps strictly increase in acknowledgement order, across restarts
    let mut nontrivial = false;
    if ok {
        let mut last: std::collections::BTreeMap<usize, (usize, String, (u64, u64))> = Default::default();
        for (inc, w, st) in &acked {
            let Some(st) = st else { continue };
            let sh = shard_of(w.key());
            if let Some((pinc, pw, pst)) = last.get(&sh) {
                if pinc != inc {
                    nontrivial = true;
                }
                if !(pst < st) {
                    let across = if pinc != inc { "across-restart" } else { "within-incarnation" };
                    out.violation(
                        &format!("C08:boot:stamp-not-increasing:{}", across),
                        &format!("shard {}: `{}` (incarnation {}) was acknowledged with stamp {:?} after `{}` (incarnation {}) with stamp {:?}", sh, w.show(), inc, st, pw, pinc, pst),
                        json!({"history": text, "graceful-second-shutdown": graceful2, "object-store-lost-after-incarnation-1": wal_only}),
                    );
                }
            }
            last.insert(sh, (*inc, w.show(), *st));
        }
        out.count("boot:history-completed");
    }
    out.case(&format!("BOOT:{}:{}:{}", graceful2, wal_only, acked.iter().map(|(i, w, _)| format!("{}{}", i, match w { W::Set(..) => "s", W::HSet(..) => "h", W::Del(_) => "d" })).collect::<Vec<_>>().join("")), nontrivial);
    let _ = std::fs::remove_dir_all(&dir);
}
