//! Boundary-directed inputs for C01.
//!
//! Every decision of the reference model (`lean/RedisVerif/Model/Redis.lean`) that is a
//! COMPARISON of numeric inputs is a *site* here.  For each site the generator produces,
//! deliberately and from the CURRENT state of the real executor (it reads the key's deadline /
//! length / cardinality / score and computes the argument that makes both sides equal), the
//! boundary inputs: `below` (argument = threshold − 1), `equal`, `above` (+ 1) — in ms as well
//! as in whole seconds where the command counts seconds (the clock is then moved by exact
//! multiples of 1000 ms or ±1 ms around them).  Each boundary command goes through
//! `redisx::do_step` like any other command, i.e. reply and keyspace are compared with the model.
//!
//! `coverage_table` / `check_coverage`: site × cell counts for the evidence; the harness exits
//! non-zero when a listed site has an empty cell.
//!
//! Not listed (cannot be exercised cheaply): SETRANGE offset+len vs 512 MB (the `below`/`equal`
//! cells allocate half a gigabyte per command); LPOP/RPOP count, SRANDMEMBER, LINSERT, SCAN COUNT
//! (no such `Command` variant / not modelled).
use crate::out::Out;
use crate::redisx::*;
use crate::rng::Rng;
use redis_sim::redis::{Command, RespValue, Value, SDS};

pub const BEQ: [&str; 3] = ["below", "equal", "above"];
const EQ_AB: [&str; 2] = ["equal", "above"];
const BE_AB: [&str; 2] = ["below", "above"];
const IN_EX: [&str; 2] = ["inclusive", "exclusive"];

/// (site, cells).  Cell semantics: position of the ARGUMENT relative to the threshold named in the site.
pub const SITES: &[(&str, &[&str])] = &[
    // EXPIRE-family flags: new deadline vs current deadline
    ("expire.gt:new-deadline-vs-current", &BEQ),
    ("expire.lt:new-deadline-vs-current", &BEQ),
    ("pexpire.gt:new-deadline-vs-current", &BEQ),
    ("pexpire.lt:new-deadline-vs-current", &BEQ),
    // already-expired test: requested deadline vs now
    ("expire:deadline-vs-now", &BEQ),
    ("pexpire:deadline-vs-now", &BEQ),
    ("expireat:deadline-vs-now", &BEQ),
    ("pexpireat:deadline-vs-now", &BEQ),
    // argument range checks
    ("expire:secs-vs-i64max/1000", &BEQ),
    ("expire:secs-vs-i64min/1000", &BEQ),
    ("expire:secs*1000-vs-i64max-now", &BEQ),
    ("pexpire:ms-vs-i64max-now", &BEQ),
    ("expireat:secs-vs-i64max/1000", &BEQ),
    ("expireat:secs-vs-i64min/1000", &BEQ),
    // SET / GETEX expire argument
    ("set.ex:arg-vs-zero", &BEQ),
    ("set.px:arg-vs-zero", &BEQ),
    ("set.exat:arg-vs-zero", &BEQ),
    ("set.pxat:arg-vs-zero", &BEQ),
    ("set.ex:secs-vs-i64max/1000", &BEQ),
    ("set.exat:secs-vs-i64max/1000", &BEQ),
    ("set.px:ms-vs-i64max-now", &BEQ),
    ("set.pxat:deadline-vs-now", &BEQ),
    ("set.exat:deadline-vs-now", &BEQ),
    ("getex.ex:arg-vs-zero", &BEQ),
    ("getex.px:arg-vs-zero", &BEQ),
    ("getex.exat:arg-vs-zero", &BEQ),
    ("getex.pxat:arg-vs-zero", &BEQ),
    ("getex.px:ms-vs-i64max-now", &BEQ),
    ("getex.pxat:deadline-vs-now", &BEQ),
    // rounding and visibility
    ("ttl:remaining-ms-mod-1000-vs-500", &BEQ),
    ("expiretime:deadline-ms-mod-1000-vs-500", &BEQ),
    ("visibility:now-vs-deadline", &BEQ),
    // strings
    ("getrange:start-vs-len", &BEQ),
    ("getrange:end-vs-len", &BEQ),
    ("getrange:start-vs-minus-len", &BEQ),
    ("getrange:end-vs-minus-len", &BEQ),
    ("getrange:start-vs-end", &BEQ),
    ("getrange:negative-start-vs-negative-end", &BEQ),
    ("setrange:offset-vs-len", &BEQ),
    // capacity threshold of the string container: SSO_MAX_LEN = 23 bytes inline, then heap (src/redis/data/sds.rs)
    ("append:total-length-vs-sds-inline-limit", &BEQ),
    ("setrange:end-vs-sds-inline-limit", &BEQ),
    ("set:value-length-vs-sds-inline-limit", &BEQ),
    // lists
    ("lindex:index-vs-len", &BEQ),
    ("lindex:index-vs-minus-len", &BEQ),
    ("lset:index-vs-len", &BEQ),
    ("lset:index-vs-minus-len", &BEQ),
    ("lrange:start-vs-len", &BEQ),
    ("lrange:stop-vs-len", &BEQ),
    ("lrange:start-vs-minus-len", &BEQ),
    ("lrange:stop-vs-minus-len", &BEQ),
    ("lrange:start-vs-stop", &BEQ),
    ("ltrim:start-vs-len", &BEQ),
    ("ltrim:stop-vs-len", &BEQ),
    ("ltrim:start-vs-minus-len", &BEQ),
    ("ltrim:stop-vs-minus-len", &BEQ),
    ("ltrim:start-vs-stop", &BEQ),
    // sorted sets: rank ranges
    ("zrange:start-vs-card", &BEQ),
    ("zrange:stop-vs-card", &BEQ),
    ("zrange:start-vs-minus-card", &BEQ),
    ("zrange:stop-vs-minus-card", &BEQ),
    ("zrange:start-vs-stop", &BEQ),
    ("zrevrange:start-vs-card", &BEQ),
    ("zrevrange:stop-vs-card", &BEQ),
    ("zrevrange:start-vs-minus-card", &BEQ),
    ("zrevrange:stop-vs-minus-card", &BEQ),
    ("zrevrange:start-vs-stop", &BEQ),
    // sorted sets: score ranges against the score of an existing member
    ("zcount:inclusive-min-vs-score", &BEQ),
    ("zcount:exclusive-min-vs-score", &BEQ),
    ("zcount:inclusive-max-vs-score", &BEQ),
    ("zcount:exclusive-max-vs-score", &BEQ),
    ("zcount:min-at-infinite-score", &IN_EX),
    ("zcount:max-at-infinite-score", &IN_EX),
    ("zrangebyscore:inclusive-min-vs-score", &BEQ),
    ("zrangebyscore:exclusive-min-vs-score", &BEQ),
    ("zrangebyscore:inclusive-max-vs-score", &BEQ),
    ("zrangebyscore:exclusive-max-vs-score", &BEQ),
    ("zrangebyscore:limit-offset-vs-zero", &BEQ),
    ("zrangebyscore:limit-offset-vs-result-size", &BEQ),
    ("zrangebyscore:limit-count-vs-result-size", &BEQ),
    ("zrangebyscore:limit-count-vs-zero", &EQ_AB),
    // rank of a member at the ends and inside a (possibly large, multi-level skiplist) sorted set
    ("zrank:member-position", &["first", "middle", "last"]),
    // ZADD against the current score
    ("zadd.gt:score-vs-current", &BEQ),
    ("zadd.lt:score-vs-current", &BEQ),
    ("zadd:score-vs-current", &BEQ),
    ("zadd:new-member-bytes-vs-member-with-equal-score", &BE_AB),
    // integers
    ("incrby:sum-vs-i64max", &BEQ),
    ("incrby:sum-vs-i64min", &BEQ),
    ("decrby:difference-vs-i64min", &BEQ),
    ("decrby:difference-vs-i64max", &BEQ),
    ("decrby:arg-vs-i64min", &EQ_AB),
    ("hincrby:sum-vs-i64max", &BEQ),
    ("hincrby:sum-vs-i64min", &BEQ),
    // counts
    ("spop:count-vs-cardinality", &BEQ),
    ("spop:count-vs-zero", &EQ_AB),
];

pub struct Ctx<'a> {
    pub out: &'a mut Out,
    pub s: &'a mut Sess,
    pub seq: &'a mut Vec<String>,
    pub prop: &'a str,
    pub canon: &'a mut String,
    pub changed: &'a mut u32,
    pub informative: &'a mut u32,
}

impl<'a> Ctx<'a> {
    pub fn step(&mut self, cmd: Command) -> StepOut {
        self.seq.push(format!("t={} {:?}", self.s.now, cmd));
        let so = do_step(self.out, self.s, &cmd, self.prop, self.seq);
        self.canon.push_str(&so.op);
        self.canon.push('\n');
        if so.before != so.after {
            *self.changed += 1;
        }
        if !so.is_err && so.reply != "_" && so.reply != ":0" && so.reply != "*0" {
            *self.informative += 1;
        }
        so
    }
    pub fn clock(&mut self, t: u64, evict: bool) {
        if t >= self.s.now {
            self.s.set_now(t, evict);
        }
    }
    fn visible(&mut self, k: &str) -> bool {
        matches!(self.s.ex.execute_readonly(&Command::Exists(vec![k.to_string()])), RespValue::Integer(1))
    }
    fn deadline(&mut self, k: &str) -> Option<u64> {
        let p = self.s.pttl(k);
        if p >= 0 {
            Some(self.s.now + p as u64)
        } else {
            None
        }
    }
    fn str_len(&mut self, k: &str) -> Option<usize> {
        if !self.visible(k) {
            return None;
        }
        match self.s.ex.get_data().get(k) {
            Some(Value::String(v)) => Some(v.len()),
            _ => None,
        }
    }
    fn list_len(&mut self, k: &str) -> Option<usize> {
        if !self.visible(k) {
            return None;
        }
        match self.s.ex.get_data().get(k) {
            Some(Value::List(l)) => Some(l.len()),
            _ => None,
        }
    }
    fn zset(&mut self, k: &str) -> Option<Vec<(Vec<u8>, f64)>> {
        if !self.visible(k) {
            return None;
        }
        match self.s.ex.get_data().get(k) {
            Some(Value::SortedSet(z)) => Some(z.range(0, -1).into_iter().map(|(m, s)| (m.as_bytes().to_vec(), s)).collect()),
            _ => None,
        }
    }
    fn set_card(&mut self, k: &str) -> Option<usize> {
        if !self.visible(k) {
            return None;
        }
        match self.s.ex.get_data().get(k) {
            Some(Value::Set(m)) => Some(m.len()),
            _ => None,
        }
    }
    fn int_value(&mut self, k: &str) -> Option<i64> {
        if !self.visible(k) {
            return None;
        }
        match self.s.ex.get_data().get(k) {
            Some(Value::String(v)) => std::str::from_utf8(v.as_bytes()).ok().and_then(|t| t.parse::<i64>().ok()).filter(|n| n.to_string().as_bytes() == v.as_bytes()),
            _ => None,
        }
    }

    // ---- make the state suitable (uses what is there when it fits, builds it otherwise)
    fn ensure_string(&mut self, rng: &mut Rng, k: &str) -> usize {
        match self.str_len(k) {
            Some(n) if n >= 1 && rng.chance(2, 3) => n,
            _ => {
                let v: Vec<u8> = (0..rng.range(1, 6)).map(|i| b'a' + i as u8).collect();
                self.step(Command::set(k.to_string(), SDS::new(v.clone())));
                v.len()
            }
        }
    }
    fn ensure_exists(&mut self, k: &str) {
        if !self.visible(k) {
            self.step(Command::set(k.to_string(), SDS::from_str("v")));
        }
    }
    fn ensure_list(&mut self, rng: &mut Rng, k: &str) -> usize {
        match self.list_len(k) {
            Some(n) if rng.chance(2, 3) => n,
            _ => {
                if self.visible(k) {
                    self.step(Command::Del(vec![k.to_string()]));
                }
                let n = rng.range(1, 4) as usize;
                self.step(Command::RPush(k.to_string(), (0..n).map(|i| SDS::from_str(&format!("e{}", i))).collect()));
                n
            }
        }
    }
    fn ensure_zset(&mut self, rng: &mut Rng, k: &str, finite: bool) -> Vec<(Vec<u8>, f64)> {
        if let Some(z) = self.zset(k) {
            if rng.chance(2, 3) && (!finite || z.iter().any(|(_, s)| s.is_finite() && s.fract() == 0.0 && s.abs() < 1e15)) {
                return z;
            }
        }
        if self.visible(k) {
            self.step(Command::Del(vec![k.to_string()]));
        }
        let n = rng.range(1, 4);
        let pairs: Vec<(f64, SDS)> = (0..n).map(|i| ((rng.below(5) as f64) - 2.0, SDS::from_str(&format!("m{}", i)))).collect();
        self.step(Command::ZAdd { key: k.to_string(), pairs, nx: false, xx: false, gt: false, lt: false, ch: false });
        self.zset(k).unwrap_or_default()
    }
    fn ensure_set(&mut self, rng: &mut Rng, k: &str) -> usize {
        match self.set_card(k) {
            Some(n) if rng.chance(2, 3) => n,
            _ => {
                if self.visible(k) {
                    self.step(Command::Del(vec![k.to_string()]));
                }
                let n = rng.range(1, 4) as usize;
                self.step(Command::SAdd(k.to_string(), (0..n).map(|i| SDS::from_str(&format!("s{}", i))).collect()));
                n
            }
        }
    }
    fn ensure_int(&mut self, rng: &mut Rng, k: &str, negative: bool) -> i64 {
        match self.int_value(k) {
            Some(v) if (v < 0) == negative && v != 0 && rng.chance(1, 2) => v,
            _ => {
                let v = if negative { -(rng.range(1, 50) as i64) } else { rng.range(1, 50) as i64 };
                self.step(Command::set(k.to_string(), SDS::from_str(&v.to_string())));
                v
            }
        }
    }
    /// give `k` a deadline; returns it.  `secs_aligned`: deadline − now is a whole number of seconds
    fn ensure_deadline(&mut self, rng: &mut Rng, k: &str, secs_aligned: bool) -> u64 {
        self.ensure_exists(k);
        if let Some(d) = self.deadline(k) {
            if (!secs_aligned || (d - self.s.now) % 1000 == 0) && d - self.s.now < 1_000_000_000 && rng.chance(1, 2) {
                return d;
            }
        }
        let d = if secs_aligned { self.s.now + rng.range(2, 6) * 1000 } else { self.s.now + rng.range(2, 6000) };
        self.step(Command::PExpireAt(k.to_string(), d as i64));
        d
    }
}

fn off(cell: usize) -> i64 {
    cell as i64 - 1 // below = -1, equal = 0, above = +1
}

fn noflags(key: &str, secs: i64) -> Command {
    Command::Expire { key: key.to_string(), seconds: secs, nx: false, xx: false, gt: false, lt: false }
}
fn pnoflags(key: &str, ms: i64) -> Command {
    Command::PExpire { key: key.to_string(), milliseconds: ms, nx: false, xx: false, gt: false, lt: false }
}
fn set_with(key: &str, f: impl Fn(&mut Option<i64>, &mut Option<i64>, &mut Option<i64>, &mut Option<i64>)) -> Command {
    let mut c = Command::set(key.to_string(), SDS::from_str("v"));
    if let Command::Set { ex, px, exat, pxat, .. } = &mut c {
        f(ex, px, exat, pxat);
    }
    c
}
fn getex_with(key: &str, f: impl Fn(&mut Option<i64>, &mut Option<i64>, &mut Option<i64>, &mut Option<i64>)) -> Command {
    let mut c = Command::GetEx { key: key.to_string(), ex: None, px: None, exat: None, pxat: None, persist: false };
    if let Command::GetEx { ex, px, exat, pxat, .. } = &mut c {
        f(ex, px, exat, pxat);
    }
    c
}
fn bound(excl: bool, v: f64) -> String {
    format!("{}{}", if excl { "(" } else { "" }, score_text(v))
}

/// align the clock so that `now % 1000 == r`
fn align_clock(cx: &mut Ctx, rng: &mut Rng, r: u64) {
    let now = cx.s.now;
    let t = now - now % 1000 + r + if now % 1000 > r { 1000 } else { 0 };
    cx.clock(t, !rng.chance(1, 4));
}

/// run the boundary scenario of `site` / `cell` from the current state; counts the cell
pub fn scenario(cx: &mut Ctx, rng: &mut Rng, site: &str, cell: usize) {
    let k = key(rng);
    let k = k.as_str();
    let d = off(cell);
    let xx = rng.chance(1, 4);
    match site {
        "expire.gt:new-deadline-vs-current" | "expire.lt:new-deadline-vs-current" => {
            let gt = site.starts_with("expire.gt");
            let cur = cx.ensure_deadline(rng, k, true);
            let mut secs = ((cur - cx.s.now) / 1000) as i64;
            match rng.below(3) {
                0 => {
                    // whole seconds: EXPIRE k (S-1 | S | S+1)
                    secs += d;
                }
                1 => {
                    // the clock advances by an exact multiple of 1000 ms first (as in the seed's 2nd case)
                    if secs > 1 {
                        let j = rng.range(1, secs as u64 - 1);
                        let t = cx.s.now + j * 1000;
                        cx.clock(t, !rng.chance(1, 4));
                        secs -= j as i64;
                    }
                    secs += d;
                }
                _ => {
                    // ±1 ms around the multiple: the current deadline is put one ms above / at / one
                    // ms below now + S*1000, then EXPIRE k S
                    let target = cx.s.now as i64 + secs * 1000 - d;
                    cx.step(Command::PExpireAt(k.to_string(), target));
                }
            }
            cx.step(Command::Expire { key: k.to_string(), seconds: secs, nx: false, xx, gt, lt: !gt });
        }
        "pexpire.gt:new-deadline-vs-current" | "pexpire.lt:new-deadline-vs-current" => {
            let gt = site.starts_with("pexpire.gt");
            let cur = cx.ensure_deadline(rng, k, false);
            let ms = (cur - cx.s.now) as i64 + d;
            cx.step(Command::PExpire { key: k.to_string(), milliseconds: ms, nx: false, xx, gt, lt: !gt });
        }
        "expire:deadline-vs-now" => {
            cx.ensure_exists(k);
            cx.step(noflags(k, d));
        }
        "pexpire:deadline-vs-now" => {
            cx.ensure_exists(k);
            cx.step(pnoflags(k, d));
        }
        "expireat:deadline-vs-now" => {
            cx.ensure_exists(k);
            // t*1000 vs now at ms precision: clock ≡ 0 (equal), 1 (t*1000 = now-1: below), 999 (t*1000+… above)
            if rng.chance(1, 2) {
                align_clock(cx, rng, 0);
                cx.ensure_exists(k);
                let t = (cx.s.now / 1000) as i64 + d;
                cx.step(Command::ExpireAt(k.to_string(), t));
            } else {
                let (r, add) = match cell {
                    0 => (1u64, 0i64),  // t*1000 = now - 1
                    1 => (0, 0),        // t*1000 = now
                    _ => (999, 1),      // t*1000 = now + 1
                };
                align_clock(cx, rng, r);
                cx.ensure_exists(k);
                let t = (cx.s.now / 1000) as i64 + add;
                cx.step(Command::ExpireAt(k.to_string(), t));
            }
        }
        "pexpireat:deadline-vs-now" => {
            cx.ensure_exists(k);
            cx.step(Command::PExpireAt(k.to_string(), cx.s.now as i64 + d));
        }
        "expire:secs-vs-i64max/1000" => {
            cx.ensure_exists(k);
            cx.step(noflags(k, i64::MAX / 1000 + d));
        }
        "expire:secs-vs-i64min/1000" => {
            cx.ensure_exists(k);
            cx.step(noflags(k, i64::MIN / 1000 + d));
        }
        "expire:secs*1000-vs-i64max-now" => {
            // (i64::MAX - now) is a multiple of 1000 iff now ≡ 807 (mod 1000)
            align_clock(cx, rng, 807);
            cx.ensure_exists(k);
            let secs = (i64::MAX - cx.s.now as i64) / 1000 + d;
            cx.step(noflags(k, secs));
            cx.step(Command::Del(vec![k.to_string()])); // no key keeps a deadline next to i64::MAX
        }
        "pexpire:ms-vs-i64max-now" => {
            cx.ensure_exists(k);
            cx.step(pnoflags(k, i64::MAX - cx.s.now as i64 + d));
            cx.step(Command::Del(vec![k.to_string()]));
        }
        "expireat:secs-vs-i64max/1000" => {
            cx.ensure_exists(k);
            cx.step(Command::ExpireAt(k.to_string(), i64::MAX / 1000 + d));
        }
        "expireat:secs-vs-i64min/1000" => {
            cx.ensure_exists(k);
            cx.step(Command::ExpireAt(k.to_string(), i64::MIN / 1000 + d));
        }
        "set.ex:arg-vs-zero" => {
            cx.step(set_with(k, |ex, _, _, _| *ex = Some(d)));
        }
        "set.px:arg-vs-zero" => {
            cx.step(set_with(k, |_, px, _, _| *px = Some(d)));
        }
        "set.exat:arg-vs-zero" => {
            cx.step(set_with(k, |_, _, exat, _| *exat = Some(d)));
        }
        "set.pxat:arg-vs-zero" => {
            cx.step(set_with(k, |_, _, _, pxat| *pxat = Some(d)));
        }
        "set.ex:secs-vs-i64max/1000" => {
            cx.step(set_with(k, |ex, _, _, _| *ex = Some(i64::MAX / 1000 + d)));
        }
        "set.exat:secs-vs-i64max/1000" => {
            cx.step(set_with(k, |_, _, exat, _| *exat = Some(i64::MAX / 1000 + d)));
        }
        "set.px:ms-vs-i64max-now" => {
            let v = i64::MAX - cx.s.now as i64 + d;
            cx.step(set_with(k, |_, px, _, _| *px = Some(v)));
            cx.step(Command::Del(vec![k.to_string()]));
        }
        "set.pxat:deadline-vs-now" => {
            let v = cx.s.now as i64 + d;
            cx.step(set_with(k, |_, _, _, pxat| *pxat = Some(v)));
            cx.step(Command::Get(k.to_string()));
        }
        "set.exat:deadline-vs-now" => {
            align_clock(cx, rng, 0);
            let v = (cx.s.now / 1000) as i64 + d;
            cx.step(set_with(k, |_, _, exat, _| *exat = Some(v)));
            cx.step(Command::Get(k.to_string()));
        }
        "getex.ex:arg-vs-zero" | "getex.px:arg-vs-zero" | "getex.exat:arg-vs-zero" | "getex.pxat:arg-vs-zero" => {
            cx.ensure_string(rng, k);
            let which = site.to_string();
            cx.step(getex_with(k, |ex, px, exat, pxat| {
                if which.starts_with("getex.ex:") {
                    *ex = Some(d)
                } else if which.starts_with("getex.px:") {
                    *px = Some(d)
                } else if which.starts_with("getex.exat:") {
                    *exat = Some(d)
                } else {
                    *pxat = Some(d)
                }
            }));
        }
        "getex.px:ms-vs-i64max-now" => {
            cx.ensure_string(rng, k);
            let v = i64::MAX - cx.s.now as i64 + d;
            cx.step(getex_with(k, |_, px, _, _| *px = Some(v)));
            cx.step(Command::Del(vec![k.to_string()]));
        }
        "getex.pxat:deadline-vs-now" => {
            cx.ensure_string(rng, k);
            let v = cx.s.now as i64 + d;
            cx.step(getex_with(k, |_, _, _, pxat| *pxat = Some(v)));
            cx.step(Command::Exists(vec![k.to_string()]));
        }
        "ttl:remaining-ms-mod-1000-vs-500" => {
            cx.ensure_exists(k);
            let ms = rng.below(4) as i64 * 1000 + 500 + d;
            cx.step(pnoflags(k, ms));
            cx.step(Command::Ttl(k.to_string()));
        }
        "expiretime:deadline-ms-mod-1000-vs-500" => {
            cx.ensure_exists(k);
            let base = cx.s.now - cx.s.now % 1000 + (2 + rng.below(4)) * 1000;
            cx.step(Command::PExpireAt(k.to_string(), base as i64 + 500 + d));
            cx.step(Command::ExpireTime(k.to_string()));
        }
        "visibility:now-vs-deadline" => {
            let al = rng.chance(1, 2);
            let dl = cx.ensure_deadline(rng, k, al);
            cx.clock((dl as i64 + d) as u64, rng.chance(1, 2));
            let c = match rng.below(8) {
                0 => Command::Get(k.to_string()),
                1 => Command::Exists(vec![k.to_string()]),
                2 => Command::TypeOf(k.to_string()),
                3 => Command::Pttl(k.to_string()),
                4 => Command::Append(k.to_string(), SDS::from_str("x")),
                5 => Command::Del(vec![k.to_string()]),
                6 => Command::Keys("*".into()),
                _ => Command::Persist(k.to_string()),
            };
            cx.step(c);
        }
        "getrange:start-vs-len" => {
            let n = cx.ensure_string(rng, k) as isize;
            cx.step(Command::GetRange(k.to_string(), n + d as isize, *rng.pick(&[-1isize, n + 5, n])));
        }
        "getrange:end-vs-len" => {
            let n = cx.ensure_string(rng, k) as isize;
            cx.step(Command::GetRange(k.to_string(), *rng.pick(&[0isize, 1, -n]), n + d as isize));
        }
        "getrange:start-vs-minus-len" => {
            let n = cx.ensure_string(rng, k) as isize;
            cx.step(Command::GetRange(k.to_string(), -n + d as isize, *rng.pick(&[-1isize, 0, n])));
        }
        "getrange:end-vs-minus-len" => {
            let n = cx.ensure_string(rng, k) as isize;
            cx.step(Command::GetRange(k.to_string(), *rng.pick(&[0isize, -n - 2, -n]), -n + d as isize));
        }
        "getrange:start-vs-end" => {
            let n = cx.ensure_string(rng, k) as isize;
            let e = rng.below(n as u64 + 1) as isize;
            cx.step(Command::GetRange(k.to_string(), e + d as isize, e));
        }
        "getrange:negative-start-vs-negative-end" => {
            let n = cx.ensure_string(rng, k) as isize;
            let e = -(rng.range(1, n as u64 + 3) as isize);
            cx.step(Command::GetRange(k.to_string(), e + d as isize, e));
        }
        "setrange:offset-vs-len" => {
            let n = cx.ensure_string(rng, k) as i64;
            cx.step(Command::SetRange(k.to_string(), (n + d).max(0) as usize, SDS::from_str(*rng.pick(&["Z", "ZZ", ""]))));
        }
        "append:total-length-vs-sds-inline-limit" | "setrange:end-vs-sds-inline-limit" => {
            let mut n = cx.ensure_string(rng, k) as i64;
            if n > 18 {
                cx.step(Command::set(k.to_string(), SDS::from_str("abcde")));
                n = 5;
            }
            let total = 23 + d; // 22 / 23 / 24 bytes afterwards
            if site.starts_with("append") {
                let v: Vec<u8> = (0..(total - n)).map(|i| b'A' + (i % 26) as u8).collect();
                cx.step(Command::Append(k.to_string(), SDS::new(v)));
            } else {
                // write the tail so that it ends exactly at `total`: inside, at the end, or past the end (zero padding)
                let off = match rng.below(3) { 0 => n - 1, 1 => n, _ => n + 2 }.max(0);
                let v: Vec<u8> = (0..(total - off)).map(|i| b'a' + (i % 26) as u8).collect();
                cx.step(Command::SetRange(k.to_string(), off as usize, SDS::new(v)));
            }
            cx.step(Command::Get(k.to_string()));
            cx.step(Command::Append(k.to_string(), SDS::from_str("+")));
            cx.step(Command::StrLen(k.to_string()));
        }
        "set:value-length-vs-sds-inline-limit" => {
            let v: Vec<u8> = (0..(23 + d)).map(|i| (i * 37 % 251) as u8).collect();
            cx.step(Command::set(k.to_string(), SDS::new(v)));
            cx.step(Command::GetRange(k.to_string(), -3, -1));
            cx.step(Command::SetRange(k.to_string(), 21, SDS::from_str("xyz")));
            cx.step(Command::Get(k.to_string()));
        }
        "lindex:index-vs-len" | "lindex:index-vs-minus-len" | "lset:index-vs-len" | "lset:index-vs-minus-len" => {
            let n = cx.ensure_list(rng, k) as isize;
            let i = if site.ends_with("minus-len") { -n + d as isize } else { n + d as isize };
            if site.starts_with("lindex") {
                cx.step(Command::LIndex(k.to_string(), i));
            } else {
                cx.step(Command::LSet(k.to_string(), i, SDS::from_str("new")));
            }
        }
        s if s.starts_with("lrange:") || s.starts_with("ltrim:") || s.starts_with("zrange:") || s.starts_with("zrevrange:") => {
            let is_z = s.starts_with('z');
            let n = if is_z { cx.ensure_zset(rng, k, false).len() as isize } else { cx.ensure_list(rng, k) as isize };
            let di = d as isize;
            let what = &s[s.find(':').unwrap() + 1..];
            let (a, b) = match what {
                "start-vs-len" | "start-vs-card" => (n + di, *rng.pick(&[-1isize, n + 3])),
                "stop-vs-len" | "stop-vs-card" => (*rng.pick(&[0isize, 1, -n]), n + di),
                "start-vs-minus-len" | "start-vs-minus-card" => (-n + di, *rng.pick(&[-1isize, 0, n])),
                "stop-vs-minus-len" | "stop-vs-minus-card" => (*rng.pick(&[0isize, -n - 2, -n]), -n + di),
                _ => {
                    let e = rng.below(n as u64 + 1) as isize;
                    (e + di, e)
                }
            };
            let c = if s.starts_with("lrange") {
                Command::LRange(k.to_string(), a, b)
            } else if s.starts_with("ltrim") {
                Command::LTrim(k.to_string(), a, b)
            } else if s.starts_with("zrange") {
                Command::ZRange(k.to_string(), a, b, rng.chance(1, 2))
            } else {
                Command::ZRevRange(k.to_string(), a, b, rng.chance(1, 2))
            };
            cx.step(c);
        }
        s if (s.starts_with("zcount:") || s.starts_with("zrangebyscore:")) && s.ends_with("-vs-score") => {
            let z = cx.ensure_zset(rng, k, true);
            let fin: Vec<f64> = z.iter().map(|(_, sc)| *sc).filter(|sc| sc.is_finite() && sc.fract() == 0.0 && sc.abs() < 1e15).collect();
            let sc = if fin.is_empty() { 0.0 } else { *rng.pick(&fin) };
            let excl = s.contains("exclusive");
            let is_min = s.contains("-min-");
            let b = bound(excl, sc + d as f64);
            let other = if is_min { rng.pick(&["+inf", "inf", "(inf"]).to_string() } else { rng.pick(&["-inf", "(-inf"]).to_string() };
            let (min, max) = if is_min { (b, other) } else { (other, b) };
            if s.starts_with("zcount") {
                cx.step(Command::ZCount(k.to_string(), min, max));
            } else {
                cx.step(Command::ZRangeByScore { key: k.to_string(), min, max, with_scores: rng.chance(1, 2), limit: None });
            }
        }
        "zcount:min-at-infinite-score" | "zcount:max-at-infinite-score" => {
            let is_min = site.contains("min-at");
            if cx.visible(k) {
                cx.step(Command::Del(vec![k.to_string()]));
            }
            cx.step(Command::ZAdd {
                key: k.to_string(),
                pairs: vec![(f64::NEG_INFINITY, SDS::from_str("lo")), (0.0, SDS::from_str("mid")), (f64::INFINITY, SDS::from_str("hi"))],
                nx: false, xx: false, gt: false, lt: false, ch: false,
            });
            let excl = cell == 1;
            let (min, max) = if is_min {
                (bound(excl, if rng.chance(1, 2) { f64::INFINITY } else { f64::NEG_INFINITY }), "+inf".to_string())
            } else {
                ("-inf".to_string(), bound(excl, if rng.chance(1, 2) { f64::INFINITY } else { f64::NEG_INFINITY }))
            };
            cx.step(Command::ZCount(k.to_string(), min, max));
        }
        "zrangebyscore:limit-offset-vs-zero" | "zrangebyscore:limit-offset-vs-result-size" | "zrangebyscore:limit-count-vs-result-size" | "zrangebyscore:limit-count-vs-zero" => {
            let n = cx.ensure_zset(rng, k, false).len() as i64;
            let limit = match site {
                "zrangebyscore:limit-offset-vs-zero" => (d as isize, rng.range(1, 3) as usize),
                "zrangebyscore:limit-offset-vs-result-size" => ((n + d) as isize, 2),
                "zrangebyscore:limit-count-vs-result-size" => (0, (n + d).max(0) as usize),
                _ => (0, cell), // count 0 | 1
            };
            cx.step(Command::ZRangeByScore { key: k.to_string(), min: "-inf".into(), max: "+inf".into(), with_scores: rng.chance(1, 2), limit: Some(limit) });
        }
        "zadd.gt:score-vs-current" | "zadd.lt:score-vs-current" | "zadd:score-vs-current" => {
            let z = cx.ensure_zset(rng, k, true);
            let fin: Vec<&(Vec<u8>, f64)> = z.iter().filter(|(_, sc)| sc.is_finite() && sc.fract() == 0.0 && sc.abs() < 1e15).collect();
            if let Some((m, sc)) = fin.first().map(|x| (*x).clone()) {
                let (gt, lt) = (site.starts_with("zadd.gt"), site.starts_with("zadd.lt"));
                cx.step(Command::ZAdd { key: k.to_string(), pairs: vec![(sc + d as f64, SDS::new(m))], nx: false, xx: xx && (gt || lt), gt, lt, ch: rng.chance(1, 2) });
            } else {
                return;
            }
        }
        "zrank:member-position" => {
            let mut z = cx.zset(k).unwrap_or_default();
            if z.len() < 3 || rng.chance(1, 2) {
                if cx.visible(k) {
                    cx.step(Command::Del(vec![k.to_string()]));
                }
                let n = *rng.pick(&[3u64, 4, 5, 8, 13, 21, 40]);
                let pairs: Vec<(f64, SDS)> = (0..n).map(|i| ((rng.below(n / 2 + 1) as f64) - 1.0, SDS::from_str(&format!("m{:02}", (i * 7) % n)))).collect();
                cx.step(Command::ZAdd { key: k.to_string(), pairs, nx: false, xx: false, gt: false, lt: false, ch: false });
                z = cx.zset(k).unwrap_or_default();
            }
            if z.is_empty() {
                return;
            }
            let i = match cell {
                0 => 0,
                2 => z.len() - 1,
                _ => (1 + rng.below((z.len() as u64).saturating_sub(2).max(1))) as usize % z.len(),
            };
            cx.step(Command::ZRank(k.to_string(), SDS::new(z[i].0.clone())));
            cx.step(Command::ZScore(k.to_string(), SDS::new(z[i].0.clone())));
        }
        "zadd:new-member-bytes-vs-member-with-equal-score" => {
            if cx.visible(k) {
                cx.step(Command::Del(vec![k.to_string()]));
            }
            cx.step(Command::ZAdd { key: k.to_string(), pairs: vec![(1.0, SDS::from_str("m"))], nx: false, xx: false, gt: false, lt: false, ch: false });
            let newm = if cell == 0 { *rng.pick(&["l", "", "lz", "M"]) } else { *rng.pick(&["n", "ma", "mm"]) };
            cx.step(Command::ZAdd { key: k.to_string(), pairs: vec![(1.0, SDS::from_str(newm))], nx: false, xx: false, gt: false, lt: false, ch: false });
            cx.step(Command::ZRange(k.to_string(), 0, -1, false));
        }
        "incrby:sum-vs-i64max" => {
            let v = cx.ensure_int(rng, k, false);
            cx.step(Command::IncrBy(k.to_string(), (i64::MAX - v).saturating_add(d)));
        }
        "incrby:sum-vs-i64min" => {
            let v = cx.ensure_int(rng, k, true);
            cx.step(Command::IncrBy(k.to_string(), (i64::MIN - v).saturating_add(-d)));
        }
        "decrby:difference-vs-i64min" => {
            // v - x = i64::MIN - {…}: x = v - i64::MIN needs v <= -1
            let v = cx.ensure_int(rng, k, true);
            cx.step(Command::DecrBy(k.to_string(), (v - i64::MIN).saturating_add(d)));
        }
        "decrby:difference-vs-i64max" => {
            // v - x = i64::MAX + {…}: x = v - i64::MAX (negative), v >= 1 … x >= i64::MIN+2
            let v = cx.ensure_int(rng, k, false);
            cx.step(Command::DecrBy(k.to_string(), v - i64::MAX - d));
        }
        "decrby:arg-vs-i64min" => {
            let neg = rng.chance(1, 2);
            cx.ensure_int(rng, k, neg);
            cx.step(Command::DecrBy(k.to_string(), i64::MIN + cell as i64));
        }
        "hincrby:sum-vs-i64max" | "hincrby:sum-vs-i64min" => {
            let max = site.ends_with("max");
            if cx.visible(k) {
                cx.step(Command::Del(vec![k.to_string()]));
            }
            let v = if max { rng.range(1, 50) as i64 } else { -(rng.range(1, 50) as i64) };
            cx.step(Command::HSet(k.to_string(), vec![(SDS::from_str("f"), SDS::from_str(&v.to_string()))]));
            let delta = if max { (i64::MAX - v).saturating_add(d) } else { (i64::MIN - v).saturating_add(-d) };
            cx.step(Command::HIncrBy(k.to_string(), SDS::from_str("f"), delta));
        }
        "spop:count-vs-cardinality" => {
            let n = cx.ensure_set(rng, k) as i64;
            cx.step(Command::SPop(k.to_string(), Some((n + d).max(0) as usize)));
        }
        "spop:count-vs-zero" => {
            cx.ensure_set(rng, k);
            cx.step(Command::SPop(k.to_string(), Some(cell)));
        }
        other => {
            eprintln!("boundary: unknown site {}", other);
            std::process::exit(3);
        }
    }
    let cells = SITES.iter().find(|(s, _)| *s == site).map(|(_, c)| *c).unwrap();
    cx.out.count(&format!("boundary|{}|{}", site, cells[cell]));
}

/// site × cell counts for the evidence; exits non-zero when a listed site has an empty cell
pub fn coverage_table(out: &mut Out) {
    let mut table = serde_json::Map::new();
    let mut missing: Vec<String> = Vec::new();
    for (site, cells) in SITES {
        let mut row = serde_json::Map::new();
        for c in cells.iter() {
            let n = out.dist.get(&format!("boundary|{}|{}", site, c)).copied().unwrap_or(0);
            if n == 0 {
                missing.push(format!("{} / {}", site, c));
            }
            row.insert(c.to_string(), serde_json::json!(n));
        }
        table.insert(site.to_string(), serde_json::Value::Object(row));
    }
    out.extra.insert("boundary_coverage".into(), serde_json::Value::Object(table));
    out.extra.insert("boundary_sites".into(), serde_json::json!(SITES.len()));
    if !missing.is_empty() {
        eprintln!("boundary coverage: empty cell(s): {}", missing.join("; "));
        std::process::exit(3);
    }
}

/// the boundary pass: every site × cell `reps` times, each on a fresh executor after a short random prefix
pub fn boundary_pass(out: &mut Out, rng: &mut Rng, prop: &str, reps: u64) {
    for (site, cells) in SITES {
        for cell in 0..cells.len() {
            for _ in 0..reps {
                let start = BASE_MS + rng.below(5000);
                let mut s = reset(out, start);
                let mut seq: Vec<String> = Vec::new();
                let mut canon = String::new();
                let (mut changed, mut informative) = (0u32, 0u32);
                for _ in 0..rng.below(6) {
                    let t = next_time(rng, &mut s);
                    s.set_now(t, !rng.chance(1, 6));
                    let cmd = gen_cmd(rng, s.now);
                    seq.push(format!("t={} {:?}", t, cmd));
                    let so = do_step(out, &mut s, &cmd, prop, &seq);
                    canon.push_str(&so.op);
                    canon.push('\n');
                }
                {
                    let mut cx = Ctx { out, s: &mut s, seq: &mut seq, prop, canon: &mut canon, changed: &mut changed, informative: &mut informative };
                    scenario(&mut cx, rng, site, cell);
                }
                out.case(&canon, true);
            }
        }
    }
}

/// a random site / cell, from the current state of a running sequence
pub fn random_boundary(cx: &mut Ctx, rng: &mut Rng) {
    let (site, cells) = SITES[rng.below(SITES.len() as u64) as usize];
    let cell = rng.below(cells.len() as u64) as usize;
    scenario(cx, rng, site, cell);
}
