//! C19 — key placement is a function of membership; selective gossip reaches every owner.
//! Correspondence: real `HashRing` / `GossipRouter` / `GossipState` vs the model
//! (`lean/RedisVerif/Model/Ring.lean`).  The model never hashes: the real virtual-node positions
//! (hook H2 `verif_ring_positions`) are sent once per node id (`V` lines) and every key is sent
//! as its real ring position (hook H2 `verif_key_position`).
//! Oracle (on the real code only): different rings / replica lists across join orders, wrong
//! replica count / duplicates / non-members, a placement change for a key that does not involve
//! the added / removed node, an owner not targeted or a non-owner targeted by
//! `get_gossip_targets` / `route_deltas` / `queue_deltas`, wrong `from_config` peer ids.
use crate::out::Out;
use crate::rng::Rng;
use crate::Args;
use redis_sim::redis::SDS;
use redis_sim::replication::{
    GossipMessage, GossipRouter, GossipState, HashRing, LamportClock, ReplicaId, ReplicatedValue,
    ReplicationConfig, ReplicationDelta,
};
use serde_json::json;
use std::collections::{BTreeMap, BTreeSet, HashMap};
use std::sync::{Arc, RwLock};

const MAX_VNODES: u32 = 200;
const CHK_P: u128 = 2305843009213693951;

struct Ctx {
    out: Out,
    defined: BTreeSet<u64>,
}

fn csv(v: &[u64]) -> String {
    v.iter().map(|x| x.to_string()).collect::<Vec<_>>().join(",")
}

fn ids(v: &[ReplicaId]) -> Vec<u64> {
    v.iter().map(|r| r.0).collect()
}

fn ring_summary(r: &HashRing) -> (String, bool) {
    let pos = r.verif_ring_positions();
    let mut h: u128 = 0;
    for (p, n, i) in &pos {
        h = (h * 1000003 + (*p as u128) % CHK_P + ((*n as u128) % CHK_P) * 31 + (*i as u128) + 1) % CHK_P;
    }
    // PosInjective, checked at run time on the real positions
    let mut ps: Vec<u64> = pos.iter().map(|x| x.0).collect();
    ps.sort();
    let inj = ps.windows(2).all(|w| w[0] != w[1]);
    let mut s = format!("ring {} {} inj={} rf={} n={} ver={} phys", pos.len(), h, inj as u8, r.replication_factor(), r.node_count(), r.version());
    for n in r.nodes() {
        s.push_str(&format!(" {}", n.0));
    }
    (s, inj)
}

impl Ctx {
    /// make sure the model knows the real positions of this node's virtual nodes
    fn define(&mut self, node: u64) {
        if self.defined.insert(node) {
            let r = HashRing::new(vec![ReplicaId::new(node)], MAX_VNODES, 1);
            let mut pos = r.verif_ring_positions();
            pos.sort_by_key(|x| x.2);
            let mut s = format!("V {} {}", node, pos.len());
            for (p, n, i) in &pos {
                assert!(*n == node && *i as usize <= pos.len());
                s.push_str(&format!(" {}", p));
            }
            self.out.op(s, "ok conflicts=0".into());
        }
    }

    /// `KP` line: the real ring positions of the keys (hook H2); the model computes its own
    /// (SipHash-1-3 of the key's bytes and 0xff) and counts the differences
    fn op_key_positions(&mut self, keys: &[String]) {
        let mut l = format!("KP {}", keys.len());
        for k in keys {
            l.push_str(&format!(" {} {}", crate::enc::hex(k.as_bytes()), HashRing::verif_key_position(k)));
        }
        self.out.op(l, "ok conflicts=0".into());
    }

    /// `SIP` lines: the real `DefaultHasher` on raw byte strings (every length 0..=24, then random)
    fn op_sip(&mut self, rng: &mut Rng, n: usize) {
        use std::hash::Hasher;
        for i in 0..n {
            let len = if i <= 24 { i } else { rng.range(25, 200) as usize };
            let bytes: Vec<u8> = (0..len).map(|_| match rng.below(4) { 0 => 0, 1 => 255, _ => rng.below(256) as u8 }).collect();
            let mut h = std::collections::hash_map::DefaultHasher::new();
            h.write(&bytes);
            self.out.op(format!("SIP {}", crate::enc::hex(&bytes)), h.finish().to_string());
        }
    }

    fn op_new(&mut self, nodes: &[u64], vnodes: u32, rf: usize) -> HashRing {
        for n in nodes {
            self.define(*n);
        }
        let r = HashRing::new(nodes.iter().map(|n| ReplicaId::new(*n)).collect(), vnodes, rf);
        let (s, inj) = ring_summary(&r);
        self.out.count(if inj { "posinj:holds" } else { "posinj:collision" });
        let mut l = format!("NEW {} {} {}", vnodes, rf, nodes.len());
        for n in nodes {
            l.push_str(&format!(" {}", n));
        }
        self.out.op(l, s);
        r
    }

    /// `K` line: replica lists of all keys (default rf or explicit)
    fn op_replicas(&mut self, r: &HashRing, keys: &[String], rf: Option<usize>) -> Vec<Vec<u64>> {
        let mut l = format!("K {} {}", rf.map(|x| x.to_string()).unwrap_or("-".into()), keys.len());
        let mut res = Vec::new();
        for k in keys {
            l.push_str(&format!(" {}", HashRing::verif_key_position(k)));
            let reps = match rf {
                None => r.get_replicas(k),
                Some(x) => r.get_replicas_with_rf(k, x),
            };
            res.push(ids(&reps));
        }
        let a = format!("r {}", res.iter().map(|x| csv(x)).collect::<Vec<_>>().join("|"));
        self.out.op(l, a);
        res
    }

    /// `OBS` line: is_responsible / is_responsible_with_rf / get_primary / contains_node for
    /// (key, node) pairs, checked against get_replicas on the real ring
    fn op_observers(&mut self, r: &HashRing, pairs: &[(String, u64)], rf: usize) {
        let mut l = format!("OBS {} {}", rf, pairs.len());
        let mut a = Vec::new();
        for (k, n) in pairs {
            l.push_str(&format!(" {} {}", HashRing::verif_key_position(k), n));
            let node = ReplicaId::new(*n);
            let (resp, resp_rf, prim, has) = (r.is_responsible(k, node), r.is_responsible_with_rf(k, node, rf), r.get_primary(k), r.contains_node(node));
            a.push(format!("{}:{}:{}:{}", resp as u8, resp_rf as u8, prim.map(|p| p.0.to_string()).unwrap_or("-".into()), has as u8));
            let reps = r.get_replicas(k);
            let reps_rf = r.get_replicas_with_rf(k, rf);
            if resp != reps.contains(&node) || resp_rf != reps_rf.contains(&node) || prim != reps.first().cloned() || has != r.nodes().contains(&node) {
                self.out.violation("C19:observers:disagree-with-replica-list",
                    "is_responsible / is_responsible_with_rf / get_primary / contains_node disagree with get_replicas / nodes()",
                    json!({"key": k, "node": n, "rf": rf, "replicas": ids(&reps), "replicas_rf": ids(&reps_rf), "is_responsible": resp, "is_responsible_with_rf": resp_rf, "primary": prim.map(|p| p.0), "contains_node": has}));
            }
        }
        self.out.op(l, format!("o {}", a.join("|")));
        self.out.count("observers:probed");
    }

    /// `STATS` line: get_distribution_stats (the integer fields)
    fn op_stats(&mut self, r: &HashRing, keys: &[String]) {
        let refs: Vec<&str> = keys.iter().map(|k| k.as_str()).collect();
        let st = r.get_distribution_stats(&refs);
        let mut l = format!("STATS {}", keys.len());
        for k in keys {
            l.push_str(&format!(" {}", HashRing::verif_key_position(k)));
        }
        self.out.op(l, format!("stats {} {} {}", st.total_assignments, st.min_per_node, st.max_per_node));
    }

    /// `NEWD` line: HashRing::with_defaults
    fn op_new_defaults(&mut self, nodes: &[u64]) -> HashRing {
        for n in nodes {
            self.define(*n);
        }
        let r = HashRing::with_defaults(nodes.iter().map(|n| ReplicaId::new(*n)).collect());
        let (s, _) = ring_summary(&r);
        let mut l = format!("NEWD {}", nodes.len());
        for n in nodes {
            l.push_str(&format!(" {}", n));
        }
        self.out.op(l, s);
        r
    }

    fn op_targets(&mut self, r: &HashRing, keys: &[String], sender: u64) -> Vec<Vec<u64>> {
        let mut l = format!("T {} {}", sender, keys.len());
        let mut res = Vec::new();
        for k in keys {
            l.push_str(&format!(" {}", HashRing::verif_key_position(k)));
            res.push(ids(&r.get_gossip_targets(k, ReplicaId::new(sender))));
        }
        let a = format!("t {}", res.iter().map(|x| csv(x)).collect::<Vec<_>>().join("|"));
        self.out.op(l, a);
        res
    }
}

fn rand_key(rng: &mut Rng) -> String {
    match rng.below(8) {
        0 => String::new(),
        1 => format!("key_{}", rng.below(1000)),
        2 => format!("user:{}:profile", rng.below(100000)),
        3 => "é€😀".repeat(rng.range(1, 3) as usize),
        4 => format!("{{tag{}}}:{}", rng.below(4), rng.below(50)),
        5 => (0..rng.range(1, 40)).map(|_| (b'a' + rng.below(26) as u8) as char).collect(),
        6 => format!("{}", rng.next()),
        _ => format!("k{}", rng.below(20)),
    }
}

/// the `i`-th delta of a batch: its own payload and stamp, so that two deltas for the same key are
/// different UPDATES (identity = position in the batch, readable from the stamp)
fn mk_delta_i(key: &str, src: u64, i: usize) -> ReplicationDelta {
    let rid = ReplicaId::new(src);
    ReplicationDelta::new(
        key.to_string(),
        ReplicatedValue::with_value(SDS::from_str(&format!("v{}", i)), LamportClock { time: i as u64 + 1, replica_id: rid }),
        rid,
    )
}

fn delta_index(d: &ReplicationDelta) -> usize {
    d.value.timestamp.time as usize - 1
}

fn mk_delta(key: &str, src: u64) -> ReplicationDelta {
    let rid = ReplicaId::new(src);
    ReplicationDelta::new(
        key.to_string(),
        ReplicatedValue::with_value(SDS::from_str("v"), LamportClock::new(rid)),
        rid,
    )
}

fn permutations(xs: &[u64]) -> Vec<Vec<u64>> {
    if xs.len() <= 1 {
        return vec![xs.to_vec()];
    }
    let mut res = Vec::new();
    for i in 0..xs.len() {
        let mut rest = xs.to_vec();
        let x = rest.remove(i);
        for mut p in permutations(&rest) {
            p.insert(0, x);
            res.push(p);
        }
    }
    res
}

/// property oracle on one replica list
fn check_count(out: &mut Out, reps: &[u64], rf: usize, members: &[u64], vnodes: u32, replay: serde_json::Value) {
    if vnodes == 0 {
        out.count("excluded:vnodes=0");
        if !reps.is_empty() {
            out.violation("C19:count:vnodes0-nonempty", "vnodes = 0 but a replica list is non-empty", replay);
        }
        return;
    }
    let want = rf.min(members.len());
    if reps.len() != want {
        out.violation(
            &format!("C19:count:wrong-length:{}", if reps.len() < want { "too-few" } else { "too-many" }),
            &format!("replica list has {} members, expected min(rf={}, nodes={}) = {}", reps.len(), rf, members.len(), want),
            replay.clone(),
        );
    }
    let set: BTreeSet<u64> = reps.iter().cloned().collect();
    if set.len() != reps.len() {
        out.violation("C19:count:duplicate", "replica list contains a node twice", replay.clone());
    }
    if reps.iter().any(|r| !members.contains(r)) {
        out.violation("C19:count:non-member", "replica list contains a node that is not a member", replay);
    }
}

struct RouterSpec {
    /// "new" (explicit peer ids) or "cfg" (from_config)
    kind: &'static str,
    me: u64,
    selective: bool,
    peer_ids: Vec<u64>, // kind = new
    npeers: usize,      // kind = cfg
    /// kind = cfg: ReplicationConfig.partitioned_mode / .enabled (uses_selective_gossip = all three)
    partitioned: bool,
    enabled: bool,
}

impl RouterSpec {
    fn effective_selective(&self) -> bool {
        if self.kind == "cfg" { self.selective && self.partitioned && self.enabled } else { self.selective }
    }
}

fn build_router(spec: &RouterSpec, ring: &HashRing) -> (GossipRouter, ReplicationConfig) {
    let (rt, cfg, _) = build_router_shared(spec, ring);
    (rt, cfg)
}

/// … also returns the ring the router shares (`Arc<RwLock<HashRing>>`: a membership change made
/// through it must be seen by the router)
fn build_router_shared(spec: &RouterSpec, ring: &HashRing) -> (GossipRouter, ReplicationConfig, Arc<RwLock<HashRing>>) {
    let arc = Arc::new(RwLock::new(ring.clone()));
    let shared = arc.clone();
    let (rt, cfg) = build_router_on(spec, arc, ring.replication_factor());
    (rt, cfg, shared)
}

fn build_router_on(spec: &RouterSpec, arc: Arc<RwLock<HashRing>>, rf: usize) -> (GossipRouter, ReplicationConfig) {
    let ring_rf = rf;
    if spec.kind == "new" {
        let mut m = HashMap::new();
        for (i, id) in spec.peer_ids.iter().enumerate() {
            m.insert(ReplicaId::new(*id), format!("peer{}", i));
        }
        let mut cfg = ReplicationConfig::new_partitioned_cluster(spec.me, vec![], ring_rf);
        cfg.selective_gossip = spec.selective;
        (GossipRouter::new(arc, ReplicaId::new(spec.me), m, spec.selective), cfg)
    } else {
        let peers: Vec<String> = (0..spec.npeers).map(|i| format!("peer{}", i)).collect();
        let mut cfg = ReplicationConfig::new_partitioned_cluster(spec.me, peers, ring_rf);
        cfg.selective_gossip = spec.selective;
        cfg.partitioned_mode = spec.partitioned;
        cfg.enabled = spec.enabled;
        (GossipRouter::from_config(&cfg, arc), cfg)
    }
}

fn peers_of(rt: &GossipRouter) -> BTreeMap<u64, u64> {
    let mut m = BTreeMap::new();
    for id in rt.peer_ids() {
        let addr = rt.get_peer_address(*id).expect("address");
        m.insert(id.0, addr.strip_prefix("peer").expect("peer addr").parse::<u64>().expect("idx"));
    }
    m
}

/// router ops on the current ring: R* line, ROUTE, QUEUE + oracle
fn router_ops(ctx: &mut Ctx, rng: &mut Rng, ring: &HashRing, members: &[u64], spec: &RouterSpec, keys: &[String], src: &str) {
    let (rt, cfg) = build_router(spec, ring);
    let peers = peers_of(&rt);
    let line = if spec.kind == "new" {
        let mut l = format!("RNEW {} {} {}", spec.me, spec.selective as u8, spec.peer_ids.len());
        for p in &spec.peer_ids {
            l.push_str(&format!(" {}", p));
        }
        l
    } else {
        format!("RCFG {} {} {} {} {}", spec.me, spec.npeers, spec.selective as u8, spec.partitioned as u8, spec.enabled as u8)
    };
    let mut a = format!("peers self={} sel={}", rt.my_replica().0, rt.is_selective() as u8);
    for (id, addr) in &peers {
        a.push_str(&format!(" {}:{}", id, addr));
    }
    ctx.out.op(line, a);
    let selective = spec.effective_selective();
    ctx.out.count(&format!("router:{}:{}", spec.kind, if selective { "selective" } else { "broadcast" }));
    if spec.kind == "cfg" {
        ctx.out.count(&format!("from_config:selective_gossip={}:partitioned_mode={}:enabled={}", spec.selective as u8, spec.partitioned as u8, spec.enabled as u8));
    }
    if rt.is_selective() != selective {
        ctx.out.violation("C19:from_config:selective-mode",
            &format!("the router is_selective() = {} for selective_gossip = {}, partitioned_mode = {}, enabled = {} (uses_selective_gossip is the conjunction)", rt.is_selective(), spec.selective, spec.partitioned, spec.enabled),
            json!({"selective_gossip": spec.selective, "partitioned_mode": spec.partitioned, "enabled": spec.enabled, "is_selective": rt.is_selective()}));
    }

    let replay = |what: &str, extra: serde_json::Value| {
        json!({"what": what, "members": members, "vnodes_rf": [ring.verif_ring_positions().len() / members.len().max(1), ring.replication_factor()],
               "router": {"kind": spec.kind, "self": spec.me, "selective": spec.selective, "peer_ids_given": spec.peer_ids, "npeers": spec.npeers},
               "registered_peer_ids": peers.keys().collect::<Vec<_>>(), "detail": extra, "source": src})
    };

    // from_config: ids must be exactly the other members of the sequential cluster 1..=npeers+1
    let seq_cluster = spec.kind == "cfg" && spec.me >= 1 && spec.me as usize <= spec.npeers + 1;
    if seq_cluster {
        let want: BTreeSet<u64> = (1..=spec.npeers as u64 + 1).filter(|i| *i != spec.me).collect();
        let got: BTreeSet<u64> = peers.keys().cloned().collect();
        if want != got {
            ctx.out.violation(
                "C19:from_config:peer-ids",
                &format!("GossipRouter::from_config(replica_id={}, {} peers) registers ids {:?}, the other members are {:?}", spec.me, spec.npeers, got, want),
                replay("from_config peer ids", json!({"registered": got, "expected": want})),
            );
        }
    } else if spec.kind == "cfg" {
        ctx.out.count("excluded:from_config:replica-id-outside-1..n+1");
    }
    let covering = members.iter().all(|m| *m == spec.me || peers.contains_key(m));
    ctx.out.count(if covering { "router:peers-cover-members" } else { "router:peers-miss-a-member" });

    // ROUTE
    let nd = rng.range(0, keys.len() as u64) as usize;
    let mut dkeys: Vec<String> = (0..nd).map(|_| rng.pick(keys).clone()).collect();
    if rng.chance(1, 3) && !dkeys.is_empty() {
        let d = dkeys[0].clone();
        dkeys.push(d); // the same key twice in one batch
    }
    // every delta of the batch is its own update (payload v<i>, stamp i + 1): the same key may occur
    // several times (a key written twice within one gossip interval)
    let deltas: Vec<ReplicationDelta> = dkeys.iter().enumerate().map(|(i, k)| mk_delta_i(k, spec.me, i)).collect();
    let kps: Vec<u64> = dkeys.iter().map(|k| HashRing::verif_key_position(k)).collect();
    let table = rt.route_deltas(deltas.clone());
    let mut tbl: BTreeMap<u64, Vec<u64>> = BTreeMap::new();
    let mut tbl_idx: BTreeMap<u64, Vec<usize>> = BTreeMap::new();
    for (t, ds) in &table {
        tbl.insert(t.0, ds.iter().map(|d| HashRing::verif_key_position(&d.key)).collect());
        tbl_idx.insert(t.0, ds.iter().map(delta_index).collect());
    }
    let mut l = format!("ROUTE {}", kps.len());
    for k in &kps {
        l.push_str(&format!(" {}", k));
    }
    let mut a = "tbl".to_string();
    for (t, ds) in &tbl {
        a.push_str(&format!(" {}:{}", t, csv(ds)));
    }
    ctx.out.op(l, a);
    ctx.out.count(if dkeys.iter().collect::<BTreeSet<_>>().len() < dkeys.len() { "route:batch:key-repeated" } else { "route:batch:distinct-keys" });

    // oracle, per DELTA (not per key): every delta of the batch is handed to every responsible
    // replica other than the sender — once, in batch order — and to nobody else
    // (the property speaks about clusters in which the router can reach the other members:
    //  explicit address books that cover the members, and every from_config router of a
    //  sequentially numbered cluster)
    let must_cover = (spec.kind == "new" && covering) || (seq_cluster && members.iter().all(|m| *m >= 1 && *m as usize <= spec.npeers + 1));
    let owners_of: Vec<Vec<u64>> = dkeys.iter().map(|k| ids(&ring.get_replicas(k))).collect();
    let everyone: BTreeSet<u64> = members.iter().chain(peers.keys()).cloned().collect();
    let batch_json: Vec<serde_json::Value> = dkeys.iter().enumerate().map(|(i, k)| json!({"delta": i, "key": k, "payload": format!("v{}", i), "owners": owners_of[i]})).collect();
    for t in everyone.iter() {
        let got: Vec<usize> = tbl_idx.get(t).cloned().unwrap_or_default();
        for (i, k) in dkeys.iter().enumerate() {
            let handed = got.contains(&i);
            let owner = owners_of[i].contains(t) && *t != spec.me;
            if selective && handed && !owner {
                ctx.out.violation(&format!("C19:route:{}:non-owner-targeted", spec.kind),
                    "route_deltas hands a delta to a node that is not a responsible replica (or to the sender)",
                    replay("route", json!({"batch": batch_json, "delta": i, "key": k, "owners": owners_of[i], "target": t})));
            }
            if owner && !handed && must_cover {
                let earlier = dkeys[..i].iter().filter(|x| *x == k).count();
                let later = dkeys[i + 1..].iter().filter(|x| *x == k).count();
                ctx.out.violation(&format!("C19:route:{}:owner-starved", spec.kind),
                    &format!("route_deltas (replica {}) does not hand delta #{} of the batch (key {:?}, payload v{}{}) to owner {} (owners {:?}, handed to {}: deltas {:?}, registered peer ids {:?})",
                        spec.me, i, k, i, if earlier + later > 0 { format!(", occurrence {} of {} of this key in the batch", earlier + 1, earlier + later + 1) } else { String::new() },
                        t, owners_of[i], t, got, peers.keys().collect::<Vec<_>>()),
                    replay("route", json!({"batch": batch_json, "delta": i, "key": k, "owners": owners_of[i], "starved": t, "handed_to_target": got})));
            }
        }
        // once each, in batch order
        if selective && (got.windows(2).any(|w| w[0] >= w[1])) {
            ctx.out.violation(&format!("C19:route:{}:duplicate-or-reordered", spec.kind),
                &format!("route_deltas hands target {} the deltas {:?}: a delta twice, or not in batch order (a later write of a key before an earlier one)", t, got),
                replay("route", json!({"batch": batch_json, "target": t, "handed_to_target": got})));
        }
    }

    // QUEUE: GossipState::queue_deltas with this router
    let hb = match rng.below(40) {
        0 => 9_999u64,
        1 => 10_000,
        2 => 10_003,
        x => x % 3,
    };
    let (rt2, _) = build_router(spec, ring);
    let mut gs = GossipState::with_router(cfg.clone(), rt2);
    for _ in 0..hb {
        gs.queue_heartbeat();
    }
    gs.queue_deltas(deltas.clone());
    let q = gs.drain_outbound();
    let mut nhb = 0;
    let mut targeted: BTreeMap<u64, Vec<u64>> = BTreeMap::new();
    let mut broadcast: Vec<Vec<u64>> = Vec::new();
    let mut bad_envelope = false;
    for m in &q {
        match &m.message {
            GossipMessage::Heartbeat { .. } => nhb += 1,
            GossipMessage::TargetedDelta { target_replica, deltas, source_replica, .. } => {
                if m.target != Some(*target_replica) || source_replica.0 != cfg.replica_id || targeted.contains_key(&target_replica.0) {
                    bad_envelope = true;
                }
                targeted.insert(target_replica.0, deltas.iter().map(|d| HashRing::verif_key_position(&d.key)).collect());
            }
            GossipMessage::DeltaBatch { deltas, .. } => {
                if m.target.is_some() {
                    bad_envelope = true;
                }
                broadcast.push(deltas.iter().map(|d| HashRing::verif_key_position(&d.key)).collect());
            }
            _ => bad_envelope = true,
        }
    }
    let mut l = format!("QUEUE {} {}", hb, kps.len());
    for k in &kps {
        l.push_str(&format!(" {}", k));
    }
    let mut a = format!("q {} hb={}", q.len(), nhb);
    for (t, ds) in &targeted {
        a.push_str(&format!(" T{}:{}", t, csv(ds)));
    }
    for ds in &broadcast {
        a.push_str(&format!(" B:{}", csv(ds)));
    }
    ctx.out.op(l, a);
    ctx.out.count(if hb >= 9_999 { "queue:near-capacity" } else { "queue:small" });
    if selective {
        // the queued messages are the routing table
        if bad_envelope || targeted != tbl || !broadcast.is_empty() {
            ctx.out.violation("C19:queue:differs-from-routing-table",
                "queue_deltas did not queue exactly one TargetedDelta per routing-table entry",
                replay("queue", json!({"targeted": targeted, "table": tbl})));
        }
    } else if !deltas.is_empty() && (broadcast.len() != 1 || broadcast[0] != kps || !targeted.is_empty() || bad_envelope) {
        ctx.out.violation("C19:queue:broadcast-incomplete", "broadcast mode did not queue one DeltaBatch with all deltas",
            replay("queue", json!({"broadcast": broadcast})));
    }

    // ---- route_with_stats / calculate_reduction_ratio: the table must be route_deltas', the counters consistent
    {
        let (t2, st) = rt.route_with_stats(deltas.clone());
        let mut tbl2: BTreeMap<u64, Vec<u64>> = BTreeMap::new();
        for (t, ds) in &t2 {
            tbl2.insert(t.0, ds.iter().map(|d| HashRing::verif_key_position(&d.key)).collect());
        }
        let mut l = format!("ROUTES {}", kps.len());
        for k in &kps {
            l.push_str(&format!(" {}", k));
        }
        let mut a = "tbl".to_string();
        for (t, ds) in &tbl2 {
            a.push_str(&format!(" {}:{}", t, csv(ds)));
        }
        a.push_str(&format!(" | stats {} {} {} {}", st.total_deltas, st.total_assignments, st.assignments_saved, st.unique_targets));
        ctx.out.op(l, a);
        if tbl2 != tbl {
            ctx.out.violation("C19:route:with-stats-differs", "route_with_stats returns a different table than route_deltas", replay("route_with_stats", json!({"table": tbl, "with_stats": tbl2})));
        }
        let refs: Vec<&str> = dkeys.iter().map(|k| k.as_str()).collect();
        let (sel_msgs, bc_msgs, _) = rt.calculate_reduction_ratio(&refs);
        let mut l = format!("RATIO {}", kps.len());
        for k in &kps {
            l.push_str(&format!(" {}", k));
        }
        ctx.out.op(l, format!("ratio {} {}", sel_msgs, bc_msgs));
    }

    // ---- dynamic membership of the address book (update_peer / remove_peer) and of the SHARED ring:
    // the router holds an Arc<RwLock<HashRing>>; a change made through it is seen by the next route
    if spec.kind == "new" && !keys.is_empty() {
        let (mut rt3, _, shared) = build_router_shared(spec, ring);
        let mut book = peers.clone();
        for _ in 0..rng.range(1, 3) {
            if rng.chance(1, 2) {
                let id = if rng.chance(2, 3) && !members.is_empty() { *rng.pick(members) } else { rng.below(12) };
                let addr = 100 + rng.below(50);
                rt3.update_peer(ReplicaId::new(id), format!("peer{}", addr));
                book.insert(id, addr);
                let mut a = format!("peers self={} sel={}", rt3.my_replica().0, rt3.is_selective() as u8);
                for (i, ad) in &peers_of(&rt3) {
                    a.push_str(&format!(" {}:{}", i, ad));
                }
                ctx.out.op(format!("RUPD {} {}", id, addr), a);
                ctx.out.count("router:update_peer");
            } else {
                let id = if rng.chance(2, 3) && !book.is_empty() { *book.keys().nth(rng.below(book.len() as u64) as usize).unwrap() } else { rng.below(12) };
                rt3.remove_peer(ReplicaId::new(id));
                book.remove(&id);
                let mut a = format!("peers self={} sel={}", rt3.my_replica().0, rt3.is_selective() as u8);
                for (i, ad) in &peers_of(&rt3) {
                    a.push_str(&format!(" {}:{}", i, ad));
                }
                ctx.out.op(format!("RREM {}", id), a);
                ctx.out.count("router:remove_peer");
            }
            if peers_of(&rt3) != book {
                ctx.out.violation("C19:router:address-book", "update_peer / remove_peer did not leave the expected address book", replay("address book", json!({"expected": book, "got": peers_of(&rt3)})));
            }
        }
        // membership change through the shared ring
        let x = if rng.chance(1, 2) && !members.is_empty() { *rng.pick(members) } else { rng.range(1, 9) };
        let add = !members.contains(&x) || rng.chance(1, 4);
        if add {
            ctx.define(x);
            shared.write().unwrap().add_node(ReplicaId::new(x));
        } else {
            shared.write().unwrap().remove_node(ReplicaId::new(x));
        }
        let now = shared.read().unwrap().clone();
        let (sum, _) = ring_summary(&now);
        ctx.out.op(format!("{} {}", if add { "ADD" } else { "REM" }, x), sum);
        ctx.out.count("router:shared-ring-changed-after-construction");
        let table = rt3.route_deltas(deltas.clone());
        let mut tbl3: BTreeMap<u64, Vec<u64>> = BTreeMap::new();
        for (t, ds) in &table {
            tbl3.insert(t.0, ds.iter().map(|d| HashRing::verif_key_position(&d.key)).collect());
        }
        let mut l = format!("ROUTE {}", kps.len());
        for k in &kps {
            l.push_str(&format!(" {}", k));
        }
        let mut a = "tbl".to_string();
        for (t, ds) in &tbl3 {
            a.push_str(&format!(" {}:{}", t, csv(ds)));
        }
        ctx.out.op(l, a);
        if selective {
            for (i, k) in dkeys.iter().enumerate() {
                let owners = ids(&now.get_replicas(k));
                for (t, _) in book.iter() {
                    let handed = tbl3.get(t).map(|ds| ds.contains(&kps[i])).unwrap_or(false);
                    let owner = owners.contains(t) && *t != spec.me;
                    if handed != owner {
                        ctx.out.violation(if owner { "C19:route:shared-ring:owner-starved" } else { "C19:route:shared-ring:non-owner-targeted" },
                            "after a membership change made through the shared ring, route_deltas does not follow the CURRENT replica lists",
                            replay("route after membership change", json!({"key": k, "owners_now": owners, "target": t, "change": if add { "add_node" } else { "remove_node" }, "node": x})));
                    }
                }
            }
        }
    }
}

fn scenario(ctx: &mut Ctx, rng: &mut Rng, thorough: bool, idx: u64) {
    let universe: [u64; 14] = [1, 2, 3, 4, 5, 6, 7, 8, 0, 9, 1000, u64::MAX, 0x9e3779b97f4a7c15, 42];
    // membership
    let k = match rng.below(20) {
        0 => 0,
        1 => 7,
        2 => 8,
        x => 1 + (x % 6),
    } as usize;
    let sequential = rng.chance(1, 2);
    let mut nodes: Vec<u64> = if sequential {
        (1..=k as u64).collect()
    } else if rng.chance(1, 4) {
        // bit-pattern relatives: ids that agree in their low (or high) half, differ by one bit, by a
        // power of two, by their byte order — whatever hash_virtual_node does with the 64 bits of an
        // id, ids like these are where a lossy packing / truncation makes two members coincide
        let x = *rng.pick(&[1u64, 5, 42, 0xdead_beef, 0x1234_5678_9abc_def0]);
        let mut u = vec![x, x ^ (1 << 32), x.wrapping_add(1 << 32), x.wrapping_add(2 << 32), x ^ (1 << 63), x.swap_bytes(), x.rotate_left(32), x << 32, x | (0xffff_ffffu64 << 32), x & 0xffff_ffff];
        u.sort();
        u.dedup();
        rng.shuffle(&mut u);
        u.truncate(k);
        ctx.out.count("nodes:bit-pattern-relatives");
        u
    } else {
        let mut u = universe.to_vec();
        rng.shuffle(&mut u);
        u.truncate(k);
        u
    };
    rng.shuffle(&mut nodes);
    let vnodes: u32 = match rng.below(24) {
        0 => 0,
        1 | 2 => 1,
        3 | 4 => 2,
        5..=10 => rng.range(3, 8) as u32,
        11..=15 => rng.range(9, 32) as u32,
        16..=18 => rng.range(33, 100) as u32,
        19 | 20 => 150,
        21 => 199,
        _ => 200,
    };
    let rf = match rng.below(10) {
        0 => 0,
        1 => 7,
        x => 1 + (x % 6),
    } as usize;
    let nkeys = rng.range(12, 28) as usize;
    let keys: Vec<String> = (0..nkeys).map(|_| rand_key(rng)).collect();
    ctx.op_key_positions(&keys);
    ctx.out.count(&format!("nodes:{}", k));
    ctx.out.count(&format!("rf:{}", rf));
    ctx.out.count(match vnodes { 0 => "vnodes:0", 1 => "vnodes:1", 2..=8 => "vnodes:2-8", 9..=32 => "vnodes:9-32", 33..=100 => "vnodes:33-100", _ => "vnodes:101-200" });

    // ---- join orders
    let all = permutations(&nodes);
    let budget = if thorough { if k <= 6 { 720 } else { 60 } } else if k <= 4 { 24 } else { 8 };
    let perms: Vec<Vec<u64>> = if all.len() <= budget {
        ctx.out.count("join-orders:all");
        all
    } else {
        ctx.out.count("join-orders:sampled");
        let mut v = vec![nodes.clone()];
        for _ in 1..budget {
            v.push(rng.pick(&all).clone());
        }
        v
    };
    let mut first: Option<(Vec<(u64, u64, u32)>, Vec<Vec<u64>>, bool)> = None;
    let mut ring0 = None;
    for (pi, p) in perms.iter().enumerate() {
        // a duplicate in the node list is ignored by add_node
        let mut plist = p.clone();
        if pi == 1 && !plist.is_empty() && rng.chance(1, 2) {
            plist.push(plist[0]);
        }
        let r = ctx.op_new(&plist, vnodes, rf);
        let reps = ctx.op_replicas(&r, &keys, None);
        let pos = r.verif_ring_positions();
        let mut ps: Vec<u64> = pos.iter().map(|x| x.0).collect();
        ps.sort();
        let inj = ps.windows(2).all(|w| w[0] != w[1]);
        match &first {
            None => {
                first = Some((pos, reps, inj));
            }
            Some((pos0, reps0, inj0)) => {
                // two virtual nodes on one position are NOT excluded any more (session 4: they exist, see
                // witness_position_collision): whatever the positions are, every join order must give
                // the same ring and the same replica lists
                if !*inj0 || !inj {
                    ctx.out.count("order:position-collision-in-a-generated-membership");
                }
                {
                    let replay = json!({"nodes_a": perms[0].iter().map(|x| x.to_string()).collect::<Vec<_>>(), "nodes_b": plist.iter().map(|x| x.to_string()).collect::<Vec<_>>(), "vnodes": vnodes, "rf": rf,
                        "position_collision": !*inj0 || !inj});
                    if *pos0 != pos {
                        ctx.out.violation("C19:order:ring-differs", "two join orders of the same membership produce different rings", replay.clone());
                    }
                    if let Some(i) = (0..keys.len()).find(|i| reps0[*i] != reps[*i]) {
                        ctx.out.violation("C19:order:replicas-differ",
                            &format!("two join orders give different replica lists for key {:?}: {:?} vs {:?}", keys[i], reps0[i], reps[i]), replay);
                    }
                }
            }
        }
        ring0 = Some(r); // the model's current ring is the one of the last NEW line
    }
    let mut ring = ring0.expect("at least one join order");
    let (_, reps0, _) = first.unwrap();
    let mut members = ids(ring.nodes());
    let distinct_lists: BTreeSet<&Vec<u64>> = reps0.iter().collect();
    ctx.out.case(
        &format!("{:?}|{}|{}|{:?}", nodes, vnodes, rf, keys),
        k >= 2 && vnodes >= 1 && rf >= 1 && distinct_lists.len() >= 2,
    );
    ctx.out.sample(json!({"nodes": nodes, "vnodes": vnodes, "rf": rf, "keys": keys.iter().take(4).collect::<Vec<_>>(), "replicas": reps0.iter().take(4).collect::<Vec<_>>(), "join_orders": perms.len()}));

    // ---- count / distinct (default rf and a per-key rf)
    for (i, r) in reps0.iter().enumerate() {
        check_count(&mut ctx.out, r, rf, &members, vnodes, json!({"nodes": perms[0], "vnodes": vnodes, "rf": rf, "key": keys[i], "replicas": r}));
    }
    let rf2 = rng.below(9) as usize;
    let reps_rf2 = ctx.op_replicas(&ring, &keys, Some(rf2));
    for (i, r) in reps_rf2.iter().enumerate() {
        check_count(&mut ctx.out, r, rf2, &members, vnodes, json!({"nodes": perms[0], "vnodes": vnodes, "rf": rf2, "key": keys[i], "replicas": r, "api": "get_replicas_with_rf"}));
    }

    // ---- gossip targets
    for _ in 0..2 {
        let sender = if !members.is_empty() && rng.chance(4, 5) { *rng.pick(&members) } else { *rng.pick(&universe) };
        let ts = ctx.op_targets(&ring, &keys, sender);
        let reps = ring_replicas(&ring, &keys);
        for i in 0..keys.len() {
            let want: Vec<u64> = reps[i].iter().cloned().filter(|x| *x != sender).collect();
            if ts[i] != want {
                let missing = want.iter().any(|x| !ts[i].contains(x));
                ctx.out.violation(if missing { "C19:targets:owner-missing" } else { "C19:targets:non-owner" },
                    "get_gossip_targets != get_replicas minus the sender",
                    json!({"nodes": members, "vnodes": vnodes, "rf": rf, "key": keys[i], "sender": sender, "targets": ts[i], "replicas": reps[i]}));
            }
        }
    }

    // ---- the remaining observers of the ring
    {
        let pairs: Vec<(String, u64)> = (0..6).map(|_| (rng.pick(&keys).clone(), if !members.is_empty() && rng.chance(3, 4) { *rng.pick(&members) } else { *rng.pick(&universe) })).collect();
        ctx.op_observers(&ring, &pairs, rng.below(8) as usize);
        if rng.chance(1, 3) {
            ctx.op_stats(&ring, &keys);
        }
    }
    // ---- per-key replication factor from the real AdaptiveReplicationManager (hot keys get hot_key_rf)
    if rng.chance(1, 3) {
        adaptive_ops(ctx, rng, &ring, &members, vnodes, &keys, idx);
        if rng.chance(1, 3) {
            adaptive_session(ctx, rng, None);
        }
    }
    // ---- GossipState as a state machine (direct and through the GossipActor)
    if rng.chance(1, 4) && !members.is_empty() {
        gossip_state_session(ctx, rng, &ring, &members, &keys);
    }

    // ---- add / remove sequence
    let steps = rng.range(2, 5);
    let mut before = ring_replicas(&ring, &keys);
    for _ in 0..steps {
        let add = rng.chance(1, 2);
        let x = if add {
            if rng.chance(1, 6) && !members.is_empty() { *rng.pick(&members) } else { *rng.pick(&universe) }
        } else if rng.chance(1, 6) || members.is_empty() {
            *rng.pick(&universe)
        } else {
            *rng.pick(&members)
        };
        let was_member = members.contains(&x);
        if add {
            ctx.define(x);
            ring.add_node(ReplicaId::new(x));
        } else {
            ring.remove_node(ReplicaId::new(x));
        }
        let (s, _) = ring_summary(&ring);
        ctx.out.op(format!("{} {}", if add { "ADD" } else { "REM" }, x), s);
        ctx.out.count(&format!("{}:{}", if add { "add" } else { "remove" }, if was_member { "member" } else { "non-member" }));
        members = ids(ring.nodes());
        let after = ctx.op_replicas(&ring, &keys, None);
        let mut moved = 0;
        for i in 0..keys.len() {
            let involved = if add { after[i].contains(&x) } else { before[i].contains(&x) };
            if after[i] != before[i] {
                moved += 1;
            }
            if !involved && after[i] != before[i] {
                ctx.out.violation(&format!("C19:disruption:{}", if add { "add" } else { "remove" }),
                    &format!("placement of key {:?} changed from {:?} to {:?} although node {} is in neither list", keys[i], before[i], after[i], x),
                    json!({"op": if add { "add_node" } else { "remove_node" }, "node": x, "members_after": members, "vnodes": vnodes, "rf": rf, "key": keys[i], "before": before[i], "after": after[i]}));
            }
            check_count(&mut ctx.out, &after[i], rf, &members, vnodes, json!({"after": if add { "add_node" } else { "remove_node" }, "node": x, "members": members, "vnodes": vnodes, "rf": rf, "key": keys[i], "replicas": after[i]}));
        }
        ctx.out.count(if moved > 0 { "membership-change:keys-moved" } else { "membership-change:no-key-moved" });
        before = after;
    }

    // ---- history shapes: the ring emptied completely and refilled in another order; with_defaults
    if rng.chance(1, 6) && !members.is_empty() {
        let old = members.clone();
        for m in &old {
            ring.remove_node(ReplicaId::new(*m));
            let (s, _) = ring_summary(&ring);
            ctx.out.op(format!("REM {}", m), s);
        }
        let mut back = old.clone();
        rng.shuffle(&mut back);
        for m in &back {
            ring.add_node(ReplicaId::new(*m));
            let (s, _) = ring_summary(&ring);
            ctx.out.op(format!("ADD {}", m), s);
        }
        ctx.out.count("history:emptied-then-refilled");
        let after = ctx.op_replicas(&ring, &keys, None);
        if after != before && ring.verif_ring_positions().windows(2).all(|w| w[0].0 != w[1].0) {
            ctx.out.violation("C19:order:refilled-ring-differs", "a ring emptied and refilled with the same members places keys differently",
                json!({"members_before": old, "rejoin_order": back, "vnodes": vnodes, "rf": rf}));
        }
        members = ids(ring.nodes());
    }
    if rng.chance(1, 12) {
        let k = rng.range(1, 5);
        let seq: Vec<u64> = (1..=k).collect();
        let rd = ctx.op_new_defaults(&seq);
        let reps = ctx.op_replicas(&rd, &keys, None);
        for (i, r) in reps.iter().enumerate() {
            check_count(&mut ctx.out, r, 3, &seq, 150, json!({"api": "with_defaults", "nodes": seq, "key": keys[i], "replicas": r}));
        }
        ctx.out.count("ring:with_defaults");
        // the model's current ring must be the scenario's again
        let cur: Vec<u64> = ids(ring.nodes());
        let fresh = ctx.op_new(&cur, vnodes, rf);
        if fresh.verif_ring_positions() != ring.verif_ring_positions() {
            // the ring reached through the add / remove history differs from a ring built from the same
            // membership: placement depends on the history, not on the membership set
            ctx.out.violation("C19:order:history-dependent-ring", "a ring reached through add_node / remove_node differs from HashRing::new over the same members (same vnodes, rf)",
                json!({"members": cur.iter().map(|x| x.to_string()).collect::<Vec<_>>(), "vnodes": vnodes, "rf": rf, "case": idx}));
        }
        // version restarts with a fresh ring: continue on the fresh one
        ring = fresh;
    }

    // ---- routers on the current ring (explicit address book)
    if !members.is_empty() {
        let me = if rng.chance(5, 6) { *rng.pick(&members) } else { *rng.pick(&universe) };
        let mut peer_ids: Vec<u64> = members.iter().cloned().filter(|m| *m != me).collect();
        match rng.below(6) {
            0 if !peer_ids.is_empty() => {
                let i = rng.below(peer_ids.len() as u64) as usize;
                peer_ids.remove(i); // a member without address
            }
            1 => peer_ids.push(me), // self in the address book
            2 => peer_ids.push(*rng.pick(&universe)), // stranger / duplicate
            _ => {}
        }
        rng.shuffle(&mut peer_ids);
        let spec = RouterSpec { kind: "new", me, selective: !rng.chance(1, 5), peer_ids, npeers: 0, partitioned: true, enabled: true };
        router_ops(ctx, rng, &ring, &members, &spec, &keys, &format!("case {}", idx));
    }

    // ---- from_config on a sequentially numbered cluster 1..=n
    if rng.chance(2, 3) {
        let n = rng.range(1, 6);
        let seq: Vec<u64> = (1..=n).collect();
        let r = ctx.op_new(&seq, vnodes.max(1), rf);
        let me = match rng.below(10) {
            0 => 0,
            1 => n + 1,
            2 => n + 2,
            _ => rng.range(1, n),
        };
        let npeers = match rng.below(8) {
            0 => n as usize,               // one peer too many
            1 if n >= 2 => n as usize - 2, // one too few
            _ => n as usize - 1,
        };
        // every field uses_selective_gossip reads is generated: selective_gossip, partitioned_mode, enabled
        let spec = RouterSpec { kind: "cfg", me, selective: !rng.chance(1, 6), peer_ids: vec![], npeers, partitioned: !rng.chance(1, 8), enabled: !rng.chance(1, 8) };
        router_ops(ctx, rng, &r, &seq, &spec, &keys, &format!("case {}", idx));
        if rng.chance(1, 40) {
            let dk: Vec<String> = (0..rng.range(1, 4)).map(|_| rng.pick(&keys).clone()).collect();
            gossip_loop_ops(ctx, &r, &seq, &spec, &dk, if rng.chance(1, 2) { "lock" } else { "actor" }, &format!("case {}", idx));
        }
    }

    // ---- GossipState without router: broadcast
    if rng.chance(1, 8) {
        ctx.out.op("RNONE".into(), "peers none".into());
        let cfg = ReplicationConfig::new_cluster(1, vec![]);
        let mut gs = GossipState::new(cfg);
        let dk: Vec<String> = (0..rng.range(0, 3)).map(|_| rng.pick(&keys).clone()).collect();
        gs.queue_deltas(dk.iter().map(|k| mk_delta(k, 1)).collect());
        let q = gs.drain_outbound();
        let kps: Vec<u64> = dk.iter().map(|k| HashRing::verif_key_position(k)).collect();
        let mut l = format!("QUEUE 0 {}", kps.len());
        for k in &kps {
            l.push_str(&format!(" {}", k));
        }
        let mut a = format!("q {} hb=0", q.len());
        for m in &q {
            if let GossipMessage::DeltaBatch { deltas, .. } = &m.message {
                a.push_str(&format!(" B:{}", csv(&deltas.iter().map(|d| HashRing::verif_key_position(&d.key)).collect::<Vec<_>>())));
            } else {
                a.push_str(" ?");
            }
        }
        ctx.out.op(l, a);
    }
}


/// per-key replication factor: the REAL AdaptiveReplicationManager decides which keys are hot
/// (its detector is float-based and not modelled: the op line carries the hot set it reports);
/// the model answers the rf of every key and the replica list for that rf
fn adaptive_ops(ctx: &mut Ctx, rng: &mut Rng, ring: &HashRing, members: &[u64], vnodes: u32, keys: &[String], idx: u64) {
    use redis_sim::production::{AdaptiveConfig, AdaptiveReplicationManager};
    let mut cfg = match rng.below(4) {
        0 => AdaptiveConfig::default(),
        1 => AdaptiveConfig::high_throughput(),
        2 => AdaptiveConfig::low_latency(),
        _ => AdaptiveConfig { base_rf: rng.below(5) as u8, hot_key_rf: rng.below(8) as u8, ..AdaptiveConfig::default() },
    };
    cfg.hotkey_config.hot_threshold = 1.0;
    cfg.recalc_interval_ms = if rng.chance(1, 2) { 1 } else { u64::MAX };
    let (base, configured_hot) = (cfg.base_rf, cfg.hot_key_rf);
    let mut mgr = AdaptiveReplicationManager::new(cfg);
    let hot = mgr.stats().hot_rf; // the factor in effect: configured, or raised to base_rf by the constructor
    if hot != configured_hot && hot != configured_hot.max(base) {
        ctx.out.violation("C19:adaptive:hot-rf-in-effect", "stats().hot_rf is neither the configured hot_key_rf nor max(hot_key_rf, base_rf)", json!({"base_rf": base, "hot_key_rf": configured_hot, "stats.hot_rf": hot}));
    }
    let hot_keys: Vec<&String> = keys.iter().filter(|_| rng.chance(1, 3)).collect();
    let mut now = 1_000u64;
    for _ in 0..40 {
        for k in &hot_keys {
            mgr.observe(k, rng.chance(1, 2), now);
        }
        now += 10;
    }
    for k in keys.iter().take(3) {
        mgr.observe(k, false, now); // a single access: cold
    }
    mgr.force_recalculate(now);
    let overrides: BTreeMap<String, u8> = mgr.get_hot_key_updates().into_iter().collect();
    ctx.out.count(&format!("adaptive:hot-keys:{}", match overrides.len() { 0 => "0", 1..=3 => "1-3", _ => "4+" }));
    ctx.out.count(&format!("adaptive:{}", if configured_hot > base { "hot_rf>base_rf" } else if configured_hot == base { "hot_rf=base_rf" } else { "hot_rf<base_rf" }));
    // ARF <base> <hot> <nhot> <hot keypos>* <m> <keypos>*
    let mut l = format!("ARF {} {} {}", base, hot, overrides.len());
    for k in overrides.keys() {
        l.push_str(&format!(" {}", HashRing::verif_key_position(k)));
    }
    l.push_str(&format!(" {}", keys.len()));
    let mut a = Vec::new();
    for k in keys {
        l.push_str(&format!(" {}", HashRing::verif_key_position(k)));
        let rf = mgr.get_rf_for_key(k);
        let reps = ids(&ring.get_replicas_with_rf(k, rf as usize));
        let base_reps = ids(&ring.get_replicas_with_rf(k, base as usize));
        a.push(format!("{}:{}", rf, csv(&reps)));
        let want_rf = if overrides.contains_key(k) { hot } else { base };
        if rf != want_rf || overrides.get(k).map(|x| *x != hot).unwrap_or(false) {
            ctx.out.violation("C19:adaptive:rf-not-base-or-hot", &format!("get_rf_for_key({:?}) = {}, the key is {} (base_rf {}, hot_key_rf {})", k, rf, if overrides.contains_key(k) { "hot" } else { "not hot" }, base, hot),
                json!({"key": k, "rf": rf, "base_rf": base, "hot_key_rf": hot, "hot_keys": overrides.keys().collect::<Vec<_>>()}));
        }
        check_count(&mut ctx.out, &reps, rf as usize, members, vnodes, json!({"api": "get_replicas_with_rf(key, AdaptiveReplicationManager::get_rf_for_key(key))", "key": k, "rf": rf, "replicas": reps, "case": idx}));
        // a hot key must not LOSE owners: hot_key_rf < base_rf (accepted by AdaptiveConfig) does that
        if overrides.contains_key(k) && reps.len() < base_reps.len() {
            ctx.out.violation(SIG_HOT_BELOW_BASE,
                &format!("AdaptiveConfig {{ base_rf: {}, hot_key_rf: {} }}: key {:?} became hot and get_rf_for_key answers {}: get_replicas_with_rf gives {:?} instead of the {:?} of base_rf — the adaptive change shrinks the replica set below the configured factor", base, hot, k, rf, reps, base_reps),
                json!({"base_rf": base, "hot_key_rf": hot, "key": k, "rf": rf, "replicas": reps, "base_replicas": base_reps, "members": members}));
        }
        // promotion only adds owners / demotion only drops the added ones: the shorter list is a prefix
        let (short, long) = if reps.len() <= base_reps.len() { (&reps, &base_reps) } else { (&base_reps, &reps) };
        if long[..short.len()] != short[..] {
            ctx.out.violation("C19:adaptive:rf-change-moves-owners",
                &format!("key {:?}: the replica list for rf {} is {:?}, for base_rf {} it is {:?}: neither is a prefix of the other, changing the RF of a key moves it between nodes", k, rf, reps, base, base_reps),
                json!({"key": k, "rf": rf, "replicas": reps, "base_rf": base, "base_replicas": base_reps, "members": members}));
        }
    }
    ctx.out.op(l, format!("a {}", a.join("|")));
    // clear(): every key is back at base_rf
    let n_hot = mgr.hot_key_count();
    mgr.clear();
    if n_hot != overrides.len() || mgr.hot_key_count() != 0 || keys.iter().any(|k| mgr.get_rf_for_key(k) != base) {
        ctx.out.violation("C19:adaptive:clear-leaves-overrides", "after clear() a key still has an RF override (or hot_key_count disagrees with the override table)", json!({"base_rf": base, "hot_key_rf": hot}));
    }
}

const SIG_HOT_BELOW_BASE: &str = "C19:adaptive:config:hot_key_rf<base_rf:hot-key-loses-owners";

/// corpus case, runs first on every run: base_rf 3, hot_key_rf 1 on a three-node ring — the key
/// that becomes hot keeps one of its three owners
fn witness_adaptive_hot_below_base(ctx: &mut Ctx) {
    use redis_sim::production::{AdaptiveConfig, AdaptiveReplicationManager, HotKeyConfig};
    let members = [1u64, 2, 3];
    let ring = ctx.op_new(&members, 50, 3);
    let keys: Vec<String> = vec!["hot".into(), "cold".into()];
    ctx.op_key_positions(&keys);
    let cfg = AdaptiveConfig { base_rf: 3, hot_key_rf: 1, recalc_interval_ms: 1_000_000,
        hotkey_config: HotKeyConfig { window_ms: 10_000, hot_threshold: 100.0, cleanup_interval_ms: 5_000, max_tracked_keys: 10_000 } };
    let mut mgr = AdaptiveReplicationManager::new(cfg);
    ctx.out.op("ADNEW 3 1 1000000 10000 100 5000 10000".into(), ad_summary(&mgr));
    for i in 0..21u64 {
        mgr.observe("hot", false, 1000 + i * 5);
        ctx.out.op(format!("ADOBS {} 0 {}", crate::enc::hex(b"hot"), 1000 + i * 5), ad_summary(&mgr));
    }
    mgr.observe("cold", true, 1100);
    ctx.out.op(format!("ADOBS {} 1 1100", crate::enc::hex(b"cold")), ad_summary(&mgr));
    mgr.force_recalculate(1100);
    ctx.out.op("ADRECALC 1100".into(), ad_summary(&mgr));
    let rf = mgr.get_rf_for_key("hot");
    ctx.out.op(format!("ADQ 1100 2 {} {}", crate::enc::hex(b"hot"), crate::enc::hex(b"cold")),
        format!("aq {}:{}|{}:{}", rf, mgr.is_hot("hot", 1100) as u8, mgr.get_rf_for_key("cold"), mgr.is_hot("cold", 1100) as u8));
    let one = vec![keys[0].clone()];
    let reps = ctx.op_replicas(&ring, &one, Some(rf as usize));
    let base_reps = ctx.op_replicas(&ring, &one, Some(3));
    if reps[0].len() < base_reps[0].len() {
        ctx.out.violation(SIG_HOT_BELOW_BASE,
            &format!("AdaptiveConfig {{ base_rf: 3, hot_key_rf: 1 }} on the ring {{1, 2, 3}}: 21 reads of \"hot\" in 100 ms, force_recalculate: get_rf_for_key(\"hot\") = {}, get_replicas_with_rf = {:?} instead of {:?}", rf, reps[0], base_reps[0]),
            json!({"base_rf": 3, "hot_key_rf": 1, "key": "hot", "rf": rf, "replicas": reps[0], "base_replicas": base_reps[0]}));
    }
}

/// summary of a real AdaptiveReplicationManager, as the model prints it (`showAd`)
fn ad_summary(mgr: &redis_sim::production::AdaptiveReplicationManager) -> String {
    let st = mgr.stats();
    let mut ov: Vec<(String, u8)> = mgr.get_hot_key_updates();
    ov.sort_by(|a, b| (a.0.len(), a.0.as_bytes()).cmp(&(b.0.len(), b.0.as_bytes())));
    format!("ad rf={}/{} tracked={} hot={} prom={} dem={} ov={}", st.base_rf, st.hot_rf, st.tracked_keys, st.current_hot_keys, st.total_promotions, st.total_demotions,
        ov.iter().map(|(k, rf)| format!("{}:{}", crate::enc::hex(k.as_bytes()), rf)).collect::<Vec<_>>().join(","))
}

/// AdaptiveReplicationManager + HotKeyDetector as a state machine (`AD*` ops; model
/// `Adaptive.Mgr`): every configuration field generated incl. 0 / 1 / large, a small key pool so
/// that the table capacity, the clean-up window and the periodic recalculation are all crossed,
/// clock steps 0 / 1 / small / large / BACKWARDS, and `now` values placed just below / at / just
/// above the hot threshold of a key (`total * 1000 = threshold * (now - first)`), computed from a
/// shadow of the access table.  Integer thresholds ≤ 2^20 and 32-bit clocks: the domain on which the
/// model's integer comparison is exactly the code's f64 comparison.
/// Oracle (real code only): every override equals hot_key_rf; get_rf_for_key is hot_key_rf exactly
/// for the overridden keys and base_rf otherwise; after force_recalculate(now) the overridden keys
/// are exactly the keys with is_hot(key, now); the table never exceeds max_tracked_keys.
fn adaptive_session(ctx: &mut Ctx, rng: &mut Rng, fixed: Option<(u8, u8)>) {
    use redis_sim::production::{AdaptiveConfig, AdaptiveReplicationManager, HotKeyConfig};
    let (base, hot) = match fixed {
        Some(x) => x,
        None => (rng.below(6) as u8, rng.below(8) as u8),
    };
    let recalc = *rng.pick(&[0u64, 1, 50, 1000, 1 << 40]);
    let window = *rng.pick(&[0u64, 10, 100, 1000, 10_000]);
    let threshold = *rng.pick(&[0u64, 1, 2, 10, 100, 100, 1000, 1 << 20]);
    let cleanup = *rng.pick(&[0u64, 1, 50, 5000]);
    let max_tracked = *rng.pick(&[0usize, 1, 2, 3, 10_000, 10_000]);
    let cfg = AdaptiveConfig { base_rf: base, hot_key_rf: hot, recalc_interval_ms: recalc,
        hotkey_config: HotKeyConfig { window_ms: window, hot_threshold: threshold as f64, cleanup_interval_ms: cleanup, max_tracked_keys: max_tracked } };
    let mut mgr = AdaptiveReplicationManager::new(cfg);
    ctx.out.op(format!("ADNEW {} {} {} {} {} {} {}", base, hot, recalc, window, threshold, cleanup, max_tracked), ad_summary(&mgr));
    // the hot-key factor IN EFFECT (the configured one; or raised to base_rf by the constructor): the
    // model says which (Adaptive.effHot), the oracle below takes it from stats()
    let configured_hot = hot;
    let hot = mgr.stats().hot_rf;
    if hot != configured_hot && hot != configured_hot.max(base) {
        ctx.out.violation("C19:adaptive:hot-rf-in-effect", "stats().hot_rf is neither the configured hot_key_rf nor max(hot_key_rf, base_rf)", json!({"base_rf": base, "hot_key_rf": configured_hot, "stats.hot_rf": hot}));
    }
    ctx.out.count(&format!("adsession:{}", if configured_hot > base { "hot_rf>base_rf" } else if configured_hot == base { "hot_rf=base_rf" } else { "hot_rf<base_rf" }));
    ctx.out.count(&format!("adsession:max_tracked:{}", match max_tracked { 0 => "0", 1..=3 => "1-3", _ => "ample" }));
    let pool: Vec<String> = vec!["a".into(), "b".into(), "hot:1".into(), "".into(), "k\u{e9}y".into(), "zz".into()];
    let mut shadow: BTreeMap<String, (u64, u64)> = BTreeMap::new(); // key -> (first, total), approximate
    let mut now: u64 = rng.range(0, 2000);
    let check = |ctx: &mut Ctx, mgr: &AdaptiveReplicationManager, what: &str| {
        let ov: BTreeMap<String, u8> = mgr.get_hot_key_updates().into_iter().collect();
        let st = mgr.stats();
        if ov.values().any(|rf| *rf != hot) {
            ctx.out.violation("C19:adaptive:override-not-hot-rf", "an RF override differs from hot_key_rf", json!({"after": what, "overrides": ov, "hot_key_rf": hot}));
        }
        for k in &pool {
            let rf = mgr.get_rf_for_key(k);
            if rf != if ov.contains_key(k) { hot } else { base } {
                ctx.out.violation("C19:adaptive:rf-not-base-or-hot", &format!("get_rf_for_key({:?}) = {} (base_rf {}, hot_key_rf {}, override: {})", k, rf, base, hot, ov.contains_key(k)),
                    json!({"after": what, "key": k, "rf": rf, "base_rf": base, "hot_key_rf": hot}));
            }
        }
        if st.tracked_keys > max_tracked || st.current_hot_keys != ov.len() || mgr.hot_key_count() != ov.len() || st.base_rf != base || st.hot_rf != hot {
            ctx.out.violation("C19:adaptive:capacity-or-stats", "tracked_keys exceeds max_tracked_keys, or stats() / hot_key_count() disagree with the override table / the configuration",
                json!({"after": what, "tracked": st.tracked_keys, "max_tracked_keys": max_tracked, "current_hot_keys": st.current_hot_keys, "overrides": ov.len()}));
        }
    };
    let nsteps = rng.range(15, 50);
    for _ in 0..nsteps {
        // the clock
        now = match rng.below(12) {
            0 => now,
            1 | 2 => now + 1,
            3 | 4 | 5 => now + rng.range(2, 20),
            6 | 7 => now + rng.range(21, 400),
            8 => now + rng.range(401, 20_000),
            9 => now.saturating_sub(rng.range(1, 300)), // the clock goes backwards
            _ => {
                // just below / at / just above the hot threshold of a tracked key
                match (shadow.iter().nth(rng.below(shadow.len().max(1) as u64) as usize), threshold) {
                    (Some((_, (first, total))), t) if t > 0 => {
                        let d = total * 1000 / t;
                        let target = first + d;
                        ctx.out.count("adsession:clock:at-the-threshold-of-a-key");
                        match rng.below(3) { 0 => target.saturating_sub(1), 1 => target, _ => target + 1 }
                    }
                    _ => now + 3,
                }
            }
        }
        .min(u32::MAX as u64);
        match rng.below(10) {
            0..=5 => {
                let k = rng.pick(&pool).clone();
                let w = rng.chance(1, 2);
                // a burst makes a key hot at the common thresholds
                let n = if rng.chance(1, 4) { rng.range(5, 40) } else { 1 };
                for _ in 0..n {
                    mgr.observe(&k, w, now);
                    ctx.out.op(format!("ADOBS {} {} {}", crate::enc::hex(k.as_bytes()), w as u8, now), ad_summary(&mgr));
                    let e = shadow.entry(k.clone()).or_insert((now, 0));
                    e.1 += 1;
                }
                check(ctx, &mgr, "observe");
            }
            6 | 7 => {
                mgr.force_recalculate(now);
                ctx.out.op(format!("ADRECALC {}", now), ad_summary(&mgr));
                check(ctx, &mgr, "force_recalculate");
                let ov: BTreeSet<String> = mgr.get_hot_key_updates().into_iter().map(|x| x.0).collect();
                let hot_now: BTreeSet<String> = pool.iter().filter(|k| mgr.is_hot(k, now)).cloned().collect();
                if ov != hot_now {
                    ctx.out.violation("C19:adaptive:overrides-differ-from-hot-keys", "after force_recalculate(now) the overridden keys are not exactly the keys with is_hot(key, now)",
                        json!({"now": now, "overrides": ov, "is_hot": hot_now}));
                }
                ctx.out.count(if ov.is_empty() { "adsession:recalc:no-hot-key" } else { "adsession:recalc:hot-keys" });
            }
            8 => {
                mgr.clear();
                shadow.clear();
                ctx.out.op("ADCLEAR".into(), ad_summary(&mgr));
                check(ctx, &mgr, "clear");
            }
            _ => {}
        }
        // query every key of the pool
        let mut l = format!("ADQ {} {}", now, pool.len());
        let mut a = Vec::new();
        for k in &pool {
            l.push_str(&format!(" {}", crate::enc::hex(k.as_bytes())));
            a.push(format!("{}:{}", mgr.get_rf_for_key(k), mgr.is_hot(k, now) as u8));
        }
        ctx.out.op(l, format!("aq {}", a.join("|")));
    }
    let st = mgr.stats();
    ctx.out.count(if st.total_promotions > 0 { "adsession:with-promotions" } else { "adsession:no-promotion" });
    ctx.out.count(if st.total_demotions > 0 { "adsession:with-demotions" } else { "adsession:no-demotion" });
    ctx.out.count(if st.tracked_keys == max_tracked && max_tracked <= 3 { "adsession:table-full-at-end" } else { "adsession:table-not-full-at-end" });
}

/// GossipState as a state machine: heartbeats, epochs, queue_deltas / queue_deltas_broadcast,
/// set_router, is_selective, drain — driven twice with the same script: directly, and through the
/// GossipActor (the production entry path); one op stream, both must answer it
fn gossip_state_session(ctx: &mut Ctx, rng: &mut Rng, ring: &HashRing, members: &[u64], keys: &[String]) {
    use redis_sim::production::GossipActor;
    let me = *rng.pick(members);
    let peer_ids: Vec<u64> = members.iter().cloned().filter(|m| *m != me).collect();
    let spec = RouterSpec { kind: "new", me, selective: !rng.chance(1, 4), peer_ids, npeers: 0, partitioned: true, enabled: true };
    // set_router installs a DIFFERENT router (mode flipped, one member without address) — and the
    // next set_router the first one again
    let spec2 = RouterSpec { kind: "new", me, selective: !spec.selective, peer_ids: spec.peer_ids.iter().skip(1).cloned().collect(), npeers: 0, partitioned: true, enabled: true };
    let rnew_line = |sp: &RouterSpec| -> (String, String) {
        let (r, _) = build_router(sp, ring);
        let mut l = format!("RNEW {} {} {}", sp.me, sp.selective as u8, sp.peer_ids.len());
        for p in &sp.peer_ids {
            l.push_str(&format!(" {}", p));
        }
        let mut a = format!("peers self={} sel={}", r.my_replica().0, r.is_selective() as u8);
        for (id, addr) in &peers_of(&r) {
            a.push_str(&format!(" {}:{}", id, addr));
        }
        (l, a)
    };
    // the model's current router becomes this one
    let (rt0, cfg) = build_router(&spec, ring);
    let mut l = format!("RNEW {} {} {}", spec.me, spec.selective as u8, spec.peer_ids.len());
    for p in &spec.peer_ids {
        l.push_str(&format!(" {}", p));
    }
    let mut a = format!("peers self={} sel={}", rt0.my_replica().0, rt0.is_selective() as u8);
    for (id, addr) in &peers_of(&rt0) {
        a.push_str(&format!(" {}:{}", id, addr));
    }
    ctx.out.op(l, a);
    // script
    #[derive(Clone)]
    enum Step { Hb(u64), Adv(u64), Q(Vec<String>), Qb(Vec<String>), Set, Sel, Drain }
    let with_router = rng.chance(2, 3);
    let mut script = Vec::new();
    for _ in 0..rng.range(3, 9) {
        script.push(match rng.below(9) {
            0 => Step::Hb(rng.range(1, 3)),
            1 | 2 => Step::Adv(rng.range(1, 3)),
            3 | 4 | 5 => Step::Q((0..rng.range(0, 4)).map(|_| rng.pick(keys).clone()).collect()),
            6 => Step::Qb((0..rng.range(0, 3)).map(|_| rng.pick(keys).clone()).collect()),
            7 => Step::Set,
            _ => if rng.chance(1, 2) { Step::Sel } else { Step::Drain },
        });
    }
    script.push(Step::Sel);
    script.push(Step::Drain);
    let show = |q: &Vec<redis_sim::replication::gossip::RoutedMessage>, me: u64| -> (String, bool) {
        let mut es: Vec<String> = Vec::new();
        let mut bad = false;
        for m in q {
            match &m.message {
                GossipMessage::Heartbeat { source_replica, epoch } => {
                    bad |= source_replica.0 != me || m.target.is_some();
                    es.push(format!("H@{}", epoch));
                }
                GossipMessage::TargetedDelta { source_replica, target_replica, deltas, epoch } => {
                    bad |= source_replica.0 != me || m.target != Some(*target_replica);
                    es.push(format!("T{}@{}:{}", target_replica.0, epoch, csv(&deltas.iter().map(|d| HashRing::verif_key_position(&d.key)).collect::<Vec<_>>())));
                }
                GossipMessage::DeltaBatch { source_replica, deltas, epoch } => {
                    bad |= source_replica.0 != me || m.target.is_some();
                    es.push(format!("B@{}:{}", epoch, csv(&deltas.iter().map(|d| HashRing::verif_key_position(&d.key)).collect::<Vec<_>>())));
                }
                _ => bad = true,
            }
        }
        es.sort();
        (std::iter::once(format!("q {}", q.len())).chain(es).collect::<Vec<_>>().join(" "), bad)
    };
    let kp = |ks: &[String]| -> String { std::iter::once(ks.len().to_string()).chain(ks.iter().map(|k| HashRing::verif_key_position(k).to_string())).collect::<Vec<_>>().join(" ") };
    // ---- direct
    let mut answers_direct: Vec<String> = Vec::new();
    {
        let mut gs = if with_router { GossipState::with_router(cfg.clone(), build_router(&spec, ring).0) } else { GossipState::new(cfg.clone()) };
        ctx.out.op(format!("GNEW {} {}", me, with_router as u8), "g ok".into());
        let mut nset = 0;
        for st in &script {
            match st {
                Step::Hb(n) => { for _ in 0..*n { gs.queue_heartbeat(); } ctx.out.op(format!("GHB {}", n), "g ok".into()); }
                Step::Adv(n) => { for _ in 0..*n { gs.advance_epoch(); } ctx.out.op(format!("GADV {}", n), "g ok".into()); }
                Step::Q(ks) => { gs.queue_deltas(ks.iter().map(|k| mk_delta(k, me)).collect()); ctx.out.op(format!("GQ {}", kp(ks)), "g ok".into()); }
                Step::Qb(ks) => { gs.queue_deltas_broadcast(ks.iter().map(|k| mk_delta(k, me)).collect()); ctx.out.op(format!("GQB {}", kp(ks)), "g ok".into()); }
                Step::Set => {
                    nset += 1;
                    let sp = if nset % 2 == 1 { &spec2 } else { &spec };
                    let (l, a) = rnew_line(sp);
                    ctx.out.op(l, a);
                    gs.set_router(build_router(sp, ring).0);
                    ctx.out.op("GSET".into(), "g ok".into());
                }
                Step::Sel => { let a = format!("sel {}", gs.is_selective() as u8); answers_direct.push(a.clone()); ctx.out.op("GSEL".into(), a); }
                Step::Drain => {
                    let q = gs.drain_outbound();
                    let (a, bad) = show(&q, me);
                    if bad {
                        ctx.out.violation("C19:gossip-state:envelope", "a queued message has a wrong source replica / target envelope", json!({"queue": a}));
                    }
                    answers_direct.push(a.clone());
                    ctx.out.op("GDRAIN".into(), a);
                }
            }
        }
        let n_adv: u64 = script.iter().map(|s| if let Step::Adv(n) = s { *n } else { 0 }).sum();
        answers_direct.push(format!("epoch {}", gs.epoch == n_adv));
        ctx.out.count("gossip-state:session:direct");
    }
    // ---- the same script through the GossipActor
    {
        let rt = tokio::runtime::Builder::new_current_thread().enable_all().build().unwrap();
        let answers_actor: Vec<String> = rt.block_on(async {
            let h = if with_router { GossipActor::spawn_with_router(cfg.clone(), build_router(&spec, ring).0) } else { GossipActor::spawn(cfg.clone()) };
            let mut res = Vec::new();
            let mut nset = 0;
            for st in &script {
                match st {
                    Step::Hb(n) => { for _ in 0..*n { h.queue_heartbeat(); } }
                    Step::Adv(n) => { for _ in 0..*n { h.advance_epoch(); } }
                    Step::Q(ks) => h.queue_deltas(ks.iter().map(|k| mk_delta(k, me)).collect()),
                    Step::Qb(ks) => h.queue_deltas_broadcast(ks.iter().map(|k| mk_delta(k, me)).collect()),
                    Step::Set => {
                        nset += 1;
                        h.set_router(build_router(if nset % 2 == 1 { &spec2 } else { &spec }, ring).0)
                    }
                    Step::Sel => res.push(format!("sel {}", h.is_selective().await as u8)),
                    Step::Drain => { let q = h.drain_outbound().await; res.push(show(&q, me).0); }
                }
            }
            let n_adv: u64 = script.iter().map(|s| if let Step::Adv(n) = s { *n } else { 0 }).sum();
            res.push(format!("epoch {}", h.get_epoch().await == n_adv));
            h.shutdown().await;
            res
        });
        ctx.out.count("gossip-state:session:via-actor");
        if answers_actor != answers_direct {
            ctx.out.violation("C19:gossip-actor:differs-from-gossip-state",
                "the same script of queue_heartbeat / advance_epoch / queue_deltas / queue_deltas_broadcast / set_router / drain gives different outbound messages through the GossipActor than on the GossipState",
                json!({"direct": answers_direct, "via_actor": answers_actor, "self": me, "with_router": with_router}));
        }
    }
}

/// ONE tick of a gossip loop of production/gossip_manager.rs (`start_gossip_loop` over a locked
/// GossipState, or `start_gossip_loop_with_actor`) over real loopback TCP: `npeers` listeners stand
/// for the configured peers (index i of config.peers = member memberOfIndex(me, i)); the state
/// carries the from_config router; the batch is handed out by collect_deltas once.  Observed: which
/// key positions each configured peer receives.
fn gossip_loop_ops(ctx: &mut Ctx, ring: &HashRing, members: &[u64], spec: &RouterSpec, dkeys: &[String], kind: &str, src: &str) {
    use redis_sim::production::{GossipActor, GossipManager};
    use std::sync::atomic::{AtomicUsize, Ordering};
    use std::sync::Mutex;
    let me = spec.me;
    let n = spec.npeers;
    let rt = tokio::runtime::Builder::new_current_thread().enable_all().build().unwrap();
    let received: Vec<Arc<Mutex<Vec<GossipMessage>>>> = (0..n).map(|_| Arc::new(Mutex::new(Vec::new()))).collect();
    let batch: Vec<ReplicationDelta> = dkeys.iter().enumerate().map(|(i, k)| mk_delta_i(k, me, i)).collect();
    let ring_arc = Arc::new(RwLock::new(ring.clone()));
    let outcome: Result<(), String> = rt.block_on(async {
        use tokio::io::AsyncReadExt;
        // the listeners are NOT served while the loop runs: connect() completes through the accept
        // backlog and the small frames sit in the socket buffers.  After the loop task is gone (its
        // connections closed) every pending connection is accepted and read to EOF — no wall-clock
        // grace period decides what "was received"
        let mut listeners = Vec::new();
        let mut addrs = Vec::new();
        for _ in 0..n {
            let l = tokio::net::TcpListener::bind("127.0.0.1:0").await.map_err(|e| format!("bind: {}", e))?;
            addrs.push(l.local_addr().map_err(|e| format!("addr: {}", e))?.to_string());
            listeners.push(l);
        }
        let mut cfg = ReplicationConfig::new_partitioned_cluster(me, addrs, ring.replication_factor());
        cfg.selective_gossip = spec.selective;
        cfg.partitioned_mode = spec.partitioned;
        cfg.enabled = spec.enabled;
        cfg.gossip_interval_ms = 1;
        let router = GossipRouter::from_config(&cfg, ring_arc.clone());
        let calls = Arc::new(AtomicUsize::new(0));
        let (tx, rx) = tokio::sync::oneshot::channel::<()>();
        let tx = Mutex::new(Some(tx));
        let c2 = calls.clone();
        let b2 = batch.clone();
        let collect = move || {
            let k = c2.fetch_add(1, Ordering::SeqCst);
            if k == 0 { b2.clone() } else {
                // the second call: every send of the first tick has completed
                if let Some(t) = tx.lock().unwrap().take() { let _ = t.send(()); }
                Vec::new()
            }
        };
        let task = if kind == "lock" {
            let state = Arc::new(parking_lot::RwLock::new(GossipState::with_router(cfg.clone(), router)));
            tokio::spawn(GossipManager::start_gossip_loop(cfg.clone(), state, collect))
        } else {
            let handle = GossipActor::spawn_with_router(cfg.clone(), router);
            tokio::spawn(GossipManager::start_gossip_loop_with_actor(cfg.clone(), handle, collect))
        };
        // generous: 12 builders share the machine; the deadline only ends a run whose loop never ticks
        let done = tokio::time::timeout(std::time::Duration::from_secs(60), rx).await;
        task.abort();
        let _ = task.await; // the loop's persistent connections are dropped here
        if done.is_err() {
            return Err("the loop did not come back for a second batch within 60 s".to_string());
        }
        for (i, l) in listeners.iter().enumerate() {
            // a completed connect() is acceptable at once; the timeout only ends the scan
            while let Ok(Ok((mut s, _))) = tokio::time::timeout(std::time::Duration::from_millis(20), l.accept()).await {
                let mut buf = Vec::new();
                match tokio::time::timeout(std::time::Duration::from_secs(5), s.read_to_end(&mut buf)).await {
                    Ok(Ok(_)) => {}
                    _ => return Err("a connection of the (aborted) loop did not reach EOF within 5 s".to_string()),
                }
                let mut pos = 0;
                while pos + 4 <= buf.len() {
                    let len = u32::from_be_bytes([buf[pos], buf[pos + 1], buf[pos + 2], buf[pos + 3]]) as usize;
                    if pos + 4 + len > buf.len() {
                        return Err("a truncated frame was received".to_string());
                    }
                    match GossipMessage::deserialize(&buf[pos + 4..pos + 4 + len]) {
                        Ok(m) => received[i].lock().unwrap().push(m),
                        Err(e) => return Err(format!("a frame does not deserialize: {}", e)),
                    }
                    pos += 4 + len;
                }
                if pos != buf.len() {
                    return Err("trailing bytes after the last frame".to_string());
                }
            }
        }
        Ok(())
    });
    drop(rt);
    if let Err(e) = outcome {
        ctx.out.violation("C19:gossip-loop:harness", &format!("the gossip loop could not be driven: {}", e), json!({"kind": kind, "source": src}));
        return;
    }
    // what each configured peer received
    let mut rows: Vec<Vec<u64>> = Vec::new();
    for i in 0..n {
        let mut kps = Vec::new();
        for m in received[i].lock().unwrap().iter() {
            match m {
                GossipMessage::TargetedDelta { deltas, .. } | GossipMessage::DeltaBatch { deltas, .. } => kps.extend(deltas.iter().map(|d| HashRing::verif_key_position(&d.key))),
                _ => {}
            }
        }
        rows.push(kps);
    }
    let mut l = format!("LOOP {} {} {} {} {} {}", me, n, spec.selective as u8, spec.partitioned as u8, spec.enabled as u8, dkeys.len());
    for k in dkeys {
        l.push_str(&format!(" {}", HashRing::verif_key_position(k)));
    }
    ctx.out.op(l, format!("loop {}", rows.iter().enumerate().map(|(i, r)| format!("{}:{}", i, csv(r))).collect::<Vec<_>>().join("|")));
    ctx.out.count(&format!("gossip-loop:{}:{}", kind, if spec.effective_selective() { "selective" } else { "broadcast" }));
    // oracle: every responsible replica other than the sender receives the delta; the member behind
    // peer index i is the i-th member of 1..=n+1 with `me` left out
    let member_of = |i: usize| -> u64 { if i as u64 + 1 >= me { i as u64 + 2 } else { i as u64 + 1 } };
    let seq_cluster = me >= 1 && me as usize <= n + 1 && members.iter().all(|m| *m >= 1 && *m as usize <= n + 1);
    if !seq_cluster {
        ctx.out.count("excluded:gossip-loop:not-a-sequential-cluster");
        return;
    }
    let pinned_id = |i: usize| -> u64 { if i as u64 >= me { i as u64 + 2 } else { i as u64 + 1 } };
    for k in dkeys {
        let kp = HashRing::verif_key_position(k);
        let owners = ids(&ring.get_replicas(k));
        for i in 0..n {
            let t = member_of(i);
            // per delta: as many copies as the batch holds updates of this key
            let got = rows[i].iter().filter(|x| **x == kp).count() >= dkeys.iter().filter(|x| *x == k).count();
            let owner = owners.contains(&t);
            let replay = json!({"loop": if kind == "lock" { "GossipManager::start_gossip_loop" } else { "GossipManager::start_gossip_loop_with_actor" },
                "replica_id": me, "peers": (0..n).map(|j| format!("address of member {}", member_of(j))).collect::<Vec<_>>(), "members": members,
                "rf": ring.replication_factor(), "key": k, "owners": owners, "peer_index": i, "member": t, "received_by_peer": rows, "source": src});
            if spec.effective_selective() {
                if owner && !got {
                    // cause: the loop's own address map gives index i the id pinned_id(i) != t
                    let by_map = (0..n).find(|j| pinned_id(*j) == t);
                    if by_map != Some(i) {
                        ctx.out.violation("C19:gossip-loop:peer-map:off-by-one",
                            &format!("{}: replica {} (peers = the other members of 1..={}) queues a TargetedDelta for owner {} of key {:?}, but the loop's own address map (`if i >= replica_id {{ i + 2 }} else {{ i + 1 }}`) registers peer index {} as id {}: {}: owner {} receives nothing",
                                if kind == "lock" { "start_gossip_loop" } else { "start_gossip_loop_with_actor" }, me, n + 1, t, k, i, pinned_id(i),
                                match by_map { None => format!("there is no address for id {}", t), Some(j) => format!("id {} is peer index {}, i.e. member {}", t, j, member_of(j)) }, t),
                            replay);
                    } else {
                        ctx.out.violation("C19:gossip-loop:owner-starved", &format!("the gossip loop does not deliver the delta for key {:?} to owner {}", k, t), replay);
                    }
                } else if !owner && rows[i].contains(&kp) {
                    ctx.out.violation("C19:gossip-loop:non-owner-targeted", &format!("the gossip loop delivers the delta for key {:?} to member {}, which is not a responsible replica", k, t), replay);
                }
            } else if !got {
                ctx.out.violation("C19:gossip-loop:broadcast-incomplete", &format!("broadcast mode: member {} did not receive the delta for key {:?}", t, k), replay);
            }
        }
    }
}

/// configuration extremes of the gossip loops: `gossip_interval_ms` (a plain u64) at 0 / 1 / u64::MAX —
/// does the loop start and make its first tick?
fn gossip_loop_interval_probe(ctx: &mut Ctx) {
    use redis_sim::production::{GossipActor, GossipManager};
    use std::sync::atomic::{AtomicUsize, Ordering};
    for interval_ms in [0u64, 1, u64::MAX] {
        for kind in ["lock", "actor"] {
            let rt = tokio::runtime::Builder::new_current_thread().enable_all().build().unwrap();
            let prev = std::panic::take_hook();
            std::panic::set_hook(Box::new(|_| {}));
            let res: Result<usize, String> = rt.block_on(async {
                let mut cfg = ReplicationConfig::new_partitioned_cluster(1, vec![], 3);
                cfg.gossip_interval_ms = interval_ms;
                let calls = Arc::new(AtomicUsize::new(0));
                let c2 = calls.clone();
                let collect = move || { c2.fetch_add(1, Ordering::SeqCst); Vec::new() };
                let task = if kind == "lock" {
                    let state = Arc::new(parking_lot::RwLock::new(GossipState::new(cfg.clone())));
                    tokio::spawn(GossipManager::start_gossip_loop(cfg.clone(), state, collect))
                } else {
                    tokio::spawn(GossipManager::start_gossip_loop_with_actor(cfg.clone(), GossipActor::spawn(cfg.clone()), collect))
                };
                // until the first tick or the end of the task (not a fixed wall-clock wait)
                for _ in 0..5000 {
                    if task.is_finished() || calls.load(Ordering::SeqCst) >= 1 {
                        break;
                    }
                    tokio::time::sleep(std::time::Duration::from_millis(2)).await;
                }
                if task.is_finished() {
                    match task.await {
                        Err(e) if e.is_panic() => {
                            let p = e.into_panic();
                            Err(p.downcast_ref::<String>().cloned().or_else(|| p.downcast_ref::<&str>().map(|x| x.to_string())).unwrap_or_default())
                        }
                        _ => Err("the loop returned".to_string()),
                    }
                } else {
                    task.abort();
                    Ok(calls.load(Ordering::SeqCst))
                }
            });
            std::panic::set_hook(prev);
            ctx.out.count(&format!("gossip-loop:interval-probe:{}", if interval_ms == u64::MAX { "max".to_string() } else { interval_ms.to_string() }));
            ctx.out.op(format!("LOOPI {}", interval_ms), match &res { Ok(_) => "runs".to_string(), Err(m) if m.contains("must be non-zero") => "panic zero-period".to_string(), Err(m) => format!("panic {}", m.replace(' ', "_")) });
            match res {
                Ok(n) if n >= 1 => {}
                Ok(_) => ctx.out.violation("C19:gossip-loop:config:no-first-tick", &format!("gossip_interval_ms = {}: the loop never asked for deltas", interval_ms), json!({"gossip_interval_ms": interval_ms, "loop": kind})),
                Err(msg) => ctx.out.violation(&format!("C19:gossip-loop:config:gossip_interval_ms={}:panics", if interval_ms == u64::MAX { "max".to_string() } else { interval_ms.to_string() }),
                    &format!("ReplicationConfig {{ gossip_interval_ms: {} }} is accepted and the gossip loop ({}) then dies at start ({}): no update is ever sent to any owner", interval_ms, if kind == "lock" { "start_gossip_loop" } else { "start_gossip_loop_with_actor" }, msg),
                    json!({"gossip_interval_ms": interval_ms, "loop": kind, "observed": msg, "expected": "a running loop, or a rejected configuration"})),
            }
        }
    }
}

fn ring_replicas(r: &HashRing, keys: &[String]) -> Vec<Vec<u64>> {
    keys.iter().map(|k| ids(&r.get_replicas(k))).collect()
}

/// DESIGN.md §6.1 witness, runs first on every run: replica 1 of a 3-node cluster configured
/// with peers [n2, n3]
fn witness_from_config(ctx: &mut Ctx, rng: &mut Rng) {
    let seq = vec![1u64, 2, 3];
    let r = ctx.op_new(&seq, 50, 3);
    let keys: Vec<String> = vec!["k".into(), "user:1".into(), "".into()];
    ctx.op_key_positions(&keys);
    ctx.op_replicas(&r, &keys, None);
    for me in 1..=3u64 {
        let spec = RouterSpec { kind: "cfg", me, selective: true, peer_ids: vec![], npeers: 2, partitioned: true, enabled: true };
        router_ops(ctx, rng, &r, &seq, &spec, &keys, "corpus: from_config, 3-node cluster, rf 3");
        // the gossip loops of production/gossip_manager.rs with the same configuration, over real TCP
        for kind in ["lock", "actor"] {
            gossip_loop_ops(ctx, &r, &seq, &spec, &keys, kind, "corpus: gossip loop, 3-node cluster, rf 3, from_config router");
        }
    }
}

/// Two replica ids whose first virtual node has the SAME ring position: a real collision of
/// `HashRing::hash_virtual_node` (SipHash-1-3, zero key, over `node as u64 LE ++ 0u32 LE`), found by
/// a distinguished-point search; kernel-checked on the model's transcription of the hasher
/// (`RedisVerif.C19.sip13_vnode_collision`).
pub const COLL_A: u64 = 8995953703207198936;
pub const COLL_B: u64 = 7408622316112464113;

/// corpus case, runs first on every run: the same membership joined in two orders, with a real
/// position collision between two virtual nodes.  `add_node` sorts by position only (stable), so
/// the tie is broken by JOIN ORDER: two nodes that learnt the members in different orders hold
/// different rings and disagree about the owners of the keys in front of the collided position.
fn witness_position_collision(ctx: &mut Ctx) {
    let sig = "C19:order:position-collision:join-order-decides";
    // (a) the minimal membership: every key is owned by whoever joined first
    let keys: Vec<String> = vec!["k".into(), "user:1".into(), "".into()];
    ctx.op_key_positions(&keys);
    let ra = ctx.op_new(&[COLL_A, COLL_B], 1, 1);
    let reps_a = ctx.op_replicas(&ra, &keys, None);
    let rb = ctx.op_new(&[COLL_B, COLL_A], 1, 1);
    let reps_b = ctx.op_replicas(&rb, &keys, None);
    let pa = ra.verif_ring_positions();
    let pb = rb.verif_ring_positions();
    if pa.len() != 2 || pa[0].0 != pa[1].0 {
        ctx.out.violation("C19:harness:collision-witness-does-not-collide",
            "the two replica ids of the corpus case no longer hash to one position: hash_virtual_node changed (find a new pair)",
            json!({"a": COLL_A, "b": COLL_B, "ring": pa.iter().map(|x| json!([x.0.to_string(), x.1.to_string(), x.2])).collect::<Vec<_>>()}));
        return;
    }
    ctx.out.count("order:position-collision:witness");
    if pa != pb || reps_a != reps_b {
        ctx.out.violation(sig,
            &format!("HashRing::new(vec![A, B], 1, 1) and HashRing::new(vec![B, A], 1, 1) (A = {}, B = {}, hash_virtual_node(A, 0) = hash_virtual_node(B, 0) = {}) are different rings; get_replicas({:?}) = {:?} on the first and {:?} on the second",
                COLL_A, COLL_B, pa[0].0, keys[0], reps_a[0], reps_b[0]),
            json!({"nodes_a": [COLL_A.to_string(), COLL_B.to_string()], "nodes_b": [COLL_B.to_string(), COLL_A.to_string()], "vnodes": 1, "rf": 1,
                   "position": pa[0].0.to_string(), "key": keys[0], "replicas_a": reps_a[0].iter().map(|x| x.to_string()).collect::<Vec<_>>(),
                   "replicas_b": reps_b[0].iter().map(|x| x.to_string()).collect::<Vec<_>>()}));
    }
    // (b) a five-node cluster with the default settings (150 virtual nodes, rf 3): the keys whose
    // clockwise walk starts at the collided position get the two nodes in join order
    let members_a = [1u64, 2, 3, COLL_A, COLL_B];
    let members_b = [1u64, 2, 3, COLL_B, COLL_A];
    let da = HashRing::with_defaults(members_a.iter().map(|n| ReplicaId::new(*n)).collect());
    let db = HashRing::with_defaults(members_b.iter().map(|n| ReplicaId::new(*n)).collect());
    let hit = (0..400_000u32).map(|i| format!("key:{}", i)).find(|k| da.get_replicas(k) != db.get_replicas(k));
    match hit {
        Some(k) => {
            let ks = vec![k.clone()];
            ctx.op_key_positions(&ks);
            let ra = ctx.op_new_defaults(&members_a);
            let xa = ctx.op_replicas(&ra, &ks, None);
            let rb = ctx.op_new_defaults(&members_b);
            let xb = ctx.op_replicas(&rb, &ks, None);
            ctx.out.count("order:position-collision:default-cluster-key-found");
            if xa != xb {
                ctx.out.violation(sig,
                    &format!("HashRing::with_defaults over the members {{1, 2, 3, A, B}} joined as [1,2,3,A,B] and as [1,2,3,B,A]: get_replicas({:?}) = {:?} vs {:?}", k, xa[0], xb[0]),
                    json!({"nodes_a": members_a.iter().map(|x| x.to_string()).collect::<Vec<_>>(), "nodes_b": members_b.iter().map(|x| x.to_string()).collect::<Vec<_>>(),
                           "vnodes": 150, "rf": 3, "key": k}));
            }
        }
        None => ctx.out.count("order:position-collision:default-cluster-no-key-in-400000"),
    }
}

/// the coverage audit of C19 against the eleven classes of missed inputs (also DESIGN §4 C19 "coverage audit")
fn audit() -> serde_json::Value {
    json!([
      {"class": 1, "topic": "entry paths / variants never driven",
       "covered": "every public item of hash_ring.rs, gossip_router.rs, gossip.rs, gossip_actor.rs, gossip_manager.rs, adaptive_replication.rs, config.rs is SCANNED FROM THE SOURCE the binary was built against and mapped to the op that drives it (153 items; unaccounted = C19:coverage:<file>:<item>-not-driven); new this session: with_defaults, is_responsible(_with_rf), get_primary, contains_node, version, node_count, get_distribution_stats, route_with_stats, calculate_reduction_ratio, update_peer / remove_peer, queue_deltas_broadcast, set_router, advance_epoch, is_selective, the whole GossipActor path (same script, same answers), BOTH gossip loops of production/gossip_manager.rs over real loopback TCP, AdaptiveReplicationManager's per-key RF",
       "open": "GossipManager::start_server (binds a fixed port; takes no routing decision); GossipMessage::SyncRequest / SyncResponse (never constructed)"},
      {"class": 2, "topic": "input alphabet", "covered": "keys: empty, ASCII, multi-byte, hash tags, 1-40 random letters, decimal u64 (their ring position is recomputed by the model from the bytes: KP conflicts=0); node ids 0, 1-9, 42, 1000, 0x9e37…, u64::MAX; batches with a key repeated (each delta its own payload / stamp)", "open": ""},
      {"class": 3, "topic": "comparisons at equality",
       "covered": "from_config `i + 1 >= replica_id`: replica_id 0, 1..n, n+1, n+2, u64::MAX with n-2 / n-1 / n peers; queue capacity 9 999 / 10 000 / 10 003 heartbeats before the batch; rf 0, 1, = cluster size, > cluster size; walk bounds: 0, 1, 2, many vnodes, keys in the tail of the ring; gossip_interval_ms 0 / 1 / max",
       "open": "a key position EQUAL to a ring position (binary_search Ok branch, hash_ring.rs:149) needs a SipHash preimage; not reachable through the string API"},
      {"class": 4, "topic": "configuration",
       "covered": "every field from_config / the loops read: replica_id, peers, selective_gossip × partitioned_mode × enabled (all eight), gossip_interval_ms; every public builder shape of ReplicationConfig; ring: vnodes 0-200, rf 0-7; AdaptiveConfig default / both presets / random base_rf, hot_key_rf incl. hot < base",
       "open": "replication_factor / virtual_nodes_per_physical of ReplicationConfig have no reader that builds a ring"},
      {"class": 5, "topic": "capacity thresholds", "covered": "MAX_OUTBOUND_QUEUE crossed (QUEUE)", "open": "HotKeyConfig.max_tracked_keys (the float-based detector is not modelled)"},
      {"class": 6, "topic": "fault kinds", "covered": "poisoned RwLock: not produced (no writer panics); loop start with a zero period panics (finding); a target without address is dropped silently (finding: peer-map)", "open": "TCP connect / write errors of send_to_peer_persistent (logged, message lost) — transport, not routing"},
      {"class": 7, "topic": "history shapes", "covered": "all / sampled join orders; 2-5 add / remove steps incl. members and strangers; the ring emptied completely and refilled in another order; set_router replacing a different router; epochs advancing between queued batches", "open": ""},
      {"class": 8, "topic": "node-global state", "covered": "the ring shared through Arc<RwLock<HashRing>>: changed AFTER the router was built, the next route must follow it; the connection pool of the loops (persistent connections) carries no routing state", "open": ""},
      {"class": 9, "topic": "observations", "covered": "ring checksum over (position, node, index), rf, node_count, version, physical order; ordered replica lists; address book; routing table per target IN BATCH ORDER and per delta identity; queue contents with kind, target, source, EPOCH; what each configured peer RECEIVES from a loop", "open": "float statistics"},
      {"class": 10, "topic": "finding signatures", "covered": "C19:gossip-loop:peer-map:off-by-one fires only when the outcome is what the loop's own arithmetic predicts and the correct arithmetic does not; any other starved owner is C19:gossip-loop:owner-starved (absorption audit: a loop that skips the LAST member is not absorbed)", "open": ""},
      {"class": 11, "topic": "harness fragility", "covered": "a loop that does not come back within 10 s is C19:gossip-loop:harness; what a peer received is read to EOF from every pending connection AFTER the loop task is gone (no wall-clock grace period); listeners on ephemeral loopback ports (no fixed port); source scan from the tree named by harness/Cargo.toml", "open": ""}
    ])
}

pub fn run(a: &Args) {
    let mut ctx = Ctx { out: Out::new(&a.out), defined: BTreeSet::new() };
    let mut rng = Rng::new(a.seed);
    let thorough = a.tier == "thorough";
    // the witness uses its own stream so that the corpus case is the same for every seed
    let mut wr = Rng::new(7);
    ctx.op_sip(&mut wr, 40);
    witness_from_config(&mut ctx, &mut wr);
    witness_position_collision(&mut ctx);
    witness_adaptive_hot_below_base(&mut ctx);
    {
        // fixed adaptive sessions (own stream): base < hot, base = hot, base > hot
        let mut ar = Rng::new(11);
        for fx in [(3u8, 5u8), (2, 2), (3, 1), (0, 0)] {
            adaptive_session(&mut ctx, &mut ar, Some(fx));
        }
    }
    gossip_loop_interval_probe(&mut ctx);
    config_shapes(&mut ctx);
    crate::srcscan::report(&mut ctx.out, "C19", "api_coverage(scanned from the source of the dependency)",
        &["src/replication/hash_ring.rs", "src/replication/gossip_router.rs", "src/replication/gossip.rs", "src/production/gossip_actor.rs",
          "src/production/gossip_manager.rs", "src/production/adaptive_replication.rs", "src/production/hotkey.rs", "src/replication/config.rs"], &coverage);
    ctx.out.extra.insert("audit".into(), audit());
    for i in 0..a.n {
        scenario(&mut ctx, &mut rng, thorough, i);
    }
    ctx.out.finish("case = one membership scenario (node ids, virtual nodes per node, replication factor, 12-28 keys) driven through: every / sampled join order of HashRing::new, get_replicas / get_replicas_with_rf / get_gossip_targets for all keys, 2-5 add_node / remove_node steps, a GossipRouter::new address book and a GossipRouter::from_config router with route_deltas and GossipState::queue_deltas; distinct by (nodes, vnodes, rf, keys); non-trivial iff >= 2 nodes, vnodes >= 1, rf >= 1 and the keys do not all share one replica list");
}

/// GossipRouter::from_config over every configuration SHAPE the public builders of
/// ReplicationConfig produce (RCFG carries the fields from_config reads)
fn config_shapes(ctx: &mut Ctx) {
    let peers = |n: usize| -> Vec<String> { (0..n).map(|i| format!("peer{}", i)).collect() };
    let shapes: Vec<(&str, ReplicationConfig)> = vec![
        ("new_single_node", ReplicationConfig::new_single_node()),
        ("default", ReplicationConfig::default()),
        ("new_cluster(2, 3 peers)", ReplicationConfig::new_cluster(2, peers(3))),
        ("new_cluster.with_partitioned_mode", ReplicationConfig::new_cluster(1, peers(2)).with_partitioned_mode()),
        ("new_cluster.with_partitioned_mode.with_replication_factor(1)", ReplicationConfig::new_cluster(3, peers(2)).with_partitioned_mode().with_replication_factor(1)),
        ("new_partitioned_cluster(4, 4 peers, rf 2)", ReplicationConfig::new_partitioned_cluster(4, peers(4), 2)),
        ("new_partitioned_cluster.with_causal_consistency.with_virtual_nodes(7)", ReplicationConfig::new_partitioned_cluster(1, peers(1), 3).with_causal_consistency().with_virtual_nodes(7)),
        ("new_partitioned_cluster, enabled = false", { let mut c = ReplicationConfig::new_partitioned_cluster(2, peers(2), 3); c.enabled = false; c }),
        ("new_partitioned_cluster, no peers", ReplicationConfig::new_partitioned_cluster(1, vec![], 3)),
        ("new_partitioned_cluster, replica_id = u64::MAX", ReplicationConfig::new_partitioned_cluster(u64::MAX, peers(2), 3)),
    ];
    for (name, cfg) in shapes {
        let ring = HashRing::new((1..=cfg.cluster_size() as u64).map(ReplicaId::new).collect(), cfg.virtual_nodes_per_physical.min(MAX_VNODES), cfg.replication_factor);
        let rt = GossipRouter::from_config(&cfg, Arc::new(RwLock::new(ring)));
        let mut a = format!("peers self={} sel={}", rt.my_replica().0, rt.is_selective() as u8);
        for (id, addr) in &peers_of(&rt) {
            a.push_str(&format!(" {}:{}", id, addr));
        }
        ctx.out.op(format!("RCFG {} {} {} {} {}", cfg.replica_id, cfg.peers.len(), cfg.selective_gossip as u8, cfg.partitioned_mode as u8, cfg.enabled as u8), a);
        ctx.out.count("from_config:builder-shape");
        let want_sel = cfg.selective_gossip && cfg.partitioned_mode && cfg.enabled;
        if rt.is_selective() != want_sel || cfg.uses_selective_gossip() != want_sel || cfg.is_partitioned() != (cfg.partitioned_mode && cfg.enabled) || rt.my_replica().0 != cfg.replica_id {
            ctx.out.violation("C19:from_config:selective-mode", &format!("configuration shape `{}`: the router's mode / identity does not follow the configuration", name),
                json!({"shape": name, "selective_gossip": cfg.selective_gossip, "partitioned_mode": cfg.partitioned_mode, "enabled": cfg.enabled, "is_selective": rt.is_selective()}));
        }
        let seq = cfg.replica_id >= 1 && cfg.replica_id as usize <= cfg.peers.len() + 1;
        let want: BTreeSet<u64> = (1..=cfg.peers.len() as u64 + 1).filter(|i| *i != cfg.replica_id).collect();
        if seq && peers_of(&rt).keys().cloned().collect::<BTreeSet<u64>>() != want {
            ctx.out.violation("C19:from_config:peer-ids", &format!("configuration shape `{}`: from_config does not register exactly the other members", name), json!({"shape": name, "registered": peers_of(&rt)}));
        }
    }
}

/// every public item of the anchored files (scanned from the source this binary was built against)
/// and how this harness accounts for it
fn coverage(file: &str, item: &str) -> Option<&'static str> {
    let f = file.rsplit('/').next().unwrap_or(file);
    Some(match (f, item) {
        // ---- hash_ring.rs
        ("hash_ring.rs", "VirtualNode.physical_node" | "VirtualNode.virtual_index" | "VirtualNode::new") => "driven: every ring; compared through hook H2 (ring checksum over position / node / index), positions recomputed by the model (V lines)",
        ("hash_ring.rs", "HashRing::new" | "HashRing::add_node" | "HashRing::remove_node") => "driven: NEW / ADD / REM (all / sampled join orders, members / non-members, emptied-then-refilled)",
        ("hash_ring.rs", "HashRing::with_defaults") => "driven: NEWD",
        ("hash_ring.rs", "HashRing::verif_ring_positions" | "HashRing::verif_key_position") => "hook H2: the observation itself (V / KP / ring checksum)",
        ("hash_ring.rs", "HashRing::get_replicas" | "HashRing::get_replicas_with_rf") => "driven: K (default rf, explicit rf 0..8, rf from AdaptiveReplicationManager)",
        ("hash_ring.rs", "HashRing::is_responsible_with_rf" | "HashRing::is_responsible" | "HashRing::get_primary" | "HashRing::contains_node") => "driven: OBS",
        ("hash_ring.rs", "HashRing::get_gossip_targets") => "driven: T",
        ("hash_ring.rs", "HashRing::version" | "HashRing::node_count" | "HashRing::nodes" | "HashRing::replication_factor") => "driven: every ring summary (ver= / n= / phys / rf=)",
        ("hash_ring.rs", "HashRing::get_distribution_stats" | "DistributionStats.total_assignments" | "DistributionStats.min_per_node" | "DistributionStats.max_per_node") => "driven: STATS",
        ("hash_ring.rs", "DistributionStats.mean_per_node" | "DistributionStats.std_dev") => "NOT compared: floats (derived from the compared counters; no placement decision reads them)",
        // ---- gossip_router.rs
        ("gossip_router.rs", "GossipRouter::new") => "driven: RNEW (covering / missing / self / stranger address books)",
        ("gossip_router.rs", "GossipRouter::from_config") => "driven: RCFG (replica_id 0..n+2, peers n-2..n, selective_gossip / partitioned_mode / enabled, every builder shape)",
        ("gossip_router.rs", "GossipRouter::route_deltas") => "driven: ROUTE (also after a membership change through the shared ring)",
        ("gossip_router.rs", "GossipRouter::route_with_stats" | "RoutingStats.total_deltas" | "RoutingStats.total_assignments" | "RoutingStats.assignments_saved" | "RoutingStats.unique_targets") => "driven: ROUTES",
        ("gossip_router.rs", "GossipRouter::calculate_reduction_ratio") => "driven: RATIO (the two counters; the ratio is a float)",
        ("gossip_router.rs", "GossipRouter::get_peer_address" | "GossipRouter::peer_ids" | "GossipRouter::is_selective" | "GossipRouter::my_replica") => "driven: every `peers` answer line",
        ("gossip_router.rs", "GossipRouter::update_peer" | "GossipRouter::remove_peer") => "driven: RUPD / RREM",
        // ---- gossip.rs
        ("gossip.rs", "const MAX_OUTBOUND_QUEUE") => "driven: QUEUE with 9 999 / 10 000 / 10 003 heartbeats queued first",
        ("gossip.rs", "GossipMessage::DeltaBatch" | "GossipMessage::TargetedDelta" | "GossipMessage::Heartbeat" | "GossipMessage::new_delta_batch" | "GossipMessage::new_targeted_delta" | "GossipMessage::new_heartbeat") => "driven: QUEUE / GDRAIN / LOOP (kind, target, source, epoch, deltas compared)",
        ("gossip.rs", "GossipMessage::SyncRequest" | "GossipMessage::SyncResponse") => "NOT driven: constructed by nothing in src/ (only matched on receipt); no routing decision involves them",
        ("gossip.rs", "GossipMessage::source_replica" | "GossipMessage::into_deltas" | "GossipMessage::is_delta_message") => "accessors of a received message: not part of routing (C14 covers the codec)",
        ("gossip.rs", "GossipMessage::serialize" | "GossipMessage::deserialize") => "driven: LOOP (the real loops serialise, the listeners deserialise); the codec itself is C14's subject",
        ("gossip.rs", "fn create_gossip_channel") => "NOT driven: a tokio channel constructor",
        ("gossip.rs", "RoutedMessage.target" | "RoutedMessage.message" | "RoutedMessage::broadcast" | "RoutedMessage::targeted") => "driven: every queued message (target vs message kind checked: envelope)",
        ("gossip.rs", "GossipState.replica_id" | "GossipState.epoch" | "GossipState.config" | "GossipState.outbound_queue") => "driven: G* session (source replica and epoch of every message compared)",
        ("gossip.rs", "GossipState::verify_invariants") => "NOT driven: debug-assertion helper (a no-op in the release profile the harness builds)",
        ("gossip.rs", "GossipState::new" | "GossipState::with_router" | "GossipState::set_router" | "GossipState::advance_epoch" | "GossipState::queue_deltas" | "GossipState::queue_deltas_broadcast" | "GossipState::queue_heartbeat" | "GossipState::drain_outbound" | "GossipState::is_selective") => "driven: GNEW / GSET / GADV / GQ / GQB / GHB / GDRAIN / GSEL, QUEUE",
        ("gossip.rs", "GossipState::router") => "accessor",
        // ---- gossip_actor.rs
        ("gossip_actor.rs", "GossipMessage::QueueDeltas" | "GossipMessage::QueueDeltasBroadcast" | "GossipMessage::QueueHeartbeat" | "GossipMessage::AdvanceEpoch" | "GossipMessage::DrainOutbound" | "GossipMessage::SetRouter" | "GossipMessage::IsSelective" | "GossipMessage::GetEpoch" | "GossipMessage::Shutdown") => "driven: the G* script replayed through the GossipActorHandle (one actor message kind per handle fn)",
        ("gossip_actor.rs", "GossipActorHandle::new" | "GossipActorHandle::queue_deltas" | "GossipActorHandle::queue_deltas_broadcast" | "GossipActorHandle::queue_heartbeat" | "GossipActorHandle::advance_epoch" | "GossipActorHandle::drain_outbound" | "GossipActorHandle::set_router" | "GossipActorHandle::is_selective" | "GossipActorHandle::get_epoch" | "GossipActorHandle::shutdown" | "GossipActor::spawn" | "GossipActor::spawn_with_router") => "driven: the G* script through the actor (answers must equal the direct GossipState's), LOOP kind `actor`",
        // ---- gossip_manager.rs
        ("gossip_manager.rs", "GossipManager::start_gossip_loop" | "GossipManager::start_gossip_loop_with_actor") => "driven: LOOP over loopback TCP (what each configured peer receives), LOOPI (gossip_interval_ms 0 / 1 / max)",
        ("gossip_manager.rs", "GossipManager::start_server") => "NOT driven: binds the fixed port 3001 + replica_id on 0.0.0.0 (cannot run next to other checks); the receiving side takes no routing decision",
        ("gossip_manager.rs", "GossipManager::new" | "GossipManager::get_delta_sender" | "GossipManager::queue_outbound") => "NOT driven: channel plumbing with no reader in src/ (the struct is #[allow(dead_code)])",
        ("gossip_manager.rs", "PeerState.replica_id" | "PeerState.address" | "PeerState.last_seen_epoch" | "PeerState.connected" | "PeerState::new") => "NOT driven: #[allow(dead_code)] record with no user in src/",
        // ---- adaptive_replication.rs
        ("adaptive_replication.rs", "AdaptiveConfig.base_rf" | "AdaptiveConfig.hot_key_rf" | "AdaptiveConfig.recalc_interval_ms" | "AdaptiveConfig.hotkey_config" | "AdaptiveConfig::high_throughput" | "AdaptiveConfig::low_latency") => "driven: ARF (default / both presets / random base_rf 0..4, hot_key_rf 0..7 incl. hot < base; recalc interval 1 and u64::MAX)",
        ("adaptive_replication.rs", "AdaptiveReplicationManager::new" | "AdaptiveReplicationManager::observe" | "AdaptiveReplicationManager::get_rf_for_key" | "AdaptiveReplicationManager::recalculate" | "AdaptiveReplicationManager::force_recalculate" | "AdaptiveReplicationManager::get_hot_key_updates" | "AdaptiveReplicationManager::clear" | "AdaptiveReplicationManager::hot_key_count") => "driven: ARF (the rf of every key and the replica list for that rf; the hot SET is the implementation's — the float-based detector is not modelled), promotion / clear oracle",
        ("adaptive_replication.rs", "AdaptiveReplicationManager::is_hot" | "AdaptiveReplicationManager::stats" | "AdaptiveStats.current_hot_keys" | "AdaptiveStats.total_promotions" | "AdaptiveStats.total_demotions" | "AdaptiveStats.tracked_keys" | "AdaptiveStats.base_rf" | "AdaptiveStats.hot_rf") => "driven: AD* session (model Adaptive.Mgr: after every observe / force_recalculate / clear the tracked-key count, the override table, promotions, demotions; is_hot and get_rf_for_key of every pool key)",
        ("adaptive_replication.rs", "AdaptiveReplicationManager::get_top_hot_keys" | "AdaptiveReplicationManager::verify_invariants") => "NOT part of C19: float access rates (sorting by f64) / a no-op in release builds",
        // ---- hotkey.rs (reached through AdaptiveReplicationManager)
        ("hotkey.rs", "HotKeyConfig.window_ms" | "HotKeyConfig.hot_threshold" | "HotKeyConfig.cleanup_interval_ms" | "HotKeyConfig.max_tracked_keys") => "driven: ADNEW (window 0..10000, integer thresholds 0..2^20, clean-up interval 0..5000, capacity 0 / 1 / 2 / 3 / ample)",
        ("hotkey.rs", "HotKeyDetector::new" | "HotKeyDetector::record_access" | "HotKeyDetector::is_hot" | "HotKeyDetector::get_hot_keys" | "HotKeyDetector::cleanup_stale" | "HotKeyDetector::tracked_key_count" | "HotKeyDetector::clear") => "driven through AdaptiveReplicationManager: AD* session (model Adaptive.Detector)",
        ("hotkey.rs", "AccessMetrics.read_count" | "AccessMetrics.write_count" | "AccessMetrics.first_access_ms" | "AccessMetrics.last_access_ms" | "AccessMetrics::access_rate") => "driven through is_hot / get_hot_keys: the comparison access_rate >= hot_threshold is modelled in integers (exact for integer thresholds <= 2^20 and 32-bit clocks, where the harness stays); the f64 rate itself is not compared",
        ("hotkey.rs", "HotKeyDetector::get_top_keys" | "HotKeyDetector::get_metrics" | "HotKeyDetector::verify_invariants") => "NOT part of C19: f64 sorting / an accessor the manager does not use / a no-op in release builds",
        // ---- config.rs
        ("config.rs", "ConsistencyLevel::Eventual" | "ConsistencyLevel::Causal" | "ReplicationConfig.consistency_level" | "ReplicationConfig::with_causal_consistency") => "not read by placement / routing (C06's subject); both values occur in the builder shapes",
        ("config.rs", "ReplicationConfig.enabled" | "ReplicationConfig.replica_id" | "ReplicationConfig.peers" | "ReplicationConfig.partitioned_mode" | "ReplicationConfig.selective_gossip") => "driven: RCFG / LOOP (generated: replica_id 0..n+2 and u64::MAX, 0..n peers, all eight flag combinations)",
        ("config.rs", "ReplicationConfig::peer_replica_id") => "driven: RCFG (the router's address book) and LOOP (the loops' address map) both go through it; replica_id 0..n+2 and u64::MAX",
        ("config.rs", "ReplicationConfig.gossip_interval_ms" | "ReplicationConfig::gossip_interval") => "driven: LOOPI (0 / 1 / u64::MAX), LOOP (1 ms)",
        ("config.rs", "ReplicationConfig.replication_factor" | "ReplicationConfig.virtual_nodes_per_physical" | "ReplicationConfig::with_replication_factor" | "ReplicationConfig::with_virtual_nodes") => "no code in src/ builds a HashRing from these two fields (rings are built by callers with explicit arguments); the ring's own rf 0..7 / vnodes 0..200 are generated; the builder shapes feed them into HashRing::new",
        ("config.rs", "ReplicationConfig::new_single_node" | "ReplicationConfig::new_cluster" | "ReplicationConfig::new_partitioned_cluster" | "ReplicationConfig::with_partitioned_mode" | "ReplicationConfig::is_partitioned" | "ReplicationConfig::uses_selective_gossip" | "ReplicationConfig::cluster_size") => "driven: builder shapes through GossipRouter::from_config (RCFG)",
        _ => return None,
    })
}
