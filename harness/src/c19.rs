//! C19 — key placement is a function of membership; selective gossip reaches every owner.
//! Correspondence: real `HashRing` / `GossipRouter` / `GossipState` vs the model
//! (`lean/RedisVerif/Model/Ring.lean`).  The model never hashes: the real virtual-node positions
//! (hook H2 `verif_ring_positions`) are sent once per node id (`V` lines) and every key is sent
//! as its real ring position (hook H2 `verif_key_position`).
//! Oracle (on the real code only): different rings / replica lists across join orders, wrong
//! replica count / duplicates / non-members, a placement change for a key that does not involve
//! the added / removed node, an owner not targeted or a non-owner targeted by
//! `get_gossip_targets` / `route_deltas` / `queue_deltas`, wrong `from_config` peer ids.
use crate::out::Out;
use crate::rng::Rng;
use crate::Args;
use redis_sim::redis::SDS;
use redis_sim::replication::{
    GossipMessage, GossipRouter, GossipState, HashRing, LamportClock, ReplicaId, ReplicatedValue,
    ReplicationConfig, ReplicationDelta,
};
use serde_json::json;
use std::collections::{BTreeMap, BTreeSet, HashMap};
use std::sync::{Arc, RwLock};

const MAX_VNODES: u32 = 200;
const CHK_P: u128 = 2305843009213693951;

struct Ctx {
    out: Out,
    defined: BTreeSet<u64>,
}

fn csv(v: &[u64]) -> String {
    v.iter().map(|x| x.to_string()).collect::<Vec<_>>().join(",")
}

fn ids(v: &[ReplicaId]) -> Vec<u64> {
    v.iter().map(|r| r.0).collect()
}

fn ring_summary(r: &HashRing) -> (String, bool) {
    let pos = r.verif_ring_positions();
    let mut h: u128 = 0;
    for (p, n, i) in &pos {
        h = (h * 1000003 + (*p as u128) % CHK_P + ((*n as u128) % CHK_P) * 31 + (*i as u128) + 1) % CHK_P;
    }
    // PosInjective, checked at run time on the real positions
    let mut ps: Vec<u64> = pos.iter().map(|x| x.0).collect();
    ps.sort();
    let inj = ps.windows(2).all(|w| w[0] != w[1]);
    let mut s = format!("ring {} {} inj={} phys", pos.len(), h, inj as u8);
    for n in r.nodes() {
        s.push_str(&format!(" {}", n.0));
    }
    (s, inj)
}

impl Ctx {
    /// make sure the model knows the real positions of this node's virtual nodes
    fn define(&mut self, node: u64) {
        if self.defined.insert(node) {
            let r = HashRing::new(vec![ReplicaId::new(node)], MAX_VNODES, 1);
            let mut pos = r.verif_ring_positions();
            pos.sort_by_key(|x| x.2);
            let mut s = format!("V {} {}", node, pos.len());
            for (p, n, i) in &pos {
                assert!(*n == node && *i as usize <= pos.len());
                s.push_str(&format!(" {}", p));
            }
            self.out.op(s, "ok conflicts=0".into());
        }
    }

    /// `KP` line: the real ring positions of the keys (hook H2); the model computes its own
    /// (SipHash-1-3 of the key's bytes and 0xff) and counts the differences
    fn op_key_positions(&mut self, keys: &[String]) {
        let mut l = format!("KP {}", keys.len());
        for k in keys {
            l.push_str(&format!(" {} {}", crate::enc::hex(k.as_bytes()), HashRing::verif_key_position(k)));
        }
        self.out.op(l, "ok conflicts=0".into());
    }

    /// `SIP` lines: the real `DefaultHasher` on raw byte strings (every length 0..=24, then random)
    fn op_sip(&mut self, rng: &mut Rng, n: usize) {
        use std::hash::Hasher;
        for i in 0..n {
            let len = if i <= 24 { i } else { rng.range(25, 200) as usize };
            let bytes: Vec<u8> = (0..len).map(|_| match rng.below(4) { 0 => 0, 1 => 255, _ => rng.below(256) as u8 }).collect();
            let mut h = std::collections::hash_map::DefaultHasher::new();
            h.write(&bytes);
            self.out.op(format!("SIP {}", crate::enc::hex(&bytes)), h.finish().to_string());
        }
    }

    fn op_new(&mut self, nodes: &[u64], vnodes: u32, rf: usize) -> HashRing {
        for n in nodes {
            self.define(*n);
        }
        let r = HashRing::new(nodes.iter().map(|n| ReplicaId::new(*n)).collect(), vnodes, rf);
        let (s, inj) = ring_summary(&r);
        self.out.count(if inj { "posinj:holds" } else { "posinj:collision" });
        let mut l = format!("NEW {} {} {}", vnodes, rf, nodes.len());
        for n in nodes {
            l.push_str(&format!(" {}", n));
        }
        self.out.op(l, s);
        r
    }

    /// `K` line: replica lists of all keys (default rf or explicit)
    fn op_replicas(&mut self, r: &HashRing, keys: &[String], rf: Option<usize>) -> Vec<Vec<u64>> {
        let mut l = format!("K {} {}", rf.map(|x| x.to_string()).unwrap_or("-".into()), keys.len());
        let mut res = Vec::new();
        for k in keys {
            l.push_str(&format!(" {}", HashRing::verif_key_position(k)));
            let reps = match rf {
                None => r.get_replicas(k),
                Some(x) => r.get_replicas_with_rf(k, x),
            };
            res.push(ids(&reps));
        }
        let a = format!("r {}", res.iter().map(|x| csv(x)).collect::<Vec<_>>().join("|"));
        self.out.op(l, a);
        res
    }

    fn op_targets(&mut self, r: &HashRing, keys: &[String], sender: u64) -> Vec<Vec<u64>> {
        let mut l = format!("T {} {}", sender, keys.len());
        let mut res = Vec::new();
        for k in keys {
            l.push_str(&format!(" {}", HashRing::verif_key_position(k)));
            res.push(ids(&r.get_gossip_targets(k, ReplicaId::new(sender))));
        }
        let a = format!("t {}", res.iter().map(|x| csv(x)).collect::<Vec<_>>().join("|"));
        self.out.op(l, a);
        res
    }
}

fn rand_key(rng: &mut Rng) -> String {
    match rng.below(8) {
        0 => String::new(),
        1 => format!("key_{}", rng.below(1000)),
        2 => format!("user:{}:profile", rng.below(100000)),
        3 => "é€😀".repeat(rng.range(1, 3) as usize),
        4 => format!("{{tag{}}}:{}", rng.below(4), rng.below(50)),
        5 => (0..rng.range(1, 40)).map(|_| (b'a' + rng.below(26) as u8) as char).collect(),
        6 => format!("{}", rng.next()),
        _ => format!("k{}", rng.below(20)),
    }
}

fn mk_delta(key: &str, src: u64) -> ReplicationDelta {
    let rid = ReplicaId::new(src);
    ReplicationDelta::new(
        key.to_string(),
        ReplicatedValue::with_value(SDS::from_str("v"), LamportClock::new(rid)),
        rid,
    )
}

fn permutations(xs: &[u64]) -> Vec<Vec<u64>> {
    if xs.len() <= 1 {
        return vec![xs.to_vec()];
    }
    let mut res = Vec::new();
    for i in 0..xs.len() {
        let mut rest = xs.to_vec();
        let x = rest.remove(i);
        for mut p in permutations(&rest) {
            p.insert(0, x);
            res.push(p);
        }
    }
    res
}

/// property oracle on one replica list
fn check_count(out: &mut Out, reps: &[u64], rf: usize, members: &[u64], vnodes: u32, replay: serde_json::Value) {
    if vnodes == 0 {
        out.count("excluded:vnodes=0");
        if !reps.is_empty() {
            out.violation("C19:count:vnodes0-nonempty", "vnodes = 0 but a replica list is non-empty", replay);
        }
        return;
    }
    let want = rf.min(members.len());
    if reps.len() != want {
        out.violation(
            &format!("C19:count:wrong-length:{}", if reps.len() < want { "too-few" } else { "too-many" }),
            &format!("replica list has {} members, expected min(rf={}, nodes={}) = {}", reps.len(), rf, members.len(), want),
            replay.clone(),
        );
    }
    let set: BTreeSet<u64> = reps.iter().cloned().collect();
    if set.len() != reps.len() {
        out.violation("C19:count:duplicate", "replica list contains a node twice", replay.clone());
    }
    if reps.iter().any(|r| !members.contains(r)) {
        out.violation("C19:count:non-member", "replica list contains a node that is not a member", replay);
    }
}

struct RouterSpec {
    /// "new" (explicit peer ids) or "cfg" (from_config)
    kind: &'static str,
    me: u64,
    selective: bool,
    peer_ids: Vec<u64>, // kind = new
    npeers: usize,      // kind = cfg
}

fn build_router(spec: &RouterSpec, ring: &HashRing) -> (GossipRouter, ReplicationConfig) {
    let arc = Arc::new(RwLock::new(ring.clone()));
    if spec.kind == "new" {
        let mut m = HashMap::new();
        for (i, id) in spec.peer_ids.iter().enumerate() {
            m.insert(ReplicaId::new(*id), format!("peer{}", i));
        }
        let mut cfg = ReplicationConfig::new_partitioned_cluster(spec.me, vec![], ring.replication_factor());
        cfg.selective_gossip = spec.selective;
        (GossipRouter::new(arc, ReplicaId::new(spec.me), m, spec.selective), cfg)
    } else {
        let peers: Vec<String> = (0..spec.npeers).map(|i| format!("peer{}", i)).collect();
        let mut cfg = ReplicationConfig::new_partitioned_cluster(spec.me, peers, ring.replication_factor());
        cfg.selective_gossip = spec.selective;
        (GossipRouter::from_config(&cfg, arc), cfg)
    }
}

fn peers_of(rt: &GossipRouter) -> BTreeMap<u64, u64> {
    let mut m = BTreeMap::new();
    for id in rt.peer_ids() {
        let addr = rt.get_peer_address(*id).expect("address");
        m.insert(id.0, addr.strip_prefix("peer").expect("peer addr").parse::<u64>().expect("idx"));
    }
    m
}

/// router ops on the current ring: R* line, ROUTE, QUEUE + oracle
fn router_ops(ctx: &mut Ctx, rng: &mut Rng, ring: &HashRing, members: &[u64], spec: &RouterSpec, keys: &[String], src: &str) {
    let (rt, cfg) = build_router(spec, ring);
    let peers = peers_of(&rt);
    let line = if spec.kind == "new" {
        let mut l = format!("RNEW {} {} {}", spec.me, spec.selective as u8, spec.peer_ids.len());
        for p in &spec.peer_ids {
            l.push_str(&format!(" {}", p));
        }
        l
    } else {
        format!("RCFG {} {} {}", spec.me, spec.npeers, spec.selective as u8)
    };
    let mut a = format!("peers self={} sel={}", rt.my_replica().0, rt.is_selective() as u8);
    for (id, addr) in &peers {
        a.push_str(&format!(" {}:{}", id, addr));
    }
    ctx.out.op(line, a);
    ctx.out.count(&format!("router:{}:{}", spec.kind, if spec.selective { "selective" } else { "broadcast" }));

    let replay = |what: &str, extra: serde_json::Value| {
        json!({"what": what, "members": members, "vnodes_rf": [ring.verif_ring_positions().len() / members.len().max(1), ring.replication_factor()],
               "router": {"kind": spec.kind, "self": spec.me, "selective": spec.selective, "peer_ids_given": spec.peer_ids, "npeers": spec.npeers},
               "registered_peer_ids": peers.keys().collect::<Vec<_>>(), "detail": extra, "source": src})
    };

    // from_config: ids must be exactly the other members of the sequential cluster 1..=npeers+1
    let seq_cluster = spec.kind == "cfg" && spec.me >= 1 && spec.me as usize <= spec.npeers + 1;
    if seq_cluster {
        let want: BTreeSet<u64> = (1..=spec.npeers as u64 + 1).filter(|i| *i != spec.me).collect();
        let got: BTreeSet<u64> = peers.keys().cloned().collect();
        if want != got {
            ctx.out.violation(
                "C19:from_config:peer-ids",
                &format!("GossipRouter::from_config(replica_id={}, {} peers) registers ids {:?}, the other members are {:?}", spec.me, spec.npeers, got, want),
                replay("from_config peer ids", json!({"registered": got, "expected": want})),
            );
        }
    } else if spec.kind == "cfg" {
        ctx.out.count("excluded:from_config:replica-id-outside-1..n+1");
    }
    let covering = members.iter().all(|m| *m == spec.me || peers.contains_key(m));
    ctx.out.count(if covering { "router:peers-cover-members" } else { "router:peers-miss-a-member" });

    // ROUTE
    let nd = rng.range(0, keys.len() as u64) as usize;
    let mut dkeys: Vec<String> = (0..nd).map(|_| rng.pick(keys).clone()).collect();
    if rng.chance(1, 3) && !dkeys.is_empty() {
        let d = dkeys[0].clone();
        dkeys.push(d); // the same key twice in one batch
    }
    let deltas: Vec<ReplicationDelta> = dkeys.iter().map(|k| mk_delta(k, spec.me)).collect();
    let kps: Vec<u64> = dkeys.iter().map(|k| HashRing::verif_key_position(k)).collect();
    let table = rt.route_deltas(deltas.clone());
    let mut tbl: BTreeMap<u64, Vec<u64>> = BTreeMap::new();
    for (t, ds) in &table {
        tbl.insert(t.0, ds.iter().map(|d| HashRing::verif_key_position(&d.key)).collect());
    }
    let mut l = format!("ROUTE {}", kps.len());
    for k in &kps {
        l.push_str(&format!(" {}", k));
    }
    let mut a = "tbl".to_string();
    for (t, ds) in &tbl {
        a.push_str(&format!(" {}:{}", t, csv(ds)));
    }
    ctx.out.op(l, a);

    // oracle: every owner other than the sender is handed the delta, nobody else is
    // (the property speaks about clusters in which the router can reach the other members:
    //  explicit address books that cover the members, and every from_config router of a
    //  sequentially numbered cluster)
    let must_cover = (spec.kind == "new" && covering) || (seq_cluster && members.iter().all(|m| *m >= 1 && *m as usize <= spec.npeers + 1));
    for (i, k) in dkeys.iter().enumerate() {
        let owners = ids(&ring.get_replicas(k));
        let everyone: BTreeSet<u64> = members.iter().chain(peers.keys()).cloned().collect();
        for t in everyone.iter() {
            let handed = tbl.get(t).map(|ds| ds.contains(&kps[i])).unwrap_or(false);
            let owner = owners.contains(t) && *t != spec.me;
            if spec.selective && handed && !owner {
                ctx.out.violation(&format!("C19:route:{}:non-owner-targeted", spec.kind),
                    "route_deltas hands a delta to a node that is not a responsible replica (or to the sender)",
                    replay("route", json!({"key": k, "owners": owners, "target": t})));
            }
            if owner && !handed && must_cover {
                ctx.out.violation(&format!("C19:route:{}:owner-starved", spec.kind),
                    &format!("route_deltas (replica {}) does not hand the delta for key {:?} to owner {} (owners {:?}, registered peer ids {:?})", spec.me, k, t, owners, peers.keys().collect::<Vec<_>>()),
                    replay("route", json!({"key": k, "owners": owners, "starved": t})));
            }
        }
    }

    // QUEUE: GossipState::queue_deltas with this router
    let hb = match rng.below(40) {
        0 => 9_999u64,
        1 => 10_000,
        2 => 10_003,
        x => x % 3,
    };
    let (rt2, _) = build_router(spec, ring);
    let mut gs = GossipState::with_router(cfg.clone(), rt2);
    for _ in 0..hb {
        gs.queue_heartbeat();
    }
    gs.queue_deltas(deltas.clone());
    let q = gs.drain_outbound();
    let mut nhb = 0;
    let mut targeted: BTreeMap<u64, Vec<u64>> = BTreeMap::new();
    let mut broadcast: Vec<Vec<u64>> = Vec::new();
    let mut bad_envelope = false;
    for m in &q {
        match &m.message {
            GossipMessage::Heartbeat { .. } => nhb += 1,
            GossipMessage::TargetedDelta { target_replica, deltas, source_replica, .. } => {
                if m.target != Some(*target_replica) || source_replica.0 != cfg.replica_id || targeted.contains_key(&target_replica.0) {
                    bad_envelope = true;
                }
                targeted.insert(target_replica.0, deltas.iter().map(|d| HashRing::verif_key_position(&d.key)).collect());
            }
            GossipMessage::DeltaBatch { deltas, .. } => {
                if m.target.is_some() {
                    bad_envelope = true;
                }
                broadcast.push(deltas.iter().map(|d| HashRing::verif_key_position(&d.key)).collect());
            }
            _ => bad_envelope = true,
        }
    }
    let mut l = format!("QUEUE {} {}", hb, kps.len());
    for k in &kps {
        l.push_str(&format!(" {}", k));
    }
    let mut a = format!("q {} hb={}", q.len(), nhb);
    for (t, ds) in &targeted {
        a.push_str(&format!(" T{}:{}", t, csv(ds)));
    }
    for ds in &broadcast {
        a.push_str(&format!(" B:{}", csv(ds)));
    }
    ctx.out.op(l, a);
    ctx.out.count(if hb >= 9_999 { "queue:near-capacity" } else { "queue:small" });
    if spec.selective {
        // the queued messages are the routing table
        if bad_envelope || targeted != tbl || !broadcast.is_empty() {
            ctx.out.violation("C19:queue:differs-from-routing-table",
                "queue_deltas did not queue exactly one TargetedDelta per routing-table entry",
                replay("queue", json!({"targeted": targeted, "table": tbl})));
        }
    } else if !deltas.is_empty() && (broadcast.len() != 1 || broadcast[0] != kps || !targeted.is_empty() || bad_envelope) {
        ctx.out.violation("C19:queue:broadcast-incomplete", "broadcast mode did not queue one DeltaBatch with all deltas",
            replay("queue", json!({"broadcast": broadcast})));
    }
}

fn scenario(ctx: &mut Ctx, rng: &mut Rng, thorough: bool, idx: u64) {
    let universe: [u64; 14] = [1, 2, 3, 4, 5, 6, 7, 8, 0, 9, 1000, u64::MAX, 0x9e3779b97f4a7c15, 42];
    // membership
    let k = match rng.below(20) {
        0 => 0,
        1 => 7,
        2 => 8,
        x => 1 + (x % 6),
    } as usize;
    let sequential = rng.chance(1, 2);
    let mut nodes: Vec<u64> = if sequential {
        (1..=k as u64).collect()
    } else {
        let mut u = universe.to_vec();
        rng.shuffle(&mut u);
        u.truncate(k);
        u
    };
    rng.shuffle(&mut nodes);
    let vnodes: u32 = match rng.below(24) {
        0 => 0,
        1 | 2 => 1,
        3 | 4 => 2,
        5..=10 => rng.range(3, 8) as u32,
        11..=15 => rng.range(9, 32) as u32,
        16..=18 => rng.range(33, 100) as u32,
        19 | 20 => 150,
        21 => 199,
        _ => 200,
    };
    let rf = match rng.below(10) {
        0 => 0,
        1 => 7,
        x => 1 + (x % 6),
    } as usize;
    let nkeys = rng.range(12, 28) as usize;
    let keys: Vec<String> = (0..nkeys).map(|_| rand_key(rng)).collect();
    ctx.op_key_positions(&keys);
    ctx.out.count(&format!("nodes:{}", k));
    ctx.out.count(&format!("rf:{}", rf));
    ctx.out.count(match vnodes { 0 => "vnodes:0", 1 => "vnodes:1", 2..=8 => "vnodes:2-8", 9..=32 => "vnodes:9-32", 33..=100 => "vnodes:33-100", _ => "vnodes:101-200" });

    // ---- join orders
    let all = permutations(&nodes);
    let budget = if thorough { if k <= 6 { 720 } else { 60 } } else if k <= 4 { 24 } else { 8 };
    let perms: Vec<Vec<u64>> = if all.len() <= budget {
        ctx.out.count("join-orders:all");
        all
    } else {
        ctx.out.count("join-orders:sampled");
        let mut v = vec![nodes.clone()];
        for _ in 1..budget {
            v.push(rng.pick(&all).clone());
        }
        v
    };
    let mut first: Option<(Vec<(u64, u64, u32)>, Vec<Vec<u64>>, bool)> = None;
    let mut ring0 = None;
    for (pi, p) in perms.iter().enumerate() {
        // a duplicate in the node list is ignored by add_node
        let mut plist = p.clone();
        if pi == 1 && !plist.is_empty() && rng.chance(1, 2) {
            plist.push(plist[0]);
        }
        let r = ctx.op_new(&plist, vnodes, rf);
        let reps = ctx.op_replicas(&r, &keys, None);
        let pos = r.verif_ring_positions();
        let mut ps: Vec<u64> = pos.iter().map(|x| x.0).collect();
        ps.sort();
        let inj = ps.windows(2).all(|w| w[0] != w[1]);
        match &first {
            None => {
                first = Some((pos, reps, inj));
            }
            Some((pos0, reps0, inj0)) => {
                if !*inj0 || !inj {
                    ctx.out.count("excluded:order:position-collision");
                } else {
                    let replay = json!({"nodes_a": perms[0], "nodes_b": plist, "vnodes": vnodes, "rf": rf});
                    if *pos0 != pos {
                        ctx.out.violation("C19:order:ring-differs", "two join orders of the same membership produce different rings", replay.clone());
                    }
                    if let Some(i) = (0..keys.len()).find(|i| reps0[*i] != reps[*i]) {
                        ctx.out.violation("C19:order:replicas-differ",
                            &format!("two join orders give different replica lists for key {:?}: {:?} vs {:?}", keys[i], reps0[i], reps[i]), replay);
                    }
                }
            }
        }
        ring0 = Some(r); // the model's current ring is the one of the last NEW line
    }
    let mut ring = ring0.expect("at least one join order");
    let (_, reps0, _) = first.unwrap();
    let mut members = ids(ring.nodes());
    let distinct_lists: BTreeSet<&Vec<u64>> = reps0.iter().collect();
    ctx.out.case(
        &format!("{:?}|{}|{}|{:?}", nodes, vnodes, rf, keys),
        k >= 2 && vnodes >= 1 && rf >= 1 && distinct_lists.len() >= 2,
    );
    ctx.out.sample(json!({"nodes": nodes, "vnodes": vnodes, "rf": rf, "keys": keys.iter().take(4).collect::<Vec<_>>(), "replicas": reps0.iter().take(4).collect::<Vec<_>>(), "join_orders": perms.len()}));

    // ---- count / distinct (default rf and a per-key rf)
    for (i, r) in reps0.iter().enumerate() {
        check_count(&mut ctx.out, r, rf, &members, vnodes, json!({"nodes": perms[0], "vnodes": vnodes, "rf": rf, "key": keys[i], "replicas": r}));
    }
    let rf2 = rng.below(9) as usize;
    let reps_rf2 = ctx.op_replicas(&ring, &keys, Some(rf2));
    for (i, r) in reps_rf2.iter().enumerate() {
        check_count(&mut ctx.out, r, rf2, &members, vnodes, json!({"nodes": perms[0], "vnodes": vnodes, "rf": rf2, "key": keys[i], "replicas": r, "api": "get_replicas_with_rf"}));
    }

    // ---- gossip targets
    for _ in 0..2 {
        let sender = if !members.is_empty() && rng.chance(4, 5) { *rng.pick(&members) } else { *rng.pick(&universe) };
        let ts = ctx.op_targets(&ring, &keys, sender);
        let reps = ring_replicas(&ring, &keys);
        for i in 0..keys.len() {
            let want: Vec<u64> = reps[i].iter().cloned().filter(|x| *x != sender).collect();
            if ts[i] != want {
                let missing = want.iter().any(|x| !ts[i].contains(x));
                ctx.out.violation(if missing { "C19:targets:owner-missing" } else { "C19:targets:non-owner" },
                    "get_gossip_targets != get_replicas minus the sender",
                    json!({"nodes": members, "vnodes": vnodes, "rf": rf, "key": keys[i], "sender": sender, "targets": ts[i], "replicas": reps[i]}));
            }
        }
    }

    // ---- add / remove sequence
    let steps = rng.range(2, 5);
    let mut before = ring_replicas(&ring, &keys);
    for _ in 0..steps {
        let add = rng.chance(1, 2);
        let x = if add {
            if rng.chance(1, 6) && !members.is_empty() { *rng.pick(&members) } else { *rng.pick(&universe) }
        } else if rng.chance(1, 6) || members.is_empty() {
            *rng.pick(&universe)
        } else {
            *rng.pick(&members)
        };
        let was_member = members.contains(&x);
        if add {
            ctx.define(x);
            ring.add_node(ReplicaId::new(x));
        } else {
            ring.remove_node(ReplicaId::new(x));
        }
        let (s, _) = ring_summary(&ring);
        ctx.out.op(format!("{} {}", if add { "ADD" } else { "REM" }, x), s);
        ctx.out.count(&format!("{}:{}", if add { "add" } else { "remove" }, if was_member { "member" } else { "non-member" }));
        members = ids(ring.nodes());
        let after = ctx.op_replicas(&ring, &keys, None);
        let mut moved = 0;
        for i in 0..keys.len() {
            let involved = if add { after[i].contains(&x) } else { before[i].contains(&x) };
            if after[i] != before[i] {
                moved += 1;
            }
            if !involved && after[i] != before[i] {
                ctx.out.violation(&format!("C19:disruption:{}", if add { "add" } else { "remove" }),
                    &format!("placement of key {:?} changed from {:?} to {:?} although node {} is in neither list", keys[i], before[i], after[i], x),
                    json!({"op": if add { "add_node" } else { "remove_node" }, "node": x, "members_after": members, "vnodes": vnodes, "rf": rf, "key": keys[i], "before": before[i], "after": after[i]}));
            }
            check_count(&mut ctx.out, &after[i], rf, &members, vnodes, json!({"after": if add { "add_node" } else { "remove_node" }, "node": x, "members": members, "vnodes": vnodes, "rf": rf, "key": keys[i], "replicas": after[i]}));
        }
        ctx.out.count(if moved > 0 { "membership-change:keys-moved" } else { "membership-change:no-key-moved" });
        before = after;
    }

    // ---- routers on the current ring (explicit address book)
    if !members.is_empty() {
        let me = if rng.chance(5, 6) { *rng.pick(&members) } else { *rng.pick(&universe) };
        let mut peer_ids: Vec<u64> = members.iter().cloned().filter(|m| *m != me).collect();
        match rng.below(6) {
            0 if !peer_ids.is_empty() => {
                let i = rng.below(peer_ids.len() as u64) as usize;
                peer_ids.remove(i); // a member without address
            }
            1 => peer_ids.push(me), // self in the address book
            2 => peer_ids.push(*rng.pick(&universe)), // stranger / duplicate
            _ => {}
        }
        rng.shuffle(&mut peer_ids);
        let spec = RouterSpec { kind: "new", me, selective: !rng.chance(1, 5), peer_ids, npeers: 0 };
        router_ops(ctx, rng, &ring, &members, &spec, &keys, &format!("case {}", idx));
    }

    // ---- from_config on a sequentially numbered cluster 1..=n
    if rng.chance(2, 3) {
        let n = rng.range(1, 6);
        let seq: Vec<u64> = (1..=n).collect();
        let r = ctx.op_new(&seq, vnodes.max(1), rf);
        let me = match rng.below(10) {
            0 => 0,
            1 => n + 1,
            2 => n + 2,
            _ => rng.range(1, n),
        };
        let npeers = match rng.below(8) {
            0 => n as usize,               // one peer too many
            1 if n >= 2 => n as usize - 2, // one too few
            _ => n as usize - 1,
        };
        let spec = RouterSpec { kind: "cfg", me, selective: !rng.chance(1, 6), peer_ids: vec![], npeers };
        router_ops(ctx, rng, &r, &seq, &spec, &keys, &format!("case {}", idx));
    }

    // ---- GossipState without router: broadcast
    if rng.chance(1, 8) {
        ctx.out.op("RNONE".into(), "peers none".into());
        let cfg = ReplicationConfig::new_cluster(1, vec![]);
        let mut gs = GossipState::new(cfg);
        let dk: Vec<String> = (0..rng.range(0, 3)).map(|_| rng.pick(&keys).clone()).collect();
        gs.queue_deltas(dk.iter().map(|k| mk_delta(k, 1)).collect());
        let q = gs.drain_outbound();
        let kps: Vec<u64> = dk.iter().map(|k| HashRing::verif_key_position(k)).collect();
        let mut l = format!("QUEUE 0 {}", kps.len());
        for k in &kps {
            l.push_str(&format!(" {}", k));
        }
        let mut a = format!("q {} hb=0", q.len());
        for m in &q {
            if let GossipMessage::DeltaBatch { deltas, .. } = &m.message {
                a.push_str(&format!(" B:{}", csv(&deltas.iter().map(|d| HashRing::verif_key_position(&d.key)).collect::<Vec<_>>())));
            } else {
                a.push_str(" ?");
            }
        }
        ctx.out.op(l, a);
    }
}

fn ring_replicas(r: &HashRing, keys: &[String]) -> Vec<Vec<u64>> {
    keys.iter().map(|k| ids(&r.get_replicas(k))).collect()
}

/// DESIGN.md §6.1 witness, runs first on every run: replica 1 of a 3-node cluster configured
/// with peers [n2, n3]
fn witness_from_config(ctx: &mut Ctx, rng: &mut Rng) {
    let seq = vec![1u64, 2, 3];
    let r = ctx.op_new(&seq, 50, 3);
    let keys: Vec<String> = vec!["k".into(), "user:1".into(), "".into()];
    ctx.op_key_positions(&keys);
    ctx.op_replicas(&r, &keys, None);
    for me in 1..=3u64 {
        let spec = RouterSpec { kind: "cfg", me, selective: true, peer_ids: vec![], npeers: 2 };
        router_ops(ctx, rng, &r, &seq, &spec, &keys, "corpus: from_config, 3-node cluster, rf 3");
    }
}

pub fn run(a: &Args) {
    let mut ctx = Ctx { out: Out::new(&a.out), defined: BTreeSet::new() };
    let mut rng = Rng::new(a.seed);
    let thorough = a.tier == "thorough";
    // the witness uses its own stream so that the corpus case is the same for every seed
    let mut wr = Rng::new(7);
    ctx.op_sip(&mut wr, 40);
    witness_from_config(&mut ctx, &mut wr);
    for i in 0..a.n {
        scenario(&mut ctx, &mut rng, thorough, i);
    }
    ctx.out.finish("case = one membership scenario (node ids, virtual nodes per node, replication factor, 12-28 keys) driven through: every / sampled join order of HashRing::new, get_replicas / get_replicas_with_rf / get_gossip_targets for all keys, 2-5 add_node / remove_node steps, a GossipRouter::new address book and a GossipRouter::from_config router with route_deltas and GossipState::queue_deltas; distinct by (nodes, vnodes, rf, keys); non-trivial iff >= 2 nodes, vnodes >= 1, rf >= 1 and the keys do not all share one replica list");
}
