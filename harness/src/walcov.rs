//! C09 / C10 / C14: every entry point, message kind, enum variant, configuration field and private
//! constant of the WAL / segment / checkpoint / gossip sources — derived FROM THE SOURCE the binary
//! was built against by build.rs (`wal_scan`) — and how the harnesses account for it.  A name that
//! is in the source but not in these tables fails the check with a `…:coverage:…-not-driven`
//! signature; an empty list (the scan found nothing: a file moved, a declaration was reformatted)
//! fails it with `…:coverage:source-scan-failed`.
use crate::out::Out;
use serde_json::json;
use std::collections::BTreeMap;

include!(concat!(env!("OUT_DIR"), "/wal_gen.rs"));

fn c09(group: &str, name: &str) -> Option<&'static str> {
    Some(match (group, name) {
        ("WalMessage", "Write") => "driven: write_durable (ack), write_fire_and_forget (no ack), cancelled callers, in every policy",
        ("WalMessage", "SyncTick") => "driven: sync_tick in every policy, every position of a burst",
        ("WalMessage", "TruncateUpTo") => "driven: truncate(T) in every policy",
        ("WalMessage", "Shutdown") => "driven: shutdown() at every clean incarnation end (EverySecond: its final fsync is modelled)",
        ("FsyncPolicy", "Always") => "driven: model Policy.always (group commit); theorem durable_survives",
        ("FsyncPolicy", "EverySecond") => "driven: model Policy.everySecond; theorems everysec_disk_eq_always / everysec_durable_once_tick_synced",
        ("FsyncPolicy", "No") => "driven: model Policy.no; theorem no_mode_never_syncs",
        ("WalError", "Io") => "driven: injected append / create failure, machine dying",
        ("WalError", "DiskFull") => "driven: injected on append and create",
        ("WalError", "PartialWrite") => "driven: injected torn append of every length",
        ("WalError", "FsyncFailed") => "driven: injected fsync failure (group commit, closing fsync, tick)",
        ("WalError", "Corruption") => "C10 / C14: undecodable payload (to_delta), bad header; from_delta cannot fail for the serialised types",
        ("WalError", "NotFound") => "driven (C10): open_read of a file deleted between list() and open_read, LocalWalStore",
        ("WalActorHandle", "write_durable") => "driven",
        ("WalActorHandle", "write_fire_and_forget") => "driven (incl. a burst larger than the mailbox: the excess is dropped)",
        ("WalActorHandle", "truncate") => "driven",
        ("WalActorHandle", "sync_tick") => "driven",
        ("WalActorHandle", "shutdown") => "driven",
        ("WalActorHandle", "fsync_policy") => "driven: compared with the configured policy in every workload; read by ReplicatedShardedState::execute (production path)",
        ("WalConfig.field", "enabled") => "read only by the server start-up code (not by the WAL): printed in the CFG ops",
        ("WalConfig.field", "wal_dir") => "driven: LocalWalStore directory of the local-store runs (C10)",
        ("WalConfig.field", "fsync_policy") => "generated: all three",
        ("WalConfig.field", "max_file_size") => "generated: 0, 1, 16 (<= header), 17, header + k entries (+-1), 1 MiB",
        ("WalConfig.field", "group_commit_max_entries") => "generated: 0, 1, 2, 3, 8, 64; crossed by bursts (300 writers / 64)",
        ("WalConfig.field", "group_commit_max_wait") => "generated: 0, 200 us, 10 ms (virtual time; batch boundaries are compared)",
        ("WalConfig.field", "truncation_check_interval") => "not read by the WAL actor (the caller's timer): printed in the CFG ops",
        ("WalConfig.fn", "test") | ("WalConfig.fn", "always_fsync") | ("WalConfig.fn", "every_second") => "driven: the actor is spawned from these constructors; their fields are compared with the model's table (CFG ops)",
        ("WalStore", "create") | ("WalStore", "open_read") | ("WalStore", "list") | ("WalStore", "delete") => "driven: recording / fault-injecting store (create, delete, list, open_read faults)",
        ("WalStore", "exists") => "NOT called by any WAL code (rotator, actor, recovery): nothing to drive",
        ("WalFileWriter", "append") | ("WalFileWriter", "sync") | ("WalFileWriter", "size") => "driven: every call recorded, faults injected",
        _ => return None,
    })
}

fn c10(group: &str, name: &str) -> Option<&'static str> {
    Some(match (group, name) {
        ("WalRotator", "new") => "driven: over pre-populated directories (boundary sequences, alias names, foreign files)",
        ("WalRotator", "append") | ("WalRotator", "recover_all_entries") | ("WalRotator", "recover_entries_after") | ("WalRotator", "truncate_before") => "driven, compared with the model",
        ("WalRotator", "sync") => "driven (C09; C10: LocalWalStore runs)",
        ("WalRotator", "current_sequence") => "driven: compared (cur=)",
        ("WalRotator", "store") => "accessor",
        ("WalEntry", "from_delta") | ("WalEntry", "to_delta") | ("WalEntry", "encode") | ("WalEntry", "decode") => "driven, compared with the model",
        ("WalEntry", "validate") => "driven: compared with the model's Entry.Valid (VE ops)",
        ("WalEntry", "disk_size") => "driven: compared with the model's Entry.size (VE ops)",
        ("WalReader", "open") | ("WalReader", "entries") => "driven through recovery and directly",
        ("WalReader", "sequence") => "driven: header sequence field compared (RS ops)",
        ("WalReader", "entries_after") => "driven: compared with the model's filter (RS ops)",
        ("WalWriter", "new") | ("WalWriter", "append_entry") | ("WalWriter", "sync") | ("WalWriter", "size") | ("WalWriter", "sequence") => "driven through the rotator",
        ("WalWriter", "entry_count") | ("WalWriter", "max_timestamp") => "driven: compared with the model (WW ops)",
        _ => return None,
    })
}

fn c14(group: &str, name: &str) -> Option<&'static str> {
    Some(match (group, name) {
        ("SegmentReader", "open") | ("SegmentReader", "validate") | ("SegmentReader", "deltas") | ("SegmentReader", "read_all") => "driven, compared with the model",
        ("SegmentReader", "header") | ("SegmentReader", "footer") | ("SegmentReader", "segment") => "driven: header / footer fields of the opened segment compared with the model (SH ops)",
        ("SegmentWriter", "new") | ("SegmentWriter", "write_delta") | ("SegmentWriter", "finish") => "driven, image compared with the model",
        ("SegmentWriter", "estimated_size") | ("SegmentWriter", "record_count") | ("SegmentWriter", "is_empty") => "driven: compared with the written image (SH ops)",
        ("SegmentError", _) => "error classes compared with the model (Compression: flag byte substitutions; Empty: empty batch)",
        ("CheckpointReader", "open") | ("CheckpointReader", "validate") | ("CheckpointReader", "load") => "driven, compared with the model (load also WITHOUT validate: CL ops)",
        ("CheckpointReader", "key_count") | ("CheckpointReader", "timestamp_ms") | ("CheckpointReader", "last_segment_id") | ("CheckpointReader", "is_compressed") => "driven: header accessors compared with the model (CH ops)",
        ("CheckpointWriter", "new") | ("CheckpointWriter", "write") => "driven, image compared with the model",
        ("CheckpointError", _) => "error classes compared with the model (Segment: never constructed by the reader)",
        ("GossipMessage", _) => "driven: every variant through serialize / deserialize, payload bytes compared",
        ("CrdtValue", _) => "driven: every variant through every encoding; variant index compared with the bincode model (BD ops)",
        _ => return None,
    })
}

fn groups(prop: &str) -> Vec<(&'static str, &'static [&'static str])> {
    match prop {
        "C09" => vec![
            ("WalMessage", WAL_MESSAGES), ("FsyncPolicy", FSYNC_POLICIES), ("WalError", WAL_ERRORS), ("WalActorHandle", WAL_HANDLE_FNS),
            ("WalConfig.field", WAL_CONFIG_FIELDS), ("WalConfig.fn", WAL_CONFIG_FNS), ("WalStore", WAL_STORE_TRAIT_FNS), ("WalFileWriter", WAL_WRITER_TRAIT_FNS),
        ],
        "C10" => vec![("WalRotator", WAL_ROTATOR_FNS), ("WalEntry", WAL_ENTRY_FNS), ("WalReader", WAL_READER_FNS), ("WalWriter", WAL_WRITER_FNS)],
        _ => vec![
            ("SegmentReader", SEGMENT_READER_FNS), ("SegmentWriter", SEGMENT_WRITER_FNS), ("SegmentError", SEGMENT_ERRORS), ("CheckpointReader", CHECKPOINT_READER_FNS),
            ("CheckpointWriter", CHECKPOINT_WRITER_FNS), ("CheckpointError", CHECKPOINT_ERRORS), ("GossipMessage", GOSSIP_MESSAGES), ("CrdtValue", CRDT_VARIANTS),
        ],
    }
}

/// the coverage table of `prop` into the evidence; unaccounted names / failed scans are violations
pub fn report(out: &mut Out, prop: &str) {
    let mut table: BTreeMap<String, String> = BTreeMap::new();
    for (group, names) in groups(prop) {
        if names.is_empty() {
            out.violation(
                &format!("{}:coverage:source-scan-failed:{}", prop, group),
                &format!("the source scan (harness/build.rs wal_scan) found no {} in the tree the harness was built against", group),
                json!({"group": group}),
            );
        }
        for n in names {
            let c = match prop {
                "C09" => c09(group, n),
                "C10" => c10(group, n),
                _ => c14(group, n),
            };
            match c {
                Some(c) => {
                    table.insert(format!("{}::{}", group, n), c.to_string());
                }
                None => {
                    table.insert(format!("{}::{}", group, n), "UNACCOUNTED".into());
                    let kind = match group {
                        "WalMessage" | "GossipMessage" => "message",
                        "FsyncPolicy" | "WalError" | "SegmentError" | "CheckpointError" | "CrdtValue" => "variant",
                        "WalConfig.field" => "config-field",
                        _ => "fn",
                    };
                    out.violation(
                        &format!("{}:coverage:{}-not-driven:{}::{}", prop, kind, group, n),
                        &format!("{}::{} exists in the source but the {} harness neither drives it nor lists why not (harness/src/walcov.rs)", group, n, prop),
                        json!({"name": n, "group": group}),
                    );
                }
            }
        }
    }
    out.extra.insert("api_coverage(derived from the WAL / segment / checkpoint / gossip sources by build.rs)".into(), json!(table));
}
