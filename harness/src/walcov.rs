//! C09 / C10 / C14: every entry point, message kind, enum variant, configuration field and private
//! constant of the WAL / segment / checkpoint / gossip sources — derived FROM THE SOURCE the binary
//! was built against by build.rs (`wal_scan`) — and how the harnesses account for it.  A name that
//! is in the source but not in these tables fails the check with a `…:coverage:…-not-driven`
//! signature; an empty list (the scan found nothing: a file moved, a declaration was reformatted)
//! fails it with `…:coverage:source-scan-failed`.
use crate::out::Out;
use serde_json::json;
use std::collections::BTreeMap;

include!(concat!(env!("OUT_DIR"), "/wal_gen.rs"));

fn c09(group: &str, name: &str) -> Option<&'static str> {
    Some(match (group, name) {
        ("WalMessage", "Write") => "driven: write_durable (ack), write_fire_and_forget (no ack), cancelled callers, in every policy",
        ("WalMessage", "SyncTick") => "driven: sync_tick in every policy, every position of a burst",
        ("WalMessage", "TruncateUpTo") => "driven: truncate(T) in every policy",
        ("WalMessage", "Shutdown") => "driven: shutdown() at every clean incarnation end (EverySecond: its final fsync is modelled) AND as a message racing with the writers of a burst (top of the loop / inside the group-commit wait / drain loop: the actor stops or goes on, later callers get I/O errors)",
        ("FsyncPolicy", "Always") => "driven: model Policy.always (group commit); theorem durable_survives",
        ("FsyncPolicy", "EverySecond") => "driven: model Policy.everySecond; theorems everysec_disk_eq_always / everysec_durable_once_tick_synced",
        ("FsyncPolicy", "No") => "driven: model Policy.no; theorem no_mode_never_syncs",
        ("WalError", "Io") => "driven: injected append / create failure, machine dying",
        ("WalError", "DiskFull") => "driven: injected on append and create",
        ("WalError", "PartialWrite") => "driven: injected torn append of every length",
        ("WalError", "FsyncFailed") => "driven: injected fsync failure (group commit, closing fsync, tick)",
        ("WalError", "Corruption") => "C10 / C14: undecodable payload (to_delta), bad header; from_delta cannot fail for the serialised types",
        ("WalError", "NotFound") => "driven (C10): open_read of a missing file on LocalWalStore and on the in-memory store",
        ("WalActorHandle", "write_durable") => "driven",
        ("WalActorHandle", "write_fire_and_forget") => "driven (incl. a burst larger than the mailbox: the excess is dropped)",
        ("WalActorHandle", "truncate") => "driven",
        ("WalActorHandle", "sync_tick") => "driven",
        ("WalActorHandle", "shutdown") => "driven",
        ("WalActorHandle", "fsync_policy") => "driven: compared with the configured policy in every workload; read by ReplicatedShardedState::execute (production path)",
        ("WalConfig.field", "enabled") => "read only by the server start-up code (not by the WAL): printed in the CFG ops",
        ("WalConfig.field", "wal_dir") => "driven: LocalWalStore directory of the local-store runs (C10)",
        ("WalConfig.field", "fsync_policy") => "generated: all three",
        ("WalConfig.field", "max_file_size") => "generated: 0, 1, 16 (<= header), 17, header + k entries (+-1), 1 MiB",
        ("WalConfig.field", "group_commit_max_entries") => "generated: 0, 1, 2, 3, 8, 64; crossed by bursts (300 writers / 64)",
        ("WalConfig.field", "group_commit_max_wait") => "generated: 0, 200 us, 5 ms (virtual time; batch boundaries are compared)",
        ("WalConfig.field", "truncation_check_interval") => "not read by the WAL actor (the caller's timer): printed in the CFG ops",
        ("WalConfig.fn", "test") | ("WalConfig.fn", "always_fsync") | ("WalConfig.fn", "every_second") => "driven: the actor is spawned from these constructors; their fields are compared with the model's table (CFG ops)",
        ("WalStore", "create") | ("WalStore", "open_read") | ("WalStore", "list") | ("WalStore", "delete") => "driven: recording / fault-injecting store (create, delete, list, open_read faults)",
        ("WalStore", "exists") => "NOT called by any WAL code (rotator, actor, recovery): nothing to drive",
        ("WalFileWriter", "append") | ("WalFileWriter", "sync") | ("WalFileWriter", "size") => "driven: every call recorded, faults injected",
        _ => return None,
    })
}

fn c10(group: &str, name: &str) -> Option<&'static str> {
    Some(match (group, name) {
        ("WalRotator", "new") => "driven: over pre-populated directories (boundary sequences, alias names, foreign files)",
        ("WalRotator", "append") | ("WalRotator", "recover_all_entries") | ("WalRotator", "recover_entries_after") | ("WalRotator", "truncate_before") => "driven, compared with the model",
        ("WalRotator", "sync") => "driven (C09; C10: LocalWalStore runs)",
        ("WalRotator", "current_sequence") => "driven: compared (cur=)",
        ("WalRotator", "store") => "accessor",
        ("WalEntry", "from_delta") | ("WalEntry", "to_delta") | ("WalEntry", "encode") | ("WalEntry", "decode") => "driven, compared with the model",
        ("WalEntry", "validate") => "driven: compared with the model's Entry.Valid (VE ops)",
        ("WalEntry", "disk_size") => "driven: compared with the model's Entry.size (VE ops)",
        ("WalReader", "open") | ("WalReader", "entries") => "driven through recovery and directly",
        ("WalReader", "sequence") => "driven: header sequence field compared (RS ops)",
        ("WalReader", "entries_after") => "driven: compared with the model's filter (RS ops)",
        ("WalWriter", "new") | ("WalWriter", "append_entry") | ("WalWriter", "sync") | ("WalWriter", "size") | ("WalWriter", "sequence") => "driven through the rotator",
        ("WalWriter", "entry_count") | ("WalWriter", "max_timestamp") => "driven: compared with the model (WW ops)",
        _ => return None,
    })
}

fn c14(group: &str, name: &str) -> Option<&'static str> {
    Some(match (group, name) {
        ("SegmentReader", "open") | ("SegmentReader", "validate") | ("SegmentReader", "deltas") | ("SegmentReader", "read_all") => "driven, compared with the model",
        ("SegmentReader", "header") | ("SegmentReader", "footer") | ("SegmentReader", "segment") => "driven: header / footer fields of the opened segment compared with the model (SH ops)",
        ("SegmentWriter", "new") | ("SegmentWriter", "write_delta") | ("SegmentWriter", "finish") => "driven, image compared with the model",
        ("SegmentWriter", "estimated_size") | ("SegmentWriter", "record_count") | ("SegmentWriter", "is_empty") => "driven: compared with the written image (SH ops)",
        ("SegmentError", _) => "error classes compared with the model (Compression: flag byte substitutions; Empty: empty batch)",
        ("CheckpointReader", "open") | ("CheckpointReader", "validate") | ("CheckpointReader", "load") => "driven, compared with the model (load also WITHOUT validate: CL ops)",
        ("CheckpointReader", "key_count") | ("CheckpointReader", "timestamp_ms") | ("CheckpointReader", "last_segment_id") | ("CheckpointReader", "is_compressed") => "driven: header accessors compared with the model (CH ops)",
        ("CheckpointWriter", "new") | ("CheckpointWriter", "write") => "driven, image compared with the model",
        ("CheckpointError", _) => "error classes compared with the model (Segment: never constructed by the reader)",
        ("GossipMessage", _) => "driven: every variant through serialize / deserialize, payload bytes compared",
        ("CrdtValue", _) => "driven: every variant through every encoding; variant index compared with the bincode model (BD ops)",
        _ => return None,
    })
}

fn groups(prop: &str) -> Vec<(&'static str, &'static [&'static str])> {
    match prop {
        "C09" => vec![
            ("WalMessage", WAL_MESSAGES), ("FsyncPolicy", FSYNC_POLICIES), ("WalError", WAL_ERRORS), ("WalActorHandle", WAL_HANDLE_FNS),
            ("WalConfig.field", WAL_CONFIG_FIELDS), ("WalConfig.fn", WAL_CONFIG_FNS), ("WalStore", WAL_STORE_TRAIT_FNS), ("WalFileWriter", WAL_WRITER_TRAIT_FNS),
        ],
        "C10" => vec![("WalRotator", WAL_ROTATOR_FNS), ("WalEntry", WAL_ENTRY_FNS), ("WalReader", WAL_READER_FNS), ("WalWriter", WAL_WRITER_FNS)],
        _ => vec![
            ("SegmentReader", SEGMENT_READER_FNS), ("SegmentWriter", SEGMENT_WRITER_FNS), ("SegmentError", SEGMENT_ERRORS), ("CheckpointReader", CHECKPOINT_READER_FNS),
            ("CheckpointWriter", CHECKPOINT_WRITER_FNS), ("CheckpointError", CHECKPOINT_ERRORS), ("GossipMessage", GOSSIP_MESSAGES), ("CrdtValue", CRDT_VARIANTS),
        ],
    }
}


/// the coverage self-audit against the eleven classes of missed inputs (also DESIGN §4 C09 / C10 / C14
/// "Coverage audit"); machine-readable copy in the evidence (`coverage.extra.audit`)
pub fn audit(prop: &str) -> serde_json::Value {
    match prop {
        "C09" => json!([
          {"class": 1, "topic": "entry paths / variants never driven",
           "covered": "WalMessage variants, FsyncPolicy variants, WalError variants, the pub fns of WalActorHandle, WalStore / WalFileWriter trait fns, WalConfig fields and constructors are ENUMERATED FROM THE SOURCE (build.rs wal_scan) and each is mapped to how it is driven (api_coverage); all three policies run on the real actor against the model (Actor.stepP); the production path ReplicatedShardedState::execute -> set_wal_handle -> write_durable / write_fire_and_forget is driven with the deltas captured through the delta sink (ops GQ); a new variant / fn / field fails the check (C09:coverage:*-not-driven)",
           "open": "WalStore::exists has no caller in the WAL code. Session 4: the 5 s ack timeout of write_durable is modelled (Caller, virtual clock) and driven (op GT: group_commit_max_wait 4 s / 4.998 s / 5.002 s / 10 s / 60 s on the paused clock)"},
          {"class": 2, "topic": "input alphabet", "covered": "payload sizes 0..40 and equal sizes, stamps incl. u64::MAX and ties; production-path deltas of SET / DEL / HSET / INCR / multi-key DEL with binary values and a non-ASCII key", "open": "payload CONTENT is C14's subject (every CRDT kind through from_delta)"},
          {"class": 3, "topic": "comparisons at equality", "covered": "size >= max_file_size: thresholds = header + k entries, +-1, and <= header (0, 1, 16); entries_since_sync < group_commit_max_entries: bursts of exactly / more than max_entries (incl. 0 and the default 64 crossed by 300 writers); entries_since_sync > 0: ticks / shutdown with and without unsynced entries; truncate thresholds equal to stamps", "open": ""},
          {"class": 4, "topic": "configuration", "covered": "every WalConfig field the actor reads is generated: fsync_policy (3), max_file_size (0, 1, 16, 17, header+k(+-1), 1 MiB), group_commit_max_entries (0, 1, 2, 3, 8, 64), group_commit_max_wait (0, 200 us, 5 ms); the configuration is built by /repo's own constructors (always_fsync / every_second / default) and, for a quarter of the workloads, passed through serde_json; the constructors' fields and the serde names of the policies are compared with the model's table (CFG / CFGP ops, theorem config_constructors_policy)", "open": "enabled / truncation_check_interval are read by the server start-up code only"},
          {"class": 5, "topic": "capacity thresholds", "covered": "WAL_CHANNEL_CAPACITY (value scanned from the source): capacity + 44 concurrent write_durable callers (senders block, served in order, batches cut at 64) and one caller flooding the mailbox with fire-and-forget writes (the excess is dropped: the model gets exactly the first CAPACITY)", "open": "pending_acks initial capacity 64 is an allocation hint. Session 4: length-width boundaries nobody configured — durable writes of 2^16+1 and 2^24+1 payload bytes (oracle only), found missing by a seeded 16 MiB reader bound"},
          {"class": 6, "topic": "fault kinds", "covered": "create / append (fail, disk full, torn at every length) / fsync (group commit, closing fsync of rotate, tick, shutdown) / delete failures at every I/O call index, machine dying from a call on, store.list() failing in truncate_before (logged, nothing deleted) and in WalRotator::new (spawn fails), callers cancelled while they wait for their ack, actor task panic reported (C09:actor-panicked)", "open": "open_read / read_all failures inside truncate_before (the file is skipped) are not injected"},
          {"class": 7, "topic": "history shapes", "covered": "1..3 incarnations over one store ended by clean shutdown or machine crash (EverySecond: crash without the final fsync of shutdown), bursts of 1..5 and of 300 messages, ticks / truncations / fire-and-forget in every position of a burst, a failed tick followed by more ticks, second incarnation after truncation, a Shutdown in every position of a burst (observed: handled inside the group-commit wait it does NOT stop the actor — the `return` leaves only the async block — so writes after shutdown() are still accepted and made durable)", "open": "very long runs (thousands of rotations) only in the thorough tier"},
          {"class": 8, "topic": "node-global state", "covered": "one actor per node; the store is shared by successive incarnations (sequence numbering continues, files of earlier incarnations are never re-created: create_never_reuses_existing_name + oracle)", "open": ""},
          {"class": 9, "topic": "observations", "covered": "every ack (result class) with the I/O index at which the caller saw it, the complete call trace, the recovered set (id matched by payload AND stamp) at EVERY crash index, WalActorHandle::fsync_policy(); production path: trace + recovered sets + the instant execute returned", "open": "on the production path the ack itself is not observable (execute only logs a WAL error): compared through the model (op GQ)"},
          {"class": 10, "topic": "finding signatures", "covered": "no open finding; the oracles are unconditional: C09:ack-ok-lost:<cause> (Always), C09:synced-entry-lost:<policy> (model-free: appended + fsynced stays), C09:production-path:replied-before-durable, C09:create-overwrites-existing-file, C09:actor-panicked, C09:config:*; session 4: C09:compose:* (every crash image: recover_entries_after succeeds, deltas bit-identical, only written ones, in write order), C09:ack-ok-lost:wide-payload; the synced-entry oracle no longer counts an fsync of a re-created file name (false alarm found by --seed 4)", "open": ""},
          {"class": 11, "topic": "harness fragility", "covered": "source scan failure / unknown name is a violation; the actor's JoinError (panic) is reported instead of ignored; no hard-coded /repo path (taken from harness/Cargo.toml at build time); WAL format and channel capacity come from the crate / the source, not from a hand-set constant", "open": "CODE_SYNCS_BEFORE_DROP / CODE_TICK_SYNCS / CODE_RESTART_REUSES_SEQ in harness/src/main.rs are still hand-set variant switches (a wrong value shows up as a disagreement on the corpus workloads)"}
        ]),
        "C10" => json!([
          {"class": 1, "topic": "entry paths / variants never driven", "covered": "pub fns of WalRotator / WalEntry / WalReader / WalWriter enumerated from the source and accounted for (api_coverage): validate, disk_size (VE), WalWriter accessors (WW), WalReader::sequence / entries_after (RS) are now compared with the model; the PRODUCTION store LocalWalStore (real files, sync_all, list / open_read / delete / exists) runs every generated case and is compared with the model exactly like the in-memory store", "open": "SimulatedWalStore is the DST's store (C20)"},
          {"class": 2, "topic": "input alphabet", "covered": "raw payloads of 0..40 bytes incl. zero bytes, real deltas, entries appended with a wrong stored checksum, directory names: canonical, alias spellings (upper case, '+', unpadded, over-long), 13 foreign names incl. empty / near-WAL names", "open": "names with '/' or NUL cannot exist in a directory"},
          {"class": 3, "topic": "comparisons at equality", "covered": "every truncation length of every file; length fields at remaining-16 / -15 / -17 / 2^32-16-pos; stamps t and t+1 for recover_entries_after / entries_after; T-1, T, T+1 for truncate_before; rotation thresholds at header + k entries +-1; sequences 2^32-1 / 2^32 / 2^64-1", "open": ""},
          {"class": 4, "topic": "configuration", "covered": "max_file_size 17, exact fits, +-1, 1 MiB; the on-disk constants (magic, version, header size, entry overhead) of the crate are compared with the model's (FMT op)", "open": ""},
          {"class": 5, "topic": "capacity thresholds", "covered": "u32 length field limits, 2^32 name-width change, u64 sequence overflow (panic observed and modelled as crash)", "open": "payloads >= 4 GiB unreachable. Session 4: entries of 2^16+1 and 2^24+1 payload bytes, a 2500-entry file, 400 entries over 134 files"},
          {"class": 6, "topic": "fault kinds", "covered": "torn header / entry header / payload, bit flips, byte substitutions, constant runs (00 / FF / 55), zero and garbage tails, files cut behind the store's back on the real file system, open_read of a missing file (NotFound), delete of a missing file", "open": "store failures during truncate_before are C09's (delete faults)"},
          {"class": 7, "topic": "history shapes", "covered": "rotator over a pre-populated directory, restarted rotator over what the first left (in memory and on the file system), truncate then recover, all stamp orders of 3 entries", "open": ""},
          {"class": 8, "topic": "node-global state", "covered": "none: the rotator owns its directory", "open": ""},
          {"class": 9, "topic": "observations", "covered": "every field of every recovered entry (stamp, stored checksum, payload bytes), directory listing with file bytes, open file name, deleted count + remaining names, keys of recover_entries_after; which payloads deserialise is now decided by the MODEL's bincode decoder and cross-checked with the real to_delta (de-mismatch)", "open": ""},
          {"class": 10, "topic": "finding signatures", "covered": "two open findings C10:only-appended:crc32-collision:length-field / :wide-damage, identified by CAUSE (the recovered entry validates, same stamp and stored checksum, other length or a differing span > 4 bytes): a foreign entry that does not validate stays C10:only-appended:<damage>:foreign (self-test: checksum compared on 16 bits only); classes C10:files-independent:<damage>, C10:truncate:*, C10:local-store:*, C10:intact:*", "open": ""},
          {"class": 11, "topic": "harness fragility", "covered": "local-store runs use a directory under the run's --out and remove it; a directory that cannot be created is a violation, not a skip; source-scan failures are violations; session 4: the layout computed from what was appended no longer panics the harness when the files on disk are shorter (a changed rotator); LocalWalStore::list judged against the harness' own read_dir (the model is fed what list() returns)", "open": ""}
        ]),
        _ => json!([
          {"class": 1, "topic": "entry paths / variants never driven", "covered": "pub fns of SegmentReader / SegmentWriter / CheckpointReader / CheckpointWriter, error enums, GossipMessage and CrdtValue variants enumerated from the source (api_coverage); accessors of opened segments / checkpoints (SH / CH), CheckpointReader::load WITHOUT validate (cl / clx: found to panic), the manager path CheckpointManager::create_checkpoint / load_checkpoint over an object store; the bincode (de)serialiser itself is now modelled byte for byte and compared on every payload (BD / BS)", "open": "zstd (cargo feature off). Session 4: serde_json of gossip frames is modelled byte for byte (encoder + canonical decoder, ops JG / JX); every public recovery entry point (recover / recover_with_progress / recover_with_wal) is run over a store with a damaged segment / checkpoint object"},
          {"class": 2, "topic": "input alphabet", "covered": "every CRDT kind and shape, binary / empty / 1 MiB values, unicode / NUL / empty keys; hand-made payloads no serialiser produces: duplicate map keys and set elements, out-of-range variant index / option tag / bool byte, counts and lengths beyond the input, 1294 byte strings around every boundary of the UTF-8 well-formedness table as keys", "open": ""},
          {"class": 3, "topic": "comparisons at equality", "covered": "every truncation length (payloads: every prefix), length / count fields at remaining +-1, 0, 2^32, 2^63, u64::MAX written over every (dense) / sampled position", "open": ""},
          {"class": 4, "topic": "configuration", "covered": "CheckpointConfig::default (compression_enabled, feature off) and ::test through the manager; bincode's configuration is read off the code: DefaultOptions + fixint + allow_trailing_bytes, NO byte limit (modelled: trailing bytes ignored; theorem bincode_cells_bounded is the only bound)", "open": ""},
          {"class": 5, "topic": "capacity thresholds", "covered": "records >= 64 KiB (1 MiB value), hundreds of hash fields, serde's 1 MiB pre-allocation cap cannot be exceeded by a short input (count-beyond-input cases: rejected, no crash)", "open": "payloads >= 4 GiB (as u32 truncation) unreachable"},
          {"class": 6, "topic": "fault kinds", "covered": "truncation, bit flips, 00 / FF substitutions, boundary values in every integer field, constant runs, trailing bytes; damage that REACHES the deserialiser (record / payload byte replaced and the checksums recomputed: sxf / cxf) decoded field by field by both sides; panics of every path are caught and are violations", "open": ""},
          {"class": 7, "topic": "history shapes", "covered": "single images; the crafted embedded-footer segment", "open": "multi-object histories are C11 / C12 / C13"},
          {"class": 8, "topic": "node-global state", "covered": "none", "open": ""},
          {"class": 9, "topic": "observations", "covered": "canonical text of EVERY field of every decoded value (payload bytes in hex), error classes, header / footer fields through the readers' accessors, CheckpointResult fields; on-disk constants of the crate / the source against the model's writers (FMT)", "open": "gossip byte flips: compared with the model wherever the document stays canonical, measured elsewhere (no checksum on the wire)"},
          {"class": 10, "topic": "finding signatures", "covered": "no open finding: C14:checkpoint:load-without-validate:panics-on-short-image was repaired (fix: 7df179c), its corpus case must pass and any panic of that path is a VIOLATION again; decoded-different / truncate:decoded stay violations", "open": ""},
          {"class": 11, "topic": "harness fragility", "covered": "which load() variant the code has is probed on every run (and the oracle is unconditional); source-scan failures are violations; no model op for the 1 MiB value (oracle only)", "open": ""}
        ]),
    }
}

/// the coverage table of `prop` into the evidence; unaccounted names / failed scans are violations
pub fn report(out: &mut Out, prop: &str) {
    let mut table: BTreeMap<String, String> = BTreeMap::new();
    for (group, names) in groups(prop) {
        if names.is_empty() {
            out.violation(
                &format!("{}:coverage:source-scan-failed:{}", prop, group),
                &format!("the source scan (harness/build.rs wal_scan) found no {} in the tree the harness was built against", group),
                json!({"group": group}),
            );
        }
        for n in names {
            let c = match prop {
                "C09" => c09(group, n),
                "C10" => c10(group, n),
                _ => c14(group, n),
            };
            match c {
                Some(c) => {
                    table.insert(format!("{}::{}", group, n), c.to_string());
                }
                None => {
                    // a NEW public fn of an anchored type that nothing outside its own file calls (non-test code)
                    // cannot reach the property: recorded, not a violation.  Trait fns, message kinds, enum
                    // variants, config fields and fns WITH callers in other modules stay violations.
                    let ext = WAL_FN_EXTERNAL_CALLS.iter().find(|(g, f, _)| *g == group && f == n).map(|(_, _, c)| *c);
                    if ext == Some(0) {
                        table.insert(format!("{}::{}", group, n), "NEW public fn without a caller outside its own file (non-test code): cannot reach the property; not driven".into());
                        out.count("coverage:new-pub-fn-without-external-callers");
                        continue;
                    }
                    table.insert(format!("{}::{}", group, n), "UNACCOUNTED".into());
                    let kind = match group {
                        "WalMessage" | "GossipMessage" => "message",
                        "FsyncPolicy" | "WalError" | "SegmentError" | "CheckpointError" | "CrdtValue" => "variant",
                        "WalConfig.field" => "config-field",
                        _ => "fn",
                    };
                    out.violation(
                        &format!("{}:coverage:{}-not-driven:{}::{}", prop, kind, group, n),
                        &format!("{}::{} exists in the source but the {} harness neither drives it nor lists why not (harness/src/walcov.rs)", group, n, prop),
                        json!({"name": n, "group": group}),
                    );
                }
            }
        }
    }
    out.extra.insert("api_coverage(derived from the WAL / segment / checkpoint / gossip sources by build.rs)".into(), json!(table));
    out.extra.insert("audit".into(), audit(prop));
}
