//! C08 — newest write wins / stamps only grow, also across restart.
//! Correspondence: a real `ReplicatedShardActor` (local SET/DEL/HSET/HDEL, remote deltas,
//! `apply_recovered_state`, snapshots, restarts) vs model `Shard.step`.
//! Oracle: every effective local write carries a stamp strictly greater than every stamp the
//! node has observed for that key; issued stamps strictly increase.
use crate::enc::{hex, key_cmp, MCrdt, MLww, MRv};
use crate::out::Out;
use crate::rng::Rng;
use crate::Args;
use redis_sim::production::{ReplicatedShardActor, ReplicatedShardHandle};
use redis_sim::redis::{Command, SDS};
use redis_sim::replication::lattice::ReplicaId;
use redis_sim::replication::state::{ReplicatedValue, ReplicationDelta, ShardReplicaState};
use redis_sim::replication::ConsistencyLevel;
use serde_json::json;
use std::collections::{BTreeMap, HashMap};

const KEYS: [&str; 3] = ["k", "h", "é"];
const FIELDS: [&str; 3] = ["f", "g", "ab"];

type St = (u64, u64);

fn stamps_of(v: &MRv) -> Vec<St> {
    let mut s = vec![(v.t, v.r)];
    match &v.crdt {
        MCrdt::Lww(l) => s.push((l.t, l.r)),
        MCrdt::H(h) => s.extend(h.values().map(|l| (l.t, l.r))),
        _ => {}
    }
    s
}

fn val(rng: &mut Rng) -> Vec<u8> {
    match rng.below(4) {
        0 => vec![],
        1 => vec![0, 255],
        _ => format!("v{}", rng.below(50)).into_bytes(),
    }
}

/// a dominated value as a peer could send it (register / field stamps ≤ outer stamp)
fn peer_value(rng: &mut Rng, tmax: u64) -> MRv {
    let t = rng.below(tmax + 1);
    let r = rng.range(2, 3);
    if rng.chance(1, 2) {
        let tomb = rng.chance(1, 4);
        MRv {
            crdt: MCrdt::Lww(MLww { v: if tomb { None } else { Some(val(rng)) }, t, r, tomb }),
            vc: None,
            exp: if rng.chance(1, 4) { Some(rng.range(1, 9) * 1000) } else { None },
            t,
            r,
            rf: None,
        }
    } else {
        let mut h = BTreeMap::new();
        for _ in 0..rng.range(1, 3) {
            let tomb = rng.chance(1, 4);
            h.insert(
                rng.pick(&FIELDS).to_string(),
                MLww { v: if tomb { None } else { Some(val(rng)) }, t: rng.below(t + 1), r, tomb },
            );
        }
        MRv { crdt: MCrdt::H(h), vc: None, exp: None, t, r, rf: None }
    }
}

struct Node {
    h: ReplicatedShardHandle,
}

fn snap_sorted(m: &HashMap<String, ReplicatedValue>) -> Vec<(String, MRv)> {
    let mut v: Vec<(String, MRv)> = m.iter().map(|(k, v)| (k.clone(), MRv::from_real(v))).collect();
    v.sort_by(|a, b| key_cmp(&a.0, &b.0));
    v
}

pub fn run(a: &Args) {
    let mut out = Out::new(&a.out);
    let mut rng = Rng::new(a.seed);
    let rt = tokio::runtime::Builder::new_current_thread().enable_all().build().unwrap();
    rt.block_on(async {
        // corpus first: the DESIGN.md §6.1 history (checkpoint-only recovery, then a write)
        history(&mut out, &mut Rng::new(0xC08), true).await;
        for _ in 0..a.n {
            let mut r = rng.fork();
            history(&mut out, &mut r, false).await;
        }
    });
    out.finish("case = one node history of 5..40 ops on a real ReplicatedShardActor: local SET[EX]/DEL/HSET/HDEL on 3 colliding keys, remote deltas (dominated values from peers 2,3 with times around the local clock), snapshots, restarts that recover the snapshot as checkpoint values (ApplyRecoveredState) or as deltas or a subset; distinct by the op text of the history; non-trivial iff it contains an effective local write issued after a remote/recovered value of the same key");
}

async fn history(out: &mut Out, rng: &mut Rng, corpus: bool) {
    let rid = 1u64;
    let causal = !corpus && rng.chance(1, 4);
    let level = if causal { ConsistencyLevel::Causal } else { ConsistencyLevel::Eventual };
    let mut node = Node { h: ReplicatedShardActor::spawn(ReplicaId::new(rid), level, 0) };
    out.op(format!("NEW {} {}", rid, causal as u8), "ok".into());
    let mut text = String::new();
    // stamps the current incarnation has observed, per key, with provenance
    let mut observed: HashMap<String, Vec<(St, &'static str)>> = HashMap::new();
    let mut last_issued: Option<St> = None;
    let mut nontrivial = false;
    let mut clock_guess = 0u64;
    let steps = if corpus { 0 } else { rng.range(5, 40) };
    let mut script: Vec<u8> = Vec::new();
    if corpus {
        // 3 writes, restart from checkpoint only, write again
        script = vec![0, 0, 0, 9, 0];
    }
    let mut i = 0;
    loop {
        let choice = if corpus {
            if i >= script.len() { break; }
            script[i]
        } else {
            if i as u64 >= steps { break; }
            rng.below(11) as u8
        };
        i += 1;
        let key = if corpus { "k".to_string() } else { rng.pick(&KEYS).to_string() };
        let before = node.h.get_snapshot().await;
        let prev = before.get(&key).map(MRv::from_real);
        match choice {
            0..=5 => {
                // local op
                let (cmd, opline, eff, kind): (Command, String, bool, &str) = match choice {
                    0 | 1 => {
                        let v = val(rng);
                        let ex = if rng.chance(1, 4) { Some(rng.range(1, 50) as i64) } else { None };
                        let mut c = Command::set(key.clone(), SDS::new(v.clone()));
                        if let Command::Set { ex: ref mut e, .. } = c {
                            *e = ex;
                        }
                        (c, format!("W {} {} {}", hex(key.as_bytes()), hex(&v), ex.map(|s| (s as u64 * 1000).to_string()).unwrap_or("-".into())), true, "set")
                    }
                    2 => {
                        let eff = matches!(prev.as_ref().map(|p| &p.crdt), Some(MCrdt::Lww(_)) | Some(MCrdt::H(_)));
                        (Command::del(key.clone()), format!("D {}", hex(key.as_bytes())), eff, "del")
                    }
                    3 | 4 => {
                        let n = rng.range(1, 2);
                        let fs: Vec<(String, Vec<u8>)> = (0..n).map(|_| (rng.pick(&FIELDS).to_string(), val(rng))).collect();
                        let mut l = format!("HW {} {}", hex(key.as_bytes()), fs.len());
                        for (f, v) in &fs {
                            l.push_str(&format!(" {} {}", hex(f.as_bytes()), hex(v)));
                        }
                        (Command::HSet(key.clone(), fs.iter().map(|(f, v)| (SDS::from_str(f), SDS::new(v.clone()))).collect()), l, true, "hset")
                    }
                    _ => {
                        let n = rng.range(1, 2);
                        let fs: Vec<String> = (0..n).map(|_| rng.pick(&FIELDS).to_string()).collect();
                        let eff = match prev.as_ref().map(|p| &p.crdt) {
                            Some(MCrdt::H(h)) => fs.iter().any(|f| h.contains_key(f)),
                            _ => false,
                        };
                        let mut l = format!("HD {} {}", hex(key.as_bytes()), fs.len());
                        for f in &fs {
                            l.push_str(&format!(" {}", hex(f.as_bytes())));
                        }
                        (Command::HDel(key.clone(), fs.iter().map(|f| SDS::from_str(f)).collect()), l, eff, "hdel")
                    }
                };
                out.count(&format!("op:{}", kind));
                let (reply, delta) = node.h.execute(cmd).await;
                if matches!(reply, redis_sim::redis::RespValue::Error(_)) && delta.is_none() {
                    // the executor rejected the command (e.g. HSET on a string key): the glue does
                    // not touch the replication state, so there is no model op for it
                    out.count("local-command-rejected-by-executor");
                    continue;
                }
                let ans = match &delta {
                    Some(d) => format!("eff={} delta {}", eff as u8, MRv::from_real(&d.value).show()),
                    None => format!("eff={} none", eff as u8),
                };
                text.push_str(&opline);
                text.push(';');
                out.op(opline.clone(), ans);
                if eff {
                    out.count("effective-local-write");
                    match &delta {
                        None => out.violation("C08:effective-write-without-delta", "an effective local write produced no delta", json!({"history": text})),
                        Some(d) => {
                            let m = MRv::from_real(&d.value);
                            let st = (m.t, m.r);
                            clock_guess = clock_guess.max(st.0);
                            for (o, prov) in observed.get(&key).cloned().unwrap_or_default() {
                                if *prov != *"local" {
                                    nontrivial = true;
                                }
                                if !(o < st) {
                                    out.violation(
                                        &format!("C08:stale-stamp:after-{}", prov),
                                        &format!("local {} on key acknowledged with stamp {:?} although the node had observed stamp {:?} ({}) for that key", kind, st, o, prov),
                                        json!({"history": text, "issued": [st.0, st.1], "observed": [o.0, o.1]}),
                                    );
                                    break;
                                }
                            }
                            if let Some(li) = last_issued {
                                if !(li < st) {
                                    out.violation("C08:issued-not-increasing", &format!("issued stamp {:?} after {:?}", st, li), json!({"history": text}));
                                }
                            }
                            last_issued = Some(st);
                        }
                    }
                }
            }
            6 | 7 => {
                // remote delta
                out.count("op:remote");
                let m = peer_value(rng, clock_guess + 6);
                let d = ReplicationDelta::new(key.clone(), m.to_real(), ReplicaId::new(m.r));
                node.h.apply_remote_delta(d);
                let l = format!("R {} {}", hex(key.as_bytes()), m.show());
                text.push_str(&l);
                text.push(';');
                out.op(l, "ok".into());
                clock_guess = clock_guess.max(m.t + 1);
                for s in stamps_of(&m) {
                    observed.entry(key.clone()).or_default().push((s, "remote"));
                }
            }
            8 => {
                out.count("op:snap");
                let s = node.h.get_snapshot().await;
                let v = snap_sorted(&s);
                let mut ans = v.len().to_string();
                for (k, m) in &v {
                    ans.push_str(&format!(" {} {} ;", hex(k.as_bytes()), m.show()));
                }
                out.op("SNAP".into(), ans);
            }
            _ => {
                // restart: crash, new actor, recover
                out.count("op:restart");
                let snap = node.h.get_snapshot().await;
                node.h.shutdown().await;
                node = Node { h: ReplicatedShardActor::spawn(ReplicaId::new(rid), level, 0) };
                out.op(format!("NEW {} {}", rid, causal as u8), "ok".into());
                text.push_str("RESTART;");
                observed.clear();
                let full = corpus || rng.chance(2, 3);
                let mut all_recovered = true;
                for (k, m) in snap_sorted(&snap) {
                    if !full && rng.chance(1, 3) {
                        all_recovered = false;
                        continue; // lost (was not durable)
                    }
                    let as_checkpoint = corpus || rng.chance(1, 2);
                    let l = if as_checkpoint {
                        node.h.apply_recovered_state(k.clone(), m.to_real());
                        out.count("recover:checkpoint");
                        format!("REC {} {}", hex(k.as_bytes()), m.show())
                    } else {
                        node.h.apply_remote_delta(ReplicationDelta::new(k.clone(), m.to_real(), ReplicaId::new(rid)));
                        out.count("recover:delta");
                        format!("R {} {}", hex(k.as_bytes()), m.show())
                    };
                    text.push_str(&l);
                    text.push(';');
                    out.op(l, "ok".into());
                    for s in stamps_of(&m) {
                        observed.entry(k.clone()).or_default().push((s, if as_checkpoint { "recovered-checkpoint" } else { "recovered-delta" }));
                    }
                }
                if !all_recovered {
                    last_issued = None; // own maximum may legitimately be gone
                }
            }
        }
        // everything the node stores now is observed
        let after = node.h.get_snapshot().await;
        if let Some(v) = after.get(&key) {
            for s in stamps_of(&MRv::from_real(v)) {
                let e = observed.entry(key.clone()).or_default();
                if !e.iter().any(|(o, _)| *o == s) {
                    e.push((s, "local"));
                }
            }
        }
    }
    // final snapshot is always compared
    let s = node.h.get_snapshot().await;
    let v = snap_sorted(&s);
    let mut ans = v.len().to_string();
    for (k, m) in &v {
        ans.push_str(&format!(" {} {} ;", hex(k.as_bytes()), m.show()));
    }
    out.op("SNAP".into(), ans);
    node.h.shutdown().await;
    out.case(&text, nontrivial);
    out.sample(json!({"history": text}));
    let _ = ShardReplicaState::new(ReplicaId::new(1), ConsistencyLevel::Eventual);
}
