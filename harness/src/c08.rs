//! C08 — newest write wins / stamps only grow, also across restart.
//! Correspondence: a real `ReplicatedShardActor` (local SET/DEL/HSET/HDEL, remote deltas,
//! `apply_recovered_state`, snapshots, restarts) vs model `Shard.step`.
//! Oracle: every effective local write carries a stamp strictly greater than every stamp the
//! node has observed for that key; issued stamps strictly increase.
//! System level (`system_history`): a real `ReplicatedShardedState` (16 shard actors): histories
//! over keys spread over shards, gossip from a peer, then for EVERY split of the history into
//! checkpoint + deltas a fresh state with the same replica id is recovered through
//! `apply_recovered_state(Some(checkpoint), deltas)` and written to; the model (`ShardedNode`,
//! `recoverNode`) predicts every stamp, the oracle checks the property on the real deltas.
use crate::enc::{hex, key_cmp, MCrdt, MLww, MRv};
use crate::out::Out;
use crate::redisx::{variant_info, Cover};
use crate::rng::Rng;
use crate::Args;
use redis_sim::production::{ReplicatedShardActor, ReplicatedShardHandle};
use redis_sim::redis::{Command, SDS};
use redis_sim::replication::lattice::ReplicaId;
use redis_sim::replication::state::{ReplicatedValue, ReplicationDelta, ShardReplicaState};
use redis_sim::replication::ConsistencyLevel;
use serde_json::json;
use std::collections::{BTreeMap, HashMap};

const KEYS: [&str; 3] = ["k", "h", "é"];
const FIELDS: [&str; 3] = ["f", "g", "ab"];

type St = (u64, u64);

fn stamps_of(v: &MRv) -> Vec<St> {
    let mut s = vec![(v.t, v.r)];
    match &v.crdt {
        MCrdt::Lww(l) => s.push((l.t, l.r)),
        MCrdt::H(h) => s.extend(h.values().map(|l| (l.t, l.r))),
        _ => {}
    }
    s
}

fn val(rng: &mut Rng) -> Vec<u8> {
    match rng.below(4) {
        0 => vec![],
        1 => vec![0, 255],
        _ => format!("v{}", rng.below(50)).into_bytes(),
    }
}

/// a dominated value as a peer could send it (register / field stamps ≤ outer stamp)
/// Lamport times at which a narrower integer type / a signed or float conversion would change
/// the clock arithmetic (`update` = max + 1 is taken just below, at and above them)
const EDGE_TIMES: [u64; 8] = [(1 << 31) - 1, (1 << 32) - 3, (1 << 32) - 1, 1 << 32, (1 << 53) - 1, 1 << 53, (1 << 63) - 2, 1 << 63];

fn peer_value(rng: &mut Rng, tmax: u64) -> MRv {
    let t = if rng.chance(1, 14) {
        out_of_band_count();
        *rng.pick(&EDGE_TIMES)
    } else if tmax > 64 && rng.chance(2, 3) {
        // once the clock is large, stay around it (just below / at / above the local clock)
        tmax - rng.below(9)
    } else {
        rng.below(tmax + 1)
    };
    let r = rng.range(2, 3);
    if rng.chance(1, 2) {
        let tomb = rng.chance(1, 4);
        MRv {
            crdt: MCrdt::Lww(MLww { v: if tomb { None } else { Some(val(rng)) }, t, r, tomb }),
            vc: None,
            exp: if rng.chance(1, 4) { Some(rng.range(1, 9) * 1000) } else { None },
            t,
            r,
            rf: None,
        }
    } else {
        let mut h = BTreeMap::new();
        for _ in 0..rng.range(1, 3) {
            let tomb = rng.chance(1, 4);
            h.insert(
                rng.pick(&FIELDS).to_string(),
                MLww { v: if tomb { None } else { Some(val(rng)) }, t: rng.below(t + 1), r, tomb },
            );
        }
        MRv { crdt: MCrdt::H(h), vc: None, exp: None, t, r, rf: None }
    }
}

static EDGE_DRAWN: std::sync::atomic::AtomicU64 = std::sync::atomic::AtomicU64::new(0);
fn out_of_band_count() {
    EDGE_DRAWN.fetch_add(1, std::sync::atomic::Ordering::Relaxed);
}

struct Node {
    h: ReplicatedShardHandle,
}

fn snap_sorted(m: &HashMap<String, ReplicatedValue>) -> Vec<(String, MRv)> {
    let mut v: Vec<(String, MRv)> = m.iter().map(|(k, v)| (k.clone(), MRv::from_real(v))).collect();
    v.sort_by(|a, b| key_cmp(&a.0, &b.0));
    v
}


/// every place of the anchored files that CREATES or ADVANCES a stamp, counted in the source the
/// binary was built against and compared with the op table of the model (`Model/Replica.lean`):
/// a new `tick()` / `update()` / clock construction / direct assignment to `.time` that no model
/// op accounts for changes a count and fails the check
fn stamp_sites(out: &mut Out) {
    use crate::c06msg::{non_test, read_src, repo_dir};
    // (file, pattern, expected count, model op(s) that transcribe these sites)
    let table: [(&str, &str, usize, &str); 12] = [
        ("src/replication/lattice.rs", ".tick()", 2, "LwwRegister::set / delete tick the clock they are handed → Lww.set / Lww.delete with `clock.tick` in recordWrite, recordDelete, hashSetStep, hashDelStep"),
        ("src/replication/lattice.rs", ".time += ", 1, "LamportClock::tick → Stamp.tick"),
        ("src/replication/lattice.rs", ".time = ", 1, "LamportClock::update → Stamp.update"),
        ("src/replication/lattice.rs", "LamportClock::new(", 1, "LwwRegister::new → Lww.new (time 0)"),
        ("src/replication/state/replicated_value.rs", ".tick()", 1, "ReplicatedValue::delete, hash arm: one fresh stamp for every field → recordDelete (.hash)"),
        ("src/replication/state/replicated_value.rs", "LamportClock::new(", 2, "ReplicatedValue::new / with_crdt → RV.new (stamp (0, rid))"),
        ("src/replication/state/replicated_value.rs", ".time = ", 0, "no direct assignment to a clock time (self.timestamp = *clock copies a ticked clock)"),
        ("src/replication/state/shard_state.rs", ".update(", 1, "apply_remote_delta → Shard.applyRemote (clock := update clock delta.ts)"),
        ("src/replication/state/shard_state.rs", "LamportClock::new(", 1, "ShardReplicaState::new → Shard.init (clock (0, rid))"),
        ("src/replication/state/shard_state.rs", ".tick()", 0, "the shard never ticks directly: through ReplicatedValue / LwwRegister"),
        ("src/production/replicated_shard_actor.rs", "lamport_clock.update(", 1, "ApplyRecoveredState → Shard.applyRecovered (clock := update clock value.ts)"),
        ("src/production/replicated_shard_actor.rs", ".tick()", 0, "the actor never ticks a Lamport clock itself"),
    ];
    let mut rows = Vec::new();
    for (file, pat, want, op) in table {
        let Some(src) = read_src(file) else {
            out.violation("C08:coverage:source-scan-failed", "an anchored source file could not be read from the tree the harness was built against", json!({"file": file, "tree": repo_dir()}));
            continue;
        };
        let lib = non_test(&src);
        let lib = match lib.find("#[cfg(kani)]") { Some(i) => &lib[..i], None => lib };
        // code only: whole-line and trailing `//` comments do not count (a comment that mentions
        // `clock.tick()` is not a stamp site)
        let got = lib.lines().map(|l| l.split("//").next().unwrap_or("")).map(|l| l.matches(pat).count()).sum::<usize>();
        rows.push(json!({"file": file, "pattern": pat, "sites": got, "model": op}));
        if got < want {
            // FEWER textual sites than the table: call sites were folded into a helper (or a site was
            // removed — then the stamps themselves differ and the correspondence says so); nothing
            // new can reach the property undriven
            out.count(&format!("stamp-sites:fewer-than-table:{}:{}", file.rsplit('/').next().unwrap_or(file), pat.trim()));
        }
        if got > want {
            out.violation(
                &format!("C08:coverage:stamp-site-not-modelled:{}:{}", file.rsplit('/').next().unwrap_or(file), pat.trim()),
                "the number of places that create / advance a Lamport stamp differs from the op table of the model: a new site must get a model op (or the table must say why not)",
                json!({"file": file, "pattern": pat, "expected": want, "found": got, "model_op": op}),
            );
        }
    }
    out.extra.insert("stamp_sites(from the source)".into(), json!(rows));
}

/// the Lamport time at the u64 boundary on a real `ShardReplicaState`: a peer's delta stamped
/// MAX-2 / MAX-1 / MAX, then local writes.  Which arithmetic the build uses (checked: panic,
/// wrapping: release) is observed, told to the model (`KU`), and the property is evaluated:
/// a write acknowledged after the node stored a value must be stamped above it.
fn clock_boundary(out: &mut Out) {
    use std::panic::{catch_unwind, AssertUnwindSafe};
    let prev = std::panic::take_hook();
    std::panic::set_hook(Box::new(|_| {}));
    // which profile was the dependency built with?
    let checked = catch_unwind(|| {
        let mut c = redis_sim::replication::lattice::LamportClock { time: std::hint::black_box(u64::MAX), replica_id: ReplicaId::new(1) };
        c.tick().time
    })
    .is_err();
    let mut rows = Vec::new();
    for back in [3u64, 2, 1, 0] {
        let t = u64::MAX - back;
        let mut st = ShardReplicaState::new(ReplicaId::new(1), ConsistencyLevel::Eventual);
        let v = MRv { crdt: MCrdt::Lww(MLww { v: Some(b"peer".to_vec()), t, r: 2, tomb: false }), vc: None, exp: None, t, r: 2, rf: None };
        let mut ops: Vec<String> = vec![format!("U {}", t)];
        let mut outcome: Vec<String> = Vec::new();
        let r = catch_unwind(AssertUnwindSafe(|| st.apply_remote_delta(ReplicationDelta::new("k".into(), v.to_real(), ReplicaId::new(2)))));
        let mut dead = r.is_err();
        outcome.push(if dead { "overflow".into() } else { st.lamport_clock.time.to_string() });
        out.op(format!("KU {} 0 1 {}", checked as u8, ops.join(" ")), outcome.last().unwrap().clone());
        let mut stale: Option<(u64, u64)> = None;
        for w in 0..2 {
            if dead {
                break;
            }
            ops.push("T".into());
            let r = catch_unwind(AssertUnwindSafe(|| st.record_write("k".into(), SDS::from_str("mine"), None)));
            match r {
                Ok(d) => {
                    let ts = d.value.timestamp.time;
                    outcome.push(ts.to_string());
                    if ts <= t {
                        stale = Some((ts, t));
                    }
                }
                Err(_) => {
                    dead = true;
                    outcome.push("overflow".into());
                }
            }
            out.op(format!("KU {} 0 {} {}", checked as u8, ops.len(), ops.join(" ")), outcome.last().unwrap().clone());
            let _ = w;
        }
        out.count("clock-boundary");
        rows.push(json!({"peer_stamp": format!("u64::MAX-{}", back), "outcomes(update, write, write)": outcome.clone()}));
        if dead || stale.is_some() {
            out.violation(
                "C08:clock:u64-overflow",
                "after a peer's delta stamped at the top of the u64 range the node cannot stamp its next write above what it stored: the checked build panics in LamportClock::update / tick (the shard actor dies), the release build wraps the clock to 0 (the write is stamped below the stored value and loses everywhere)",
                json!({"peer_delta_time": format!("u64::MAX-{}", back), "arithmetic": if checked { "checked (overflow-checks = true, the harness profile)" } else { "wrapping (release)" }, "outcomes": outcome, "stale": stale.map(|(a, b)| vec![a, b])}),
            );
        }
    }
    std::panic::set_hook(prev);
    out.extra.insert("clock_u64_boundary".into(), json!({"arithmetic_of_this_build": if checked { "checked" } else { "wrapping" }, "cases": rows}));
    out.case("clock-boundary", true);
}

/// every mailbox message of the replicated shard actor and every `pub fn` of the replicated front
/// end, from the source the binary was built against: driven (with the counter that proves it ran
/// in THIS run) or explained
fn mailbox_coverage(out: &mut Out) {
    use crate::c06msg::{non_test, read_src, repo_dir, scan_enum, scan_pub_fns};
    let mut table: BTreeMap<String, String> = BTreeMap::new();
    let (Some(actor), Some(state)) = (read_src("src/production/replicated_shard_actor.rs"), read_src("src/production/replicated_state.rs")) else {
        out.violation("C08:coverage:source-scan-failed", "an anchored source file could not be read from the tree the harness was built against", json!({"tree": repo_dir()}));
        return;
    };
    // name → (counter that must be > 0 in this run, or "" when explained), text
    let how = |n: &str| -> Option<(&'static str, &'static str)> {
        Some(match n {
            "ReplicatedShardMessage::Execute" => ("effective-local-write", "every local command of every history"),
            "ReplicatedShardMessage::ExecuteReadonly" => ("msg:ExecuteReadonly", "single-actor histories; must not touch the replication state"),
            "ReplicatedShardMessage::ApplyRemoteDelta" => ("op:remote", "remote deltas / recovered deltas"),
            "ReplicatedShardMessage::DrainPendingDeltas" => ("msg:DrainPendingDeltas", "single-actor histories; C06 message level (collect_pending_deltas)"),
            "ReplicatedShardMessage::EvictExpired" => ("msg:EvictExpired", "moves the executor's clock only; the replication state and the Lamport clock must not change"),
            "ReplicatedShardMessage::GetSnapshot" => ("op:snap", "every observation"),
            "ReplicatedShardMessage::ApplyRecoveredState" => ("recover:checkpoint", "restarts that recover checkpoint values"),
            "ReplicatedShardMessage::Shutdown" => ("op:restart", "every restart"),
            "ReplicatedShardedState::new" | "ReplicatedShardedState::with_time_source" => ("sys:restart", "every system-level state (new delegates to with_time_source)"),
            "ReplicatedShardedState::with_gossip_actor" | "ReplicatedShardedState::with_gossip_actor_and_time" => ("", "C06 message level (sharded_state with the actor backend)"),
            "ReplicatedShardedState::set_delta_sink" => ("sys:restart", "how the system histories capture the shipped deltas"),
            "ReplicatedShardedState::clear_delta_sink" | "ReplicatedShardedState::has_streaming_persistence" | "ReplicatedShardedState::set_wal_handle" | "ReplicatedShardedState::clear_wal_handle" => ("", "persistence wiring: C09 / C11 / C12"),
            "ReplicatedShardedState::execute" => ("sys:restart", "every system-level command; the multi-key front end is C06's scenario (known finding C06:front-end:multi-key-routed-by-first-key)"),
            "ReplicatedShardedState::apply_remote_deltas" => ("sys:op:remote", "gossip from a peer in the system histories; second half of apply_recovered_state"),
            "ReplicatedShardedState::apply_recovered_state" => ("sys:restart", "every split of every system history"),
            "ReplicatedShardedState::collect_pending_deltas" => ("", "C06 message level (incl. a burst over MAX_PENDING_DELTAS on one shard)"),
            "ReplicatedShardedState::evict_expired_all_shards" => ("sys:evict", "system sweep: must leave every shard's replication state and clock alone; NO caller in the binaries (the TTL manager serves ShardedActorState only): on a replicated node the executor's clock never moves, a TTL never fires"),
            "ReplicatedShardedState::snapshot_state" => ("sys:restart", "every observation of the system histories"),
            "ReplicatedShardedState::key_count" => ("sys:evict", "system sweep (= number of keys of snapshot_state)"),
            "ReplicatedShardedState::time_source" | "ReplicatedShardedState::gossip_backend" | "ReplicatedShardedState::get_gossip_state" | "ReplicatedShardedState::gossip_actor_handle" | "ReplicatedShardedState::is_actor_based" | "ReplicatedShardedState::config" | "ReplicatedShardedState::num_shards" => ("", "accessors (the gossip ones are used by C06's message level)"),
            _ => return None,
        })
    };
    let mut names: Vec<String> = scan_enum(non_test(&actor), "ReplicatedShardMessage").into_iter().map(|v| format!("ReplicatedShardMessage::{}", v)).collect();
    names.extend(scan_pub_fns(&state, "ReplicatedShardedState").into_iter().map(|f| format!("ReplicatedShardedState::{}", f)));
    if names.iter().filter(|n| n.starts_with("ReplicatedShardMessage::")).count() < 8 || names.len() < 20 {
        out.violation("C08:coverage:source-scan-failed", "the source scan found fewer mailbox messages / front-end functions than the files are known to hold", json!({"found": names}));
    }
    for n in names {
        match how(&n) {
            Some((counter, text)) => {
                let ran = counter.is_empty() || out.dist.get(counter).copied().unwrap_or(0) > 0;
                table.insert(n.clone(), format!("{}{}", text, if counter.is_empty() { String::new() } else { format!(" [{} = {}]", counter, out.dist.get(counter).copied().unwrap_or(0)) }));
                if !ran {
                    out.violation(&format!("C08:coverage:not-driven-in-this-run:{}", n), "a mailbox message / front-end function that the harness claims to drive did not run in this run (silently skipped)", json!({"name": n, "counter": counter}));
                }
            }
            None => {
                table.insert(n.clone(), "UNACCOUNTED".into());
                out.violation(&format!("C08:coverage:mailbox-message-not-driven:{}", n), "a mailbox message of the replicated shard actor / a public function of the replicated front end exists in the source the harness was built against, but the harness neither drives it nor says why not", json!({"name": n}));
            }
        }
    }
    out.extra.insert("replicated_actor_and_front_end_coverage(derived from the source)".into(), json!(table));
}

/// the coverage self-audit of C08 against the eleven classes (DESIGN.md §4 C08)
fn audit() -> serde_json::Value {
    json!([
      {"class": 1, "topic": "entry path / variant never driven",
       "covered": "every place of the anchored files that creates or advances a stamp is counted in the source and matched with the model's op table (C08:coverage:stamp-site-not-modelled:*); every mailbox message of the replicated shard actor and every pub fn of ReplicatedShardedState is enumerated from the source, driven or explained, and the driven ones must have run in THIS run (C08:coverage:not-driven-in-this-run:*) — new: ExecuteReadonly, EvictExpired, DrainPendingDeltas, evict_expired_all_shards, key_count; every Command variant through the actor and through the state (as before)",
       "open": "evict_expired_all_shards has no caller in the binaries: on a replicated node the executor's clock never moves (a TTL never fires) — recorded as an observation, time-dependent reads are outside C08"},
      {"class": 2, "topic": "input alphabet", "covered": "values empty / binary; keys incl. non-ASCII; SET with and without EX; hashes with 1..2 fields; remote values of both kinds incl. tombstones", "open": ""},
      {"class": 3, "topic": "comparison at equality",
       "covered": "remote stamps below / at / above the local clock (times drawn around it), equal times from other replicas, the Lamport time at the top of the u64 range (MAX-3 … MAX: update and tick overflow — known finding C08:clock:u64-overflow; below the bound clock_u64_exact)",
       "open": ""},
      {"class": 4, "topic": "configuration", "covered": "consistency level Eventual / Causal (vector clock on / off); checkpoint through the real CheckpointWriter / Reader or handed over directly", "open": ""},
      {"class": 5, "topic": "capacity thresholds", "covered": "the outbox capacity is C06's message level; 16 shards with separate clocks (keys on one shard / on several)", "open": ""},
      {"class": 6, "topic": "fault kinds", "covered": "a panic inside the clock arithmetic is caught and is the finding; recovery that hands back only part of the state (own maximum legitimately gone); a command rejected by the executor", "open": ""},
      {"class": 7, "topic": "history shapes",
       "covered": "restart over every split of the history into checkpoint + deltas, checkpoint only, deltas only, deltas OVERLAPPING the checkpoint (a WAL that was not truncated), deltas in another order than issued, own deltas replayed through apply_remote_delta, FLUSHALL in the middle, second restart, writes after every recovery",
       "open": ""},
      {"class": 8, "topic": "node-global state", "covered": "the shard's Lamport clock is shared by all its keys: keys of one shard and of different shards; the vector clock in causal mode", "open": ""},
      {"class": 9, "topic": "observations", "covered": "the stamp of every delta handed back, full snapshots, what a peer holding everything serves after merging the post-restart write, that non-writing mailbox messages leave the replication state alone", "open": ""},
      {"class": 10, "topic": "finding signatures", "covered": "stale stamps are signed by the provenance of the stamp that was not exceeded (local / remote / recovered-checkpoint / recovered-delta); the overflow finding fires only in the boundary case", "open": ""},
      {"class": 11, "topic": "harness fragility", "covered": "coverage counters must be positive in the run that claims them; source scans that fail or come out short are violations; the arithmetic of the build (checked / wrapping) is observed, not assumed; session 4: the stamp-site scan counts code only (comments stripped) and fails only for MORE sites than the model's table (fewer = call sites folded into a private helper); a persistent server that does not start, does not answer, or whose persisted state cannot be read back is a violation of its own", "open": ""},
      {"class": "session-4", "topic": "what session 4 added",
       "covered": "entry path: main() of bin/server_persistent.rs — compiled from its source text as the harness binary rvpersist and run as a child process: three incarnations over the same data / WAL directories (SIGKILL, SIGINT, SIGKILL), RESP writes with unique payloads, stamps read back from the WAL (WalRotator::recover_all_entries → to_delta) and the object store (RecoveryManager::recover), per-shard monotonicity across both restarts; history shapes: segment flushed / not flushed before the crash, a 300-write run, the object store lost after the first incarnation (recovery from the WAL alone: every entry replayed once, no +1-per-replay slack), recovery in TWO apply_recovered_state calls with an overlapping WAL part in the system histories; comparisons: remote stamps at 2^31, 2^32±1, 2^53, 2^63 and around a large clock",
       "open": "the gossip listener / gossip loop of the binary (replication is off in the boot histories); S3 store"},
      {"class": "session-4-selftest", "topic": "mutations / harmless rewrites tried on a private clone",
       "covered": "MISSED BEFORE, caught now: server_persistent skips the WAL replay when segments were loaded (C08:boot:stamp-not-increasing:across-restart); WAL replay capped at the first 256 entries (same signature, needs the 300-write run + WAL-only recovery: with the object store present the +1-per-replayed-entry inflation of `update` masks a lost tail); LamportClock::update truncating to 32 bits (C08:stale-stamp:after-remote / after-recovered-delta at 2^32). Caught before and now: SET in causal mode does not tick (C08:issued-not-increasing; also C07:reach:tie-inconsistent), SET of the stored value issues no stamp (C08:stale-stamp:*), saturating tick (stamp-site scan + KU disagreement). Harmless rewrites (must stay quiet): tick folded into a private helper, comments mentioning clock.tick() / `.time =`, match arms of try_merge reordered, log lines, a private fn renamed, a new pub fn on ShardReplicaState, locals renamed in apply_recovered_state and in main — BEFORE: 3 false alarms of the stamp-site scan; AFTER: exit 0",
       "open": ""}
    ])
}

pub fn run(a: &Args) {
    let mut out = Out::new(&a.out);
    let mut rng = Rng::new(a.seed);
    stamp_sites(&mut out);
    clock_boundary(&mut out);
    let rt = tokio::runtime::Builder::new_current_thread().enable_all().build().unwrap();
    rt.block_on(async {
        // corpus first: the DESIGN.md §6.1 history (checkpoint-only recovery, then a write)
        let pool = variant_pool(&mut Rng::new(0xC08));
        history(&mut out, &mut Rng::new(0xC08), Mode::Corpus(0), &pool).await;
        // seeded/C08-flush-resets-lamport-clock: SET k ×3; FLUSHALL; SET k
        history(&mut out, &mut Rng::new(0xC08), Mode::Corpus(1), &pool).await;
        for c in 0..4 {
            system_history(&mut out, &mut Rng::new(0xC08), Some(c)).await;
        }
        // every Command variant goes through the real replicated actor at least once per run
        let mut sweep: Vec<Command> = Vec::new();
        {
            let mut seen: std::collections::BTreeSet<&'static str> = std::collections::BTreeSet::new();
            let mut r = rng.fork();
            let mut idx: Vec<usize> = (0..pool.len()).collect();
            r.shuffle(&mut idx);
            for i in idx {
                if seen.insert(variant_info(&pool[i]).0) {
                    sweep.push(pool[i].clone());
                }
            }
        }
        {
            let mut r = rng.fork();
            system_sweep(&mut out, &mut r).await;
        }
        for chunk in sweep.chunks(16) {
            let mut r = rng.fork();
            history(&mut out, &mut r, Mode::Sweep(chunk.to_vec()), &pool).await;
        }
        for _ in 0..a.n {
            let mut r = rng.fork();
            history(&mut out, &mut r, Mode::Random, &pool).await;
        }
        for _ in 0..(a.n / 4).max(10) {
            let mut r = rng.fork();
            system_history(&mut out, &mut r, None).await;
        }
        // the production start-up sequence end to end: the binary's own `main`, as a child process
        // (two restarts per history; quick: one history ending its 2nd incarnation gracefully, one by
        // SIGKILL; thorough: more)
        // quick: (graceful 2nd shutdown, object store + WAL), (SIGKILL + 300-write run, object store + WAL),
        // (SIGKILL + 300-write run, then the object store is lost: recovery from the WAL alone, every entry replayed exactly once)
        let boots = if a.tier == "thorough" { 9 } else { 3 };
        for b in 0..boots {
            let mut r = rng.fork();
            crate::c08boot::boot_history(&mut out, &mut r, b % 3 == 0, b % 3 == 2).await;
        }
    });
    out.count_n("remote:stamp-at-integer-width-boundary(2^31,2^32,2^53,2^63)", EDGE_DRAWN.load(std::sync::atomic::Ordering::Relaxed));
    mailbox_coverage(&mut out);
    // coverage of the Command enum through the replicated actor / state
    {
        let mut rows: BTreeMap<String, serde_json::Value> = BTreeMap::new();
        let mut samples = crate::c17::all_variants(&mut Rng::new(1), "k", "h", true);
        samples.extend(crate::c17::not_executed_samples());
        for c in &samples {
            let (name, cover) = variant_info(c);
            let n = out.dist.get(&format!("variant:{}", name)).copied().unwrap_or(0);
            let ns = out.dist.get(&format!("sys:variant:{}", name)).copied().unwrap_or(0);
            if !matches!(cover, Cover::NotExecuted(_)) && ((reachable_at_shard(c) && n == 0) || ns == 0) {
                eprintln!("C08 coverage: variant {} did not go through the replicated actor / state (actor {}, state {})", name, n, ns);
                std::process::exit(3);
            }
            rows.insert(name.to_string(), json!({"through_replicated_shard_actor": n, "through_replicated_sharded_state": ns}));
        }
        out.extra.insert("command_variants_through_replicated_actor".into(), json!(rows));
        out.extra.insert("command_variants_total".into(), json!(rows.len()));
    }
    out.extra.insert("audit".into(), audit());
    out.finish("case = one node history of 5..40 ops on a real ReplicatedShardActor: local SET[EX]/DEL/HSET/HDEL on 3 colliding keys, any other Command variant (every variant of the enum goes through the actor at least once per run: replicated writers, non-replicated writers, FLUSHDB/FLUSHALL and other key-less commands, reads — coverage table in the evidence), remote deltas (dominated values from peers 2,3 with times around the local clock), snapshots, restarts that recover the snapshot as checkpoint values (ApplyRecoveredState) or as deltas or a subset; distinct by the op text of the history; non-trivial iff it contains an effective local write issued after a remote/recovered value of the same key. System-level case = one history of 3..12 ops (SET[EX]/DEL/HSET/HDEL/INCR on 6 keys over 4 of the 16 shards, gossip from a peer) on a real ReplicatedShardedState, then for every split point: fresh state, apply_recovered_state(checkpoint at the split [half of them through the real CheckpointWriter/Reader], own deltas after it), 3..5 writes, full snapshot; non-trivial iff some post-restart write lands on a shard that recovered something");
}

#[derive(Clone)]
enum Mode {
    Corpus(u8),
    Random,
    /// these commands, in order, interleaved with the ordinary ops
    Sweep(Vec<Command>),
}

/// one instance pool of every executable `Command` variant (C17's `all_variants`) on the keys of
/// this harness; a multi-key DEL becomes single-key (the shard actor hands back one delta per
/// command; `ReplicatedShardedState::execute` splits it anyway)
fn variant_pool(rng: &mut Rng) -> Vec<Command> {
    crate::c17::all_variants(rng, KEYS[0], KEYS[1], true)
        .into_iter()
        .filter(reachable_at_shard)
        .map(|c| match c {
            Command::Del(ks) if ks.len() > 1 => Command::Del(vec![ks[0].clone()]),
            c => c,
        })
        .collect()
}

/// what `ReplicatedShardedState::execute` hands to a shard actor: commands with a primary key and
/// the fan-outs of `execute_global` (FLUSHDB / FLUSHALL / DBSIZE); every other key-less command
/// (MULTI, EXEC, SELECT, CONFIG SET, SCRIPT FLUSH, …) is answered "ERR unknown command" by the
/// state and never reaches an actor — those go through the state only (`system_sweep`)
fn reachable_at_shard(c: &Command) -> bool {
    c.get_primary_key().is_some() || matches!(c, Command::FlushDb | Command::FlushAll | Command::DbSize)
}

/// every executable variant once through a real `ReplicatedShardedState` (oracle only): commands
/// the recorder does not know must ship nothing, and the stamps of the SETs in between keep growing
async fn system_sweep(out: &mut Out, rng: &mut Rng) {
    let (a, arx) = new_state(1, ConsistencyLevel::Eventual);
    let keys = key_pool();
    let all = crate::c17::all_variants(rng, &keys[0], &keys[1], true);
    let mut seen: std::collections::BTreeSet<&'static str> = std::collections::BTreeSet::new();
    let mut last: BTreeMap<usize, St> = BTreeMap::new();
    let mut hist: Vec<String> = Vec::new();
    let mut idx: Vec<usize> = (0..all.len()).collect();
    rng.shuffle(&mut idx);
    let mut n = 0;
    for i in idx {
        let c = &all[i];
        let (name, _) = variant_info(c);
        if !seen.insert(name) {
            continue;
        }
        out.count(&format!("sys:variant:{}", name));
        let _ = a.execute(c.clone()).await;
        hist.push(name.to_string());
        let known = matches!(c, Command::MSet(_) | Command::Set { .. } | Command::Del(_) | Command::Incr(_) | Command::Decr(_) | Command::IncrBy(..) | Command::DecrBy(..) | Command::Append(..) | Command::GetSet(..) | Command::HSet(..) | Command::HDel(..) | Command::HIncrBy(..));
        for d in arx.drain() {
            if !known {
                out.violation(&format!("C08:unexpected-delta:{}", name), "a command the recorder is not known to replicate shipped a delta", json!({"history": hist.clone(), "key": d.key}));
            }
            let m = MRv::from_real(&d.value);
            let e = last.entry(shard_of(&d.key)).or_insert((0, 0));
            *e = (*e).max((m.t, m.r));
        }
        n += 1;
        if n % 4 == 0 {
            // a write in between: its stamp must exceed everything the shard issued so far
            let k = rng.pick(&keys).clone();
            let _ = a.execute(Command::set(k.clone(), SDS::new(b"x".to_vec()))).await;
            hist.push(format!("SET {}", k));
            for d in arx.drain() {
                let m = MRv::from_real(&d.value);
                let st = (m.t, m.r);
                let sh = shard_of(&d.key);
                if let Some(o) = last.get(&sh) {
                    if !(*o < st) {
                        out.violation("C08:issued-not-increasing", &format!("shard {}: SET acknowledged with stamp {:?} after {:?} (system sweep over every command variant)", sh, st, o), json!({"history": hist.clone()}));
                    }
                }
                last.insert(sh, st);
            }
        }
    }
    // evict_expired_all_shards / key_count: the eviction moves the executors' clocks only — the
    // replication state of every shard (what is gossiped, checkpointed, recovered) and the stamps of
    // the next writes must be as if it had not happened
    let before = a.snapshot_state().await;
    let kc = a.key_count().await;
    let evicted = a.evict_expired_all_shards().await;
    let after = a.snapshot_state().await;
    out.count("sys:evict");
    out.count_n("sys:evict:evicted", evicted as u64);
    let canon = |m: &HashMap<String, ReplicatedValue>| snap_sorted(m).iter().map(|(k, v)| format!("{} {}", k, v.show())).collect::<Vec<_>>();
    if canon(&before) != canon(&after) || kc != before.len() {
        out.violation("C08:node:evict-changed-replication-state", "evict_expired_all_shards changed the replication state (or key_count disagrees with snapshot_state)", json!({"history": hist.clone(), "key_count": kc, "snapshot_keys": before.len()}));
    }
    let k = rng.pick(&keys).clone();
    let _ = a.execute(Command::set(k.clone(), SDS::new(b"after-evict".to_vec()))).await;
    for d in arx.drain() {
        let m = MRv::from_real(&d.value);
        if let Some(o) = last.get(&shard_of(&d.key)) {
            if !(*o < (m.t, m.r)) {
                out.violation("C08:issued-not-increasing", &format!("SET after evict_expired_all_shards acknowledged with stamp {:?} after {:?}", (m.t, m.r), o), json!({"history": hist.clone()}));
            }
        }
    }
    out.case(&format!("SYS-SWEEP:{}", hist.join(",")), true);
}

/// the model op line of a command the recorder turned into a delta
fn line_of(c: &Command, d: &ReplicationDelta, prev: Option<&MRv>) -> Option<(String, bool, &'static str)> {
    let m = MRv::from_real(&d.value);
    let hk = hex(d.key.as_bytes());
    match c {
        Command::Set { .. } | Command::Incr(_) | Command::Decr(_) | Command::IncrBy(..) | Command::DecrBy(..) | Command::Append(..) | Command::GetSet(..) => match &m.crdt {
            MCrdt::Lww(l) => Some((format!("W {} {} {}", hk, hex(l.v.as_deref().unwrap_or(&[])), m.exp.map(|e| e.to_string()).unwrap_or("-".into())), true, "string-write")),
            _ => None,
        },
        Command::HIncrBy(_, f, _) => match &m.crdt {
            MCrdt::H(h) => {
                let fname = String::from_utf8_lossy(f.as_bytes()).to_string();
                h.get(&fname).map(|l| (format!("HW {} 1 {} {}", hk, hex(fname.as_bytes()), hex(l.v.as_deref().unwrap_or(&[]))), true, "hincrby"))
            }
            _ => None,
        },
        Command::HSet(_, fs) => {
            let mut l = format!("HW {} {}", hk, fs.len());
            for (f, v) in fs {
                l.push_str(&format!(" {} {}", hex(String::from_utf8_lossy(f.as_bytes()).as_bytes()), hex(v.as_bytes())));
            }
            Some((l, !fs.is_empty(), "hset"))
        }
        Command::HDel(_, fs) => {
            let names: Vec<String> = fs.iter().map(|f| String::from_utf8_lossy(f.as_bytes()).to_string()).collect();
            let eff = match prev.map(|p| &p.crdt) {
                Some(MCrdt::H(h)) => names.iter().any(|f| h.contains_key(f)),
                _ => false,
            };
            let mut l = format!("HD {} {}", hk, names.len());
            for f in &names {
                l.push_str(&format!(" {}", hex(f.as_bytes())));
            }
            Some((l, eff, "hdel"))
        }
        Command::Del(_) => Some((format!("D {}", hk), matches!(prev.map(|p| &p.crdt), Some(MCrdt::Lww(_)) | Some(MCrdt::H(_))), "del")),
        _ => None,
    }
}

async fn history(out: &mut Out, rng: &mut Rng, mode: Mode, pool: &[Command]) {
    let corpus = matches!(mode, Mode::Corpus(_));
    let mut forced: std::collections::VecDeque<Command> = match &mode {
        Mode::Sweep(v) => v.iter().cloned().collect(),
        _ => Default::default(),
    };
    let rid = 1u64;
    let causal = !corpus && rng.chance(1, 4);
    let level = if causal { ConsistencyLevel::Causal } else { ConsistencyLevel::Eventual };
    let mut node = Node { h: ReplicatedShardActor::spawn(ReplicaId::new(rid), level, 0) };
    out.op(format!("NEW {} {}", rid, causal as u8), "ok".into());
    let mut text = String::new();
    // stamps the current incarnation has observed, per key, with provenance
    let mut observed: HashMap<String, Vec<(St, &'static str)>> = HashMap::new();
    let mut last_issued: Option<St> = None;
    let mut nontrivial = false;
    let mut clock_guess = 0u64;
    let steps = if corpus { 0 } else if forced.is_empty() { rng.range(5, 40) } else { 3 * forced.len() as u64 + 4 };
    let mut script: Vec<u8> = Vec::new();
    match mode {
        // 3 writes, restart from checkpoint only, write again
        Mode::Corpus(0) => script = vec![0, 0, 0, 9, 0],
        // 3 writes, FLUSHALL, write again
        Mode::Corpus(_) => {
            script = vec![0, 0, 0, 20, 0];
            forced.push_back(Command::FlushAll);
        }
        _ => {}
    }
    let mut i = 0;
    loop {
        let choice = if corpus {
            if i >= script.len() { break; }
            script[i]
        } else {
            if i as u64 >= steps && forced.is_empty() { break; }
            if !forced.is_empty() && (i % 3 == 2 || i as u64 >= steps) { 20 } else { rng.below(14) as u8 }
        };
        i += 1;
        let key = if corpus { "k".to_string() } else { rng.pick(&KEYS).to_string() };
        let before = node.h.get_snapshot().await;
        let prev = before.get(&key).map(MRv::from_real);
        match choice {
            0..=5 => {
                // local op
                let (cmd, opline, eff, kind): (Command, String, bool, &str) = match choice {
                    0 | 1 => {
                        let v = val(rng);
                        let ex = if rng.chance(1, 4) { Some(rng.range(1, 50) as i64) } else { None };
                        let mut c = Command::set(key.clone(), SDS::new(v.clone()));
                        if let Command::Set { ex: ref mut e, .. } = c {
                            *e = ex;
                        }
                        (c, format!("W {} {} {}", hex(key.as_bytes()), hex(&v), ex.map(|s| (s as u64 * 1000).to_string()).unwrap_or("-".into())), true, "set")
                    }
                    2 => {
                        let eff = matches!(prev.as_ref().map(|p| &p.crdt), Some(MCrdt::Lww(_)) | Some(MCrdt::H(_)));
                        (Command::del(key.clone()), format!("D {}", hex(key.as_bytes())), eff, "del")
                    }
                    3 | 4 => {
                        let n = rng.range(1, 2);
                        let fs: Vec<(String, Vec<u8>)> = (0..n).map(|_| (rng.pick(&FIELDS).to_string(), val(rng))).collect();
                        let mut l = format!("HW {} {}", hex(key.as_bytes()), fs.len());
                        for (f, v) in &fs {
                            l.push_str(&format!(" {} {}", hex(f.as_bytes()), hex(v)));
                        }
                        (Command::HSet(key.clone(), fs.iter().map(|(f, v)| (SDS::from_str(f), SDS::new(v.clone()))).collect()), l, true, "hset")
                    }
                    _ => {
                        let n = rng.range(1, 2);
                        let fs: Vec<String> = (0..n).map(|_| rng.pick(&FIELDS).to_string()).collect();
                        let eff = match prev.as_ref().map(|p| &p.crdt) {
                            Some(MCrdt::H(h)) => fs.iter().any(|f| h.contains_key(f)),
                            _ => false,
                        };
                        let mut l = format!("HD {} {}", hex(key.as_bytes()), fs.len());
                        for f in &fs {
                            l.push_str(&format!(" {}", hex(f.as_bytes())));
                        }
                        (Command::HDel(key.clone(), fs.iter().map(|f| SDS::from_str(f)).collect()), l, eff, "hdel")
                    }
                };
                out.count(&format!("op:{}", kind));
                let (reply, delta) = node.h.execute(cmd).await;
                if matches!(reply, redis_sim::redis::RespValue::Error(_)) && delta.is_none() {
                    // the executor rejected the command (e.g. HSET on a string key): the glue does
                    // not touch the replication state, so there is no model op for it
                    out.count("local-command-rejected-by-executor");
                    continue;
                }
                let ans = match &delta {
                    Some(d) => format!("eff={} delta {}", eff as u8, MRv::from_real(&d.value).show()),
                    None => format!("eff={} none", eff as u8),
                };
                text.push_str(&opline);
                text.push(';');
                out.op(opline.clone(), ans);
                if eff {
                    out.count("effective-local-write");
                    match &delta {
                        None => out.violation("C08:effective-write-without-delta", "an effective local write produced no delta", json!({"history": text})),
                        Some(d) => {
                            let m = MRv::from_real(&d.value);
                            let st = (m.t, m.r);
                            clock_guess = clock_guess.max(st.0);
                            for (o, prov) in observed.get(&key).cloned().unwrap_or_default() {
                                if *prov != *"local" {
                                    nontrivial = true;
                                }
                                if !(o < st) {
                                    out.violation(
                                        &format!("C08:stale-stamp:after-{}", prov),
                                        &format!("local {} on key acknowledged with stamp {:?} although the node had observed stamp {:?} ({}) for that key", kind, st, o, prov),
                                        json!({"history": text, "issued": [st.0, st.1], "observed": [o.0, o.1]}),
                                    );
                                    break;
                                }
                            }
                            if let Some(li) = last_issued {
                                if !(li < st) {
                                    out.violation("C08:issued-not-increasing", &format!("issued stamp {:?} after {:?}", st, li), json!({"history": text}));
                                }
                            }
                            last_issued = Some(st);
                        }
                    }
                }
            }
            11 | 12 | 20 => {
                // any Command variant through the real actor (choice 20: the next forced one)
                let cmd = if choice == 20 { forced.pop_front().unwrap() } else { rng.pick(pool).clone() };
                let (vname, _) = variant_info(&cmd);
                out.count(&format!("variant:{}", vname));
                let pkey = cmd.get_primary_key().map(|k| k.to_string());
                let before_k = pkey.as_ref().and_then(|k| before.get(k).map(MRv::from_real));
                let (reply, delta) = node.h.execute(cmd.clone()).await;
                if matches!(cmd, Command::FlushDb | Command::FlushAll) {
                    text.push_str("FLUSH;");
                    out.op("FLUSH".into(), "ok".into());
                }
                let Some(d) = delta else {
                    out.count(if matches!(reply, redis_sim::redis::RespValue::Error(_)) { "variant:no-delta:error" } else { "variant:no-delta" });
                    continue;
                };
                let Some((opline, eff, kind)) = line_of(&cmd, &d, before_k.as_ref()) else {
                    out.violation(&format!("C08:unexpected-delta:{}", vname), "a command the recorder is not known to replicate handed back a delta", json!({"history": text.clone(), "command": format!("{:?}", cmd)}));
                    continue;
                };
                out.count(&format!("variant-op:{}", kind));
                let key = d.key.clone();
                text.push_str(&opline);
                text.push(';');
                let m = MRv::from_real(&d.value);
                out.op(opline, format!("eff={} delta {}", eff as u8, m.show()));
                if eff {
                    out.count("effective-local-write");
                    let st = (m.t, m.r);
                    clock_guess = clock_guess.max(st.0);
                    for (o, prov) in observed.get(&key).cloned().unwrap_or_default() {
                        if *prov != *"local" {
                            nontrivial = true;
                        }
                        if !(o < st) {
                            out.violation(
                                &format!("C08:stale-stamp:after-{}", prov),
                                &format!("local {} ({}) on key acknowledged with stamp {:?} although the node had observed stamp {:?} ({}) for that key", kind, vname, st, o, prov),
                                json!({"history": text.clone(), "issued": [st.0, st.1], "observed": [o.0, o.1]}),
                            );
                            break;
                        }
                    }
                    if let Some(li) = last_issued {
                        if !(li < st) {
                            out.violation("C08:issued-not-increasing", &format!("issued stamp {:?} after {:?}", st, li), json!({"history": text.clone()}));
                        }
                    }
                    last_issued = Some(st);
                }
                let after = node.h.get_snapshot().await;
                if let Some(v) = after.get(&key) {
                    for s in stamps_of(&MRv::from_real(v)) {
                        let e = observed.entry(key.clone()).or_default();
                        if !e.iter().any(|(o, _)| *o == s) {
                            e.push((s, "local"));
                        }
                    }
                }
                continue;
            }
            13 => {
                // the other mailbox messages of the actor: none of them may touch the replication
                // state or the Lamport clock (the model has no op for them: the next stamps and the
                // final snapshot must come out as if they had not happened)
                match rng.below(3) {
                    0 => {
                        let r = node.h.execute_readonly(Command::Get(key.clone())).await;
                        let _ = r;
                        out.count("msg:ExecuteReadonly");
                        text.push_str("READONLY;");
                    }
                    1 => {
                        // EvictExpired moves the EXECUTOR's clock (keys with a TTL may vanish from what is
                        // served); the replication state keeps them — time-dependent reads are outside C08
                        let t = redis_sim::simulator::VirtualTime::from_millis(rng.below(3) * 30_000);
                        let n = node.h.evict_expired(t).await;
                        out.count("msg:EvictExpired");
                        out.count_n("msg:EvictExpired:evicted", n as u64);
                        text.push_str("EVICT;");
                    }
                    _ => {
                        let d = node.h.drain_pending_deltas().await;
                        out.count("msg:DrainPendingDeltas");
                        out.count_n("msg:DrainPendingDeltas:drained", d.len() as u64);
                        text.push_str("DRAIN;");
                    }
                }
                let after = node.h.get_snapshot().await;
                if snap_sorted(&after).iter().map(|(k, m)| format!("{} {}", k, m.show())).collect::<Vec<_>>() != snap_sorted(&before).iter().map(|(k, m)| format!("{} {}", k, m.show())).collect::<Vec<_>>() {
                    out.violation("C08:mailbox:non-writing-message-changed-replication-state", "ExecuteReadonly / EvictExpired / DrainPendingDeltas changed the replication state of the shard", json!({"history": text.clone()}));
                }
                continue;
            }
            6 | 7 => {
                // remote delta
                out.count("op:remote");
                let m = peer_value(rng, clock_guess + 6);
                let d = ReplicationDelta::new(key.clone(), m.to_real(), ReplicaId::new(m.r));
                node.h.apply_remote_delta(d);
                let l = format!("R {} {}", hex(key.as_bytes()), m.show());
                text.push_str(&l);
                text.push(';');
                out.op(l, "ok".into());
                clock_guess = clock_guess.max(m.t + 1);
                for s in stamps_of(&m) {
                    observed.entry(key.clone()).or_default().push((s, "remote"));
                }
            }
            8 => {
                out.count("op:snap");
                let s = node.h.get_snapshot().await;
                let v = snap_sorted(&s);
                let mut ans = v.len().to_string();
                for (k, m) in &v {
                    ans.push_str(&format!(" {} {} ;", hex(k.as_bytes()), m.show()));
                }
                out.op("SNAP".into(), ans);
            }
            _ => {
                // restart: crash, new actor, recover
                out.count("op:restart");
                let snap = node.h.get_snapshot().await;
                node.h.shutdown().await;
                node = Node { h: ReplicatedShardActor::spawn(ReplicaId::new(rid), level, 0) };
                out.op(format!("NEW {} {}", rid, causal as u8), "ok".into());
                text.push_str("RESTART;");
                observed.clear();
                let full = corpus || rng.chance(2, 3);
                let mut all_recovered = true;
                for (k, m) in snap_sorted(&snap) {
                    if !full && rng.chance(1, 3) {
                        all_recovered = false;
                        continue; // lost (was not durable)
                    }
                    let as_checkpoint = corpus || rng.chance(1, 2);
                    let l = if as_checkpoint {
                        node.h.apply_recovered_state(k.clone(), m.to_real());
                        out.count("recover:checkpoint");
                        format!("REC {} {}", hex(k.as_bytes()), m.show())
                    } else {
                        node.h.apply_remote_delta(ReplicationDelta::new(k.clone(), m.to_real(), ReplicaId::new(rid)));
                        out.count("recover:delta");
                        format!("R {} {}", hex(k.as_bytes()), m.show())
                    };
                    text.push_str(&l);
                    text.push(';');
                    out.op(l, "ok".into());
                    for s in stamps_of(&m) {
                        observed.entry(k.clone()).or_default().push((s, if as_checkpoint { "recovered-checkpoint" } else { "recovered-delta" }));
                    }
                }
                if !all_recovered {
                    last_issued = None; // own maximum may legitimately be gone
                }
            }
        }
        // everything the node stores now is observed
        let after = node.h.get_snapshot().await;
        if let Some(v) = after.get(&key) {
            for s in stamps_of(&MRv::from_real(v)) {
                let e = observed.entry(key.clone()).or_default();
                if !e.iter().any(|(o, _)| *o == s) {
                    e.push((s, "local"));
                }
            }
        }
    }
    // final snapshot is always compared
    let s = node.h.get_snapshot().await;
    let v = snap_sorted(&s);
    let mut ans = v.len().to_string();
    for (k, m) in &v {
        ans.push_str(&format!(" {} {} ;", hex(k.as_bytes()), m.show()));
    }
    out.op("SNAP".into(), ans);
    node.h.shutdown().await;
    out.case(&text, nontrivial);
    out.sample(json!({"history": text}));
    let _ = ShardReplicaState::new(ReplicaId::new(1), ConsistencyLevel::Eventual);
}

// ---------------------------------------------------------------------------------------------
// system level: ReplicatedShardedState::apply_recovered_state (what a node runs at start-up)
// ---------------------------------------------------------------------------------------------

use redis_sim::production::ReplicatedShardedState;
use redis_sim::replication::ReplicationConfig;
use redis_sim::streaming::{delta_sink_channel, CheckpointReader, CheckpointWriter, Compression, DeltaSinkReceiver};

const NSHARDS: usize = 16;

/// `hash_key` of production/replicated_state.rs (private there): `DefaultHasher` over the `&str`.
/// Not trusted: the model correspondence validates it (two keys of one shard share a clock).
fn shard_of(key: &str) -> usize {
    use std::hash::{Hash, Hasher};
    let mut h = std::collections::hash_map::DefaultHasher::new();
    key.hash(&mut h);
    (h.finish() as usize) % NSHARDS
}

/// 6 keys over 4 shards: two shards with two keys each, two with one
fn key_pool() -> Vec<String> {
    let mut by: BTreeMap<usize, Vec<String>> = BTreeMap::new();
    for i in 0..200 {
        let k = format!("k{}", i);
        by.entry(shard_of(&k)).or_default().push(k);
    }
    let mut pool = Vec::new();
    for (n, (_, ks)) in by.iter().enumerate() {
        match n {
            0 | 1 => pool.extend(ks.iter().take(2).cloned()),
            2 | 3 => pool.extend(ks.iter().take(1).cloned()),
            _ => break,
        }
    }
    pool
}

fn new_state(rid: u64, level: ConsistencyLevel) -> (ReplicatedShardedState, DeltaSinkReceiver) {
    let mut st = ReplicatedShardedState::new(ReplicationConfig { replica_id: rid, consistency_level: level, ..ReplicationConfig::default() });
    let (tx, rx) = delta_sink_channel();
    st.set_delta_sink(tx);
    (st, rx)
}

#[derive(Clone)]
enum LocalOp {
    Set(String, Vec<u8>, Option<i64>),
    Del(String),
    HSet(String, Vec<(String, Vec<u8>)>),
    HDel(String, Vec<String>),
    Incr(String),
}

impl LocalOp {
    fn key(&self) -> &str {
        match self {
            LocalOp::Set(k, ..) | LocalOp::Del(k) | LocalOp::HSet(k, _) | LocalOp::HDel(k, _) | LocalOp::Incr(k) => k,
        }
    }
    fn kind(&self) -> &'static str {
        match self {
            LocalOp::Set(..) => "set",
            LocalOp::Del(_) => "del",
            LocalOp::HSet(..) => "hset",
            LocalOp::HDel(..) => "hdel",
            LocalOp::Incr(_) => "incr",
        }
    }
    fn cmd(&self) -> Command {
        match self {
            LocalOp::Set(k, v, ex) => {
                let mut c = Command::set(k.clone(), SDS::new(v.clone()));
                if let Command::Set { ex: ref mut e, .. } = c {
                    *e = *ex;
                }
                c
            }
            LocalOp::Del(k) => Command::del(k.clone()),
            LocalOp::HSet(k, fs) => Command::HSet(k.clone(), fs.iter().map(|(f, v)| (SDS::from_str(f), SDS::new(v.clone()))).collect()),
            LocalOp::HDel(k, fs) => Command::HDel(k.clone(), fs.iter().map(|f| SDS::from_str(f)).collect()),
            LocalOp::Incr(k) => Command::Incr(k.clone()),
        }
    }
}

fn gen_local(rng: &mut Rng, pool: &[String]) -> LocalOp {
    let k = rng.pick(pool).clone();
    match rng.below(10) {
        0..=2 => LocalOp::Set(k, val(rng), if rng.chance(1, 5) { Some(rng.range(1, 50) as i64) } else { None }),
        3 | 4 => LocalOp::Del(k),
        5 | 6 => LocalOp::HSet(k, (0..rng.range(1, 2)).map(|_| (rng.pick(&FIELDS).to_string(), val(rng))).collect()),
        7 => LocalOp::HDel(k, (0..rng.range(1, 2)).map(|_| rng.pick(&FIELDS).to_string()).collect()),
        _ => LocalOp::Incr(k),
    }
}

struct Issued {
    /// did the command change the stored value (only then the delta carries a fresh stamp)
    eff: bool,
    shard: usize,
    st: St,
    delta: ReplicationDelta,
}

/// run one local command on a real state; emits the `NS` line; returns the delta it shipped
async fn local(out: &mut Out, st: &ReplicatedShardedState, rx: &DeltaSinkReceiver, op: &LocalOp, text: &mut String) -> Option<Issued> {
    let key = op.key().to_string();
    let before = st.snapshot_state().await;
    let prev = before.get(&key).map(MRv::from_real);
    let reply = st.execute(op.cmd()).await;
    let mut ds = rx.drain();
    let delta = ds.pop();
    if !ds.is_empty() {
        out.violation("C08:node:more-than-one-delta", "a single-key command shipped more than one delta", json!({"history": text.clone()}));
    }
    if matches!(reply, redis_sim::redis::RespValue::Error(_)) && delta.is_none() {
        out.count("sys:local-command-rejected-by-executor");
        return None;
    }
    let sh = shard_of(&key);
    let hk = hex(key.as_bytes());
    let (opline, eff) = match op {
        LocalOp::Set(_, v, ex) => (format!("W {} {} {}", hk, hex(v), ex.map(|s| (s as u64 * 1000).to_string()).unwrap_or("-".into())), true),
        LocalOp::Incr(_) => {
            // the recorded write carries the resulting string (and the key's remaining TTL)
            let m = delta.as_ref().map(|d| MRv::from_real(&d.value));
            let (v, e) = match m.as_ref().map(|m| (&m.crdt, m.exp)) {
                Some((MCrdt::Lww(l), e)) => (l.v.clone().unwrap_or_default(), e),
                _ => (vec![], None),
            };
            (format!("W {} {} {}", hk, hex(&v), e.map(|x| x.to_string()).unwrap_or("-".into())), true)
        }
        LocalOp::Del(_) => (format!("D {}", hk), matches!(prev.as_ref().map(|p| &p.crdt), Some(MCrdt::Lww(_)) | Some(MCrdt::H(_)))),
        LocalOp::HSet(_, fs) => {
            let mut l = format!("HW {} {}", hk, fs.len());
            for (f, v) in fs {
                l.push_str(&format!(" {} {}", hex(f.as_bytes()), hex(v)));
            }
            (l, true)
        }
        LocalOp::HDel(_, fs) => {
            let eff = match prev.as_ref().map(|p| &p.crdt) {
                Some(MCrdt::H(h)) => fs.iter().any(|f| h.contains_key(f)),
                _ => false,
            };
            let mut l = format!("HD {} {}", hk, fs.len());
            for f in fs {
                l.push_str(&format!(" {}", hex(f.as_bytes())));
            }
            (l, eff)
        }
    };
    out.count(&format!("sys:op:{}", op.kind()));
    let ans = match &delta {
        Some(d) => format!("eff={} delta {}", eff as u8, MRv::from_real(&d.value).show()),
        None => format!("eff={} none", eff as u8),
    };
    let line = format!("NS {} {}", sh, opline);
    text.push_str(&line);
    text.push(';');
    out.op(line, ans);
    if eff && delta.is_none() {
        out.violation("C08:effective-write-without-delta", "an effective local write produced no delta", json!({"history": text.clone()}));
    }
    delta.map(|d| {
        let m = MRv::from_real(&d.value);
        Issued { eff, shard: sh, st: (m.t, m.r), delta: d }
    })
}

async fn node_snap(out: &mut Out, st: &ReplicatedShardedState) {
    let s = st.snapshot_state().await;
    let v = snap_sorted(&s);
    let mut ans = v.len().to_string();
    for (k, m) in &v {
        ans.push_str(&format!(" {} {} ;", hex(k.as_bytes()), m.show()));
    }
    out.op("NSNAP".into(), ans);
}

async fn system_history(out: &mut Out, rng: &mut Rng, corpus: Option<u8>) {
    let rid = 1u64;
    let causal = corpus.is_none() && rng.chance(1, 5);
    let level = if causal { ConsistencyLevel::Causal } else { ConsistencyLevel::Eventual };
    let pool = key_pool();
    let (a, arx) = new_state(rid, level);
    out.op(format!("NN {} {} {}", rid, causal as u8, NSHARDS), "ok".into());
    let mut text = format!("NN {} {};", rid, causal as u8);
    let k0 = pool[0].clone();
    // the pre-restart history
    enum Pre {
        L(LocalOp),
        Remote(String, MRv),
        /// a command without a model op of its own (key-less / not replicated); FLUSH* → `NFLUSH`
        Other(Command),
    }
    let script: Vec<Pre> = match corpus {
        // SET k; SET k; DEL k: the last value is a tombstone
        Some(0) => vec![Pre::L(LocalOp::Set(k0.clone(), b"v1".to_vec(), None)), Pre::L(LocalOp::Set(k0.clone(), b"v2".to_vec(), None)), Pre::L(LocalOp::Del(k0.clone()))],
        // HSET h f; HSET h g; HDEL h f; DEL h: a hash whose fields are all tombstones, last
        Some(1) => vec![
            Pre::L(LocalOp::HSet(k0.clone(), vec![("f".into(), b"1".to_vec())])),
            Pre::L(LocalOp::HSet(k0.clone(), vec![("g".into(), b"2".to_vec())])),
            Pre::L(LocalOp::HDel(k0.clone(), vec!["f".into()])),
            Pre::L(LocalOp::Del(k0.clone())),
        ],
        // seeded/C08-flush-resets-lamport-clock: SET k ×3; FLUSHALL; SET k
        Some(3) => vec![
            Pre::L(LocalOp::Set(k0.clone(), b"v1".to_vec(), None)),
            Pre::L(LocalOp::Set(k0.clone(), b"v2".to_vec(), None)),
            Pre::L(LocalOp::Set(k0.clone(), b"v3".to_vec(), None)),
            Pre::Other(Command::FlushAll),
            Pre::L(LocalOp::Set(k0.clone(), b"after-flush".to_vec(), None)),
        ],
        // a peer's tombstone with a high stamp arrives by gossip, another key of the shard is written
        Some(_) => vec![
            Pre::L(LocalOp::Set(k0.clone(), b"v1".to_vec(), None)),
            Pre::Remote(k0.clone(), MRv { crdt: MCrdt::Lww(MLww { v: None, t: 9, r: 2, tomb: true }), vc: None, exp: None, t: 9, r: 2, rf: None }),
            Pre::L(LocalOp::Set(pool[1].clone(), b"w".to_vec(), None)),
        ],
        None => {
            let n = rng.range(3, 12);
            let mut tmax = 0u64;
            (0..n)
                .map(|_| {
                    tmax += 1;
                    if rng.chance(1, 5) {
                        let m = peer_value(rng, tmax + 6);
                        tmax = tmax.max(m.t + 1);
                        Pre::Remote(rng.pick(&pool).clone(), m)
                    } else if rng.chance(1, 8) {
                        // key-less / whole-node commands through ReplicatedShardedState::execute
                        Pre::Other(match rng.below(8) {
                            0 | 1 => Command::FlushAll,
                            2 => Command::FlushDb,
                            3 => Command::ScriptFlush,
                            4 => Command::ConfigSet("maxmemory".into(), "0".into()),
                            5 => Command::Select(0),
                            6 => Command::DbSize,
                            _ => Command::MSetNx(vec![(rng.pick(&pool).clone(), SDS::new(val(rng)))]),
                        })
                    } else {
                        Pre::L(gen_local(rng, &pool))
                    }
                })
                .collect()
        }
    };
    // timeline: (snapshot, number of own deltas so far) after every op
    let mut own: Vec<Issued> = Vec::new();
    let mut points: Vec<(HashMap<String, ReplicatedValue>, usize)> = vec![(HashMap::new(), 0)];
    for p in &script {
        match p {
            Pre::L(op) => {
                if let Some(i) = local(out, &a, &arx, op, &mut text).await {
                    if let Some(last) = own.iter().rev().find(|o| o.shard == i.shard && o.eff) {
                        if i.eff && !(last.st < i.st) {
                            out.violation("C08:issued-not-increasing", &format!("shard {}: issued stamp {:?} after {:?}", i.shard, i.st, last.st), json!({"history": text.clone()}));
                        }
                    }
                    own.push(i);
                }
            }
            Pre::Other(c) => {
                out.count(&format!("sys:variant:{}", variant_info(c).0));
                let _ = a.execute(c.clone()).await;
                for d in arx.drain() {
                    out.violation(&format!("C08:unexpected-delta:{}", variant_info(c).0), "a command the recorder is not known to replicate shipped a delta", json!({"history": text.clone(), "key": d.key}));
                }
                if matches!(c, Command::FlushAll | Command::FlushDb) {
                    text.push_str("NFLUSH;");
                    out.op("NFLUSH".into(), "ok".into());
                }
            }
            Pre::Remote(k, m) => {
                out.count("sys:op:remote");
                a.apply_remote_deltas(vec![ReplicationDelta::new(k.clone(), m.to_real(), ReplicaId::new(m.r))]);
                let l = format!("NS {} R {} {}", shard_of(k), hex(k.as_bytes()), m.show());
                text.push_str(&l);
                text.push(';');
                out.op(l, "ok".into());
            }
        }
        points.push((a.snapshot_state().await, own.len()));
    }
    node_snap(out, &a).await;
    // the writes after the restart: the key written last, another key of its shard, then random
    let last_key = script.iter().rev().find_map(|p| match p { Pre::L(op) => Some(op.key().to_string()), Pre::Remote(k, _) => Some(k.clone()), Pre::Other(_) => None }).unwrap_or(k0.clone());
    let mut post: Vec<LocalOp> = vec![LocalOp::Set(last_key.clone(), b"after".to_vec(), None)];
    if corpus == Some(1) {
        post = vec![LocalOp::HSet(last_key.clone(), vec![("f".into(), b"after".to_vec())])];
    }
    if let Some(other) = pool.iter().find(|k| **k != last_key && shard_of(k) == shard_of(&last_key)) {
        post.push(LocalOp::Set(other.clone(), b"other".to_vec(), None));
    }
    if corpus.is_none() {
        for _ in 0..rng.range(1, 3) {
            post.push(gen_local(rng, &pool));
        }
    }
    let through_file = corpus.is_none() && rng.chance(1, 2);
    let mut nontrivial = false;
    for (j, (snap, n_own)) in points.iter().enumerate() {
        out.count("sys:restart");
        let (b, brx) = new_state(rid, level);
        out.op(format!("NN {} {} {}", rid, causal as u8, NSHARDS), "ok".into());
        // the checkpoint as the node would load it
        let ckpt: Option<HashMap<String, ReplicatedValue>> = if j == 0 && rng.chance(1, 2) {
            None
        } else if through_file {
            out.count("sys:checkpoint:through-writer-reader");
            let bytes = CheckpointWriter::new(Compression::None).write(snap.clone(), 0, 0).expect("checkpoint write");
            Some(CheckpointReader::open(&bytes).expect("checkpoint open").load().expect("checkpoint load").state)
        } else {
            Some(snap.clone())
        };
        // the deltas recovered from segments / WAL: those after the checkpoint — sometimes also
        // older ones (a WAL that was not truncated at the checkpoint: overlap), sometimes in
        // another order than they were issued (segments and WAL entries are merged by the recovery)
        let start = if corpus.is_none() && *n_own > 0 && rng.chance(1, 3) { *n_own - rng.range(1, *n_own as u64) as usize } else { *n_own };
        if start < *n_own {
            out.count("sys:recovery:deltas-overlap-checkpoint");
        }
        let mut deltas: Vec<ReplicationDelta> = own[start..].iter().map(|i| i.delta.clone()).collect();
        if corpus.is_none() && deltas.len() > 1 && rng.chance(1, 4) {
            rng.shuffle(&mut deltas);
            out.count("sys:recovery:deltas-reordered");
        }
        // recovered stamps per shard, with provenance; the op line (checkpoint in ITS iteration order)
        let mut recovered: BTreeMap<usize, Vec<(St, &'static str, String)>> = BTreeMap::new();
        // what a peer holds that has everything the node recovered: the merge of it, per key
        let mut peer: HashMap<String, ReplicatedValue> = HashMap::new();
        let mut absorb = |k: &str, v: &ReplicatedValue| {
            let m = match peer.get(k) {
                Some(p) => p.merge(v),
                None => v.clone(),
            };
            peer.insert(k.to_string(), m);
        };
        let mut line = format!("NRECOVER {}", ckpt.as_ref().map(|c| c.len()).unwrap_or(0));
        let mut canon: Vec<String> = Vec::new();
        if let Some(c) = &ckpt {
            for (k, v) in c.iter() {
                let m = MRv::from_real(v);
                line.push_str(&format!(" {} {} {}", shard_of(k), hex(k.as_bytes()), m.show()));
                canon.push(format!("C {} {}", k, m.show()));
                absorb(k, v);
                for s in stamps_of(&m) {
                    recovered.entry(shard_of(k)).or_default().push((s, "recovered-checkpoint", k.clone()));
                }
            }
        }
        // the start-up of bin/server_persistent.rs is TWO calls: apply_recovered_state(checkpoint,
        // segment deltas), then apply_recovered_state(None, ALL WAL entries) — the WAL overlaps the
        // segments (everything not yet truncated is replayed again).  Half of the restarts go that way:
        // the deltas are split into a segment part and a WAL part that starts at or before the cut.
        let two_phase = corpus.is_none() && !deltas.is_empty() && rng.chance(1, 2);
        let (segs, wal): (Vec<ReplicationDelta>, Vec<ReplicationDelta>) = if two_phase {
            let cut = rng.below(deltas.len() as u64 + 1) as usize;
            let wal_from = rng.below(cut as u64 + 1) as usize;
            out.count("sys:startup:two-phase");
            if wal_from < cut {
                out.count("sys:startup:wal-overlaps-segments");
            }
            (deltas[..cut].to_vec(), deltas[wal_from..].to_vec())
        } else {
            (deltas.clone(), Vec::new())
        };
        line.push_str(&format!(" {}", segs.len()));
        let mut line2 = format!("NRECOVER 0 {}", wal.len());
        for (phase, d) in segs.iter().map(|d| (1, d)).chain(wal.iter().map(|d| (2, d))) {
            let m = MRv::from_real(&d.value);
            let t = format!(" {} {} {}", shard_of(&d.key), hex(d.key.as_bytes()), m.show());
            if phase == 1 { line.push_str(&t) } else { line2.push_str(&t) }
            canon.push(format!("{} {} {}", if phase == 1 { "D" } else { "W" }, d.key, m.show()));
            absorb(&d.key, &d.value);
            for s in stamps_of(&m) {
                recovered.entry(shard_of(&d.key)).or_default().push((s, if phase == 1 { "recovered-delta" } else { "recovered-wal" }, d.key.clone()));
            }
        }
        canon.sort();
        out.count(&format!("sys:split:ckpt={},deltas={}", if ckpt.as_ref().map(|c| !c.is_empty()).unwrap_or(false) { "some" } else { "none" }, if deltas.is_empty() { "none" } else { "some" }));
        b.apply_recovered_state(ckpt, segs);
        out.op(line, "ok".into());
        if two_phase {
            b.apply_recovered_state(None, wal);
            out.op(line2, "ok".into());
        }
        let mut rtext = format!("{}RESTART split={} [{}];", text, j, canon.join(" | "));
        for op in &post {
            let Some(i) = local(out, &b, &brx, op, &mut rtext).await else { continue };
            if !i.eff {
                continue; // nothing was written: the delta repeats the stored value and its stamp
            }
            let replay = json!({"history": rtext.clone(), "issued": [i.st.0, i.st.1], "shard": i.shard});
            // (1) above every recovered stamp routed to the same shard
            if let Some(rs) = recovered.get(&i.shard) {
                nontrivial = true;
                if let Some((o, prov, k)) = rs.iter().find(|(o, _, _)| !(*o < i.st)) {
                    out.violation(
                        &format!("C08:node:stale-stamp:after-{}", prov),
                        &format!("after apply_recovered_state the {} on '{}' (shard {}) was acknowledged with stamp {:?} although stamp {:?} of '{}' had been recovered for that shard", op.kind(), op.key(), i.shard, i.st, o, k),
                        replay.clone(),
                    );
                }
            }
            // (2) above everything this node issued for the shard before the restart (all of it was recovered)
            if let Some(o) = own.iter().filter(|o| o.shard == i.shard).map(|o| o.st).max() {
                if !(o < i.st) {
                    out.violation("C08:node:issued-not-increasing-across-restart", &format!("shard {}: stamp {:?} issued after the restart, {:?} before it", i.shard, i.st, o), replay.clone());
                }
            }
            // (3) a peer that holds everything takes the post-restart write as the winner
            if let Some(peer) = peer.get(op.key()) {
                let merged = peer.merge(&i.delta.value);
                let wins = match op {
                    LocalOp::Set(_, v, _) => merged.get().map(|x| x.as_bytes().to_vec()) == Some(v.clone()),
                    LocalOp::Del(_) => merged.get().is_none() && merged.get_hash().map(|h| h.values().all(|l| l.tombstone)).unwrap_or(true),
                    LocalOp::HSet(_, fs) => fs.iter().rev().take(1).all(|(f, v)| merged.hash_get(f).map(|x| x.as_bytes().to_vec()) == Some(v.clone())),
                    _ => true,
                };
                if !wins {
                    out.violation("C08:node:post-restart-write-loses-merge", &format!("a peer holding '{}' = {} merges the acknowledged post-restart {} (stamp {:?}) and does not serve it", op.key(), MRv::from_real(peer).show(), op.kind(), i.st), replay.clone());
                }
            }
        }
        node_snap(out, &b).await;
    }
    out.case(&format!("SYS:{}|{:?}", text, post.iter().map(|p| format!("{}:{}", p.kind(), p.key())).collect::<Vec<_>>()), nontrivial);
    if corpus.is_none() {
        out.sample(json!({"system-history": text}));
    }
}
