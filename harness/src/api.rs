//! Every entry point of the sharding layer (derived from the source by build.rs) and how the
//! C02 / C03 harness accounts for it.
use crate::out::Out;
use serde_json::json;
use std::collections::BTreeMap;

include!(concat!(env!("OUT_DIR"), "/api_gen.rs"));

/// name → how it is driven, or why it is not
fn coverage(name: &str) -> Option<&'static str> {
    Some(match name {
        // ShardMessage variants
        "Command" => "driven: every generic command (C03 streams, route probes of all 82 key-bearing variants, C02 histories)",
        "BatchCommand" => "NOT driven: constructed only by the private ShardHandle::execute_fire_and_forget, which has no caller (dead code, #[allow(dead_code)])",
        "EvictExpired" => "driven: evict_expired_all_shards in the timed streams (T <now> EVICT), model Clock.evictAll",
        "FastGet" => "driven: FGET (C03 mixed classes, timed streams, C02)",
        "FastSet" => "driven: FSET",
        "FastBatchGet" => "driven: BGET (fast_batch_get_pipeline; C03 untimed + timed, C02 batched items)",
        "FastBatchSet" => "driven: BSET",
        "PooledFastGet" => "driven: PGET (C03, C02 incl. cancellation histories)",
        "PooledFastSet" => "driven: PSET",
        // ShardHandle
        "execute" | "fast_get" | "fast_set" | "pooled_fast_get" | "pooled_fast_set" | "fast_batch_get" | "fast_batch_set" => {
            "driven through the ShardedActorState method of the same name (ShardHandle is not reachable from outside: `shards` is private)"
        }
        "execute_fire_and_forget" => "NOT driven: private, no caller (dead code)",
        "evict_expired" => "driven through evict_expired_all_shards",
        // ShardedActorState
        "new" | "with_shards" | "with_config" | "with_perf_config" => {
            "constructors over ProductionTimeSource: delegate to with_config_and_time_source / with_perf_config_and_time_source, which are driven (with_shards(n) for n in {0,1,2,3,5,7,64,256,1000}: clamping probe)"
        }
        "with_config_and_time_source" => "driven: every instance of the C03 / C02 harness (shard counts 1..16, plus 64 / 256 and non-powers of two)",
        "with_perf_config_and_time_source" => "driven: instances built from a generated PerformanceConfig (validate()d; response pool capacity 1..256, prewarm 0..capacity) in the C02 pooled / cancellation histories and C03 mixed cases",
        "num_shards" => "driven: clamping probe",
        "time_source" => "accessor: used by the harness to reach the simulated clock",
        "is_adaptive_enabled" | "observe_access" | "get_rf_for_key" | "get_hot_keys" | "check_scaling" | "update_shard_metrics" | "get_adaptive_info" | "adaptive_handle" => {
            "NOT part of C02/C03: adaptive replication / load-balancer metrics (separate actor, never touches the keyspace or routing); probed only for 'does not change replies' with adaptive config on"
        }
        "evict_expired_all_shards" => "driven: timed streams (EVICT)",
        "fast_batch_get_pipeline" | "fast_batch_set_pipeline" => "driven: BGET / BSET",
        "with_adaptive" => "ShardConfig builder: driven once (adaptive probe)",
        _ => return None,
    })
}

pub fn report(out: &mut Out) {
    let mut table: BTreeMap<String, String> = BTreeMap::new();
    for (group, names) in [("ShardMessage", SHARD_MESSAGES), ("ShardHandle", HANDLE_FNS), ("ShardedActorState", STATE_PUB_FNS), ("ShardConfig", CONFIG_PUB_FNS)] {
        for n in names {
            match coverage(n) {
                Some(c) => {
                    table.insert(format!("{}::{}", group, n), c.to_string());
                }
                None => {
                    table.insert(format!("{}::{}", group, n), "UNACCOUNTED".into());
                    out.violation(
                        &format!("C03:api-not-covered:{}::{}", group, n),
                        &format!("{}::{} exists in src/production/sharded_actor.rs but the harness neither drives it nor lists why not (harness/src/api.rs)", group, n),
                        json!({"name": n, "group": group}),
                    );
                }
            }
        }
    }
    // private fns of ShardHandle: reachable only through the fns above (all accounted for) — listed, never a violation
    for n in HANDLE_PRIVATE_FNS {
        table.insert(format!("ShardHandle::{} (private)", n), coverage(n).unwrap_or("private helper: reachable only through the accounted fns of this module").to_string());
    }
    out.extra.insert("api_coverage(derived from sharded_actor.rs by build.rs)".into(), json!(table));
    // ---- can the routing change at run time (rebalancing, hot-shard migration)?  Source-derived:
    // `num_shards: usize` and `shards: Arc<Vec<ShardHandle>>` are plain immutable fields, no method
    // of ShardedActorState takes `&mut self`, nothing assigns them, and the ScalingDecision of the
    // load balancer has no consumer (check_scaling only forwards it to the caller; no caller).
    let mut facts: BTreeMap<String, serde_json::Value> = BTreeMap::new();
    let field = |n: &str| STATE_FIELDS.iter().find(|(a, _)| *a == n).map(|(_, t)| t.to_string());
    let interior = |t: &str| ["Mutex", "RwLock", "Atomic", "Cell", "ArcSwap", "Lock"].iter().any(|w| t.contains(w));
    for (n, want) in [("num_shards", "usize"), ("shards", "Arc<Vec<ShardHandle>>")] {
        match field(n) {
            Some(t) if t == want && !interior(&t) => {
                facts.insert(format!("field {}", n), json!(t));
            }
            other => {
                facts.insert(format!("field {}", n), json!(format!("UNEXPECTED: {:?}", other)));
                out.violation(
                    &format!("C03:routing-state-mutable:field:{}", n),
                    &format!("ShardedActorState::{} is declared as {:?}, not the immutable `{}` the model's fixed route table (Routes.N) stands for: the shard count / shard set may now change at run time, home_unique must be re-proved across such a change", n, other, want),
                    json!({"field": n, "declared": other, "expected": want}),
                );
            }
        }
    }
    facts.insert("methods taking &mut self".into(), json!(STATE_MUT_SELF_FNS));
    for f in STATE_MUT_SELF_FNS {
        out.violation(&format!("C03:routing-state-mutable:mut-self:{}", f), &format!("ShardedActorState::{} takes &mut self: the routing state can be changed after construction", f), json!({"fn": f}));
    }
    facts.insert("assignments to num_shards / in-place mutation of shards".into(), json!(ROUTING_STATE_MUTATIONS));
    for a in ROUTING_STATE_MUTATIONS {
        out.violation("C03:routing-state-mutable:assignment", &format!("the routing state is modified after construction: {}", a), json!({"site": a}));
    }
    facts.insert("consumers of ScalingDecision outside load_balancer.rs / adaptive_actor.rs (non-test code)".into(), json!(SCALING_DECISION_CONSUMERS));
    for c in SCALING_DECISION_CONSUMERS {
        out.violation("C03:scaling-decision-applied", &format!("a ScalingDecision of the load balancer is now consumed by non-test code ({}): if it changes the shard set, keys must be migrated and home_unique re-proved across the change", c), json!({"site": c}));
    }
    out.extra.insert("routing_state_immutable(derived from the crate source by build.rs)".into(), json!(facts));
    // ---- the dispatch layer: the source-derived tables against the model's (`Model/Dispatch.lean`):
    // ENTRYPOINTS = the pub fns of ShardedActorState that reach a shard mailbox; DISPATCH = the ones
    // the connection handler calls.  The model answers with ITS tables; a new entry point / a new
    // call site shows as a disagreement on these two lines and as a named violation here.
    const MODEL_ENTRY_POINTS: [&str; 8] = ["evict_expired_all_shards", "execute", "fast_batch_get_pipeline", "fast_batch_set_pipeline", "fast_get", "fast_set", "pooled_fast_get", "pooled_fast_set"];
    let mut mailbox: Vec<&str> = MAILBOX_REACHING_FNS.to_vec();
    mailbox.sort();
    mailbox.dedup();
    out.op("ENTRYPOINTS".into(), mailbox.join(","));
    for f in &mailbox {
        if !MODEL_ENTRY_POINTS.contains(f) {
            out.violation(&format!("C03:dispatch:entry-point-not-modelled:{}", f), &format!("ShardedActorState::{} reaches a shard mailbox (its body uses self.shards) but is not an entry point of the model (Shards.EntryPoint): requests carried by it are outside entry_routes_home / entry_refines", f), json!({"fn": f}));
        }
    }
    let mut conn: Vec<&str> = STATE_CALL_SITES.iter().filter(|(f, site)| site.starts_with("connection_optimized.rs") && mailbox.contains(f)).map(|(f, _)| *f).collect();
    conn.sort();
    conn.dedup();
    out.op("DISPATCH".into(), conn.join(","));
    let mut sites: BTreeMap<String, Vec<String>> = BTreeMap::new();
    for (f, site) in STATE_CALL_SITES {
        if mailbox.contains(f) {
            sites.entry(f.to_string()).or_default().push(site.to_string());
        }
    }
    for (f, at) in &sites {
        for site in at {
            let known = site.starts_with("connection_optimized.rs") || (site.starts_with("ttl_manager.rs") && f == "evict_expired_all_shards");
            if !known {
                out.violation(&format!("C03:dispatch:call-site-not-modelled:{}", f), &format!("{} calls ShardedActorState::{} — a caller the dispatch model (connection handler, TTL manager) does not know", site, f), json!({"fn": f, "site": site}));
            }
        }
    }
    out.extra.insert("dispatch_call_sites(entry point → call sites in src/production, derived from the source)".into(), json!(sites));
}
