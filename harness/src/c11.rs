//! C11 — recovery returns exactly the merge of everything persisted, idempotently.
//! Correspondence: real `SegmentWriter`, `CheckpointWriter`, `Manifest` API, `ManifestManager`,
//! `WalRotator`, `RecoveryManager::{recover, recover_with_wal}` on `InMemoryObjectStore` /
//! `InMemoryWalStore` vs the model `Stream.recover` / `recoverWithWal`.
//! The application step is run too: the real `ReplicatedShardedState::apply_recovered_state` and the
//! whole `StreamingIntegration::recover(&state)` path on fresh real nodes; `snapshot_state()` is
//! compared with the model (`Stream.applyRecoveredState`) and with the ground-truth merge of
//! everything persisted, plus GET / HGETALL reads and a second application.
//! Oracle (on the real code, independent of the model): every persisted update is returned
//! (selection completeness); the recovered fold equals the merge of the ground-truth set; a
//! permuted / duplicated layout of the same set recovers to the same fold; a second recovery
//! equals the first; replaying the result onto itself changes nothing.
use crate::enc::{hex, key_cmp, MRv};
use crate::out::Out;
use crate::rng::Rng;
use crate::Args;
use redis_sim::production::ReplicatedShardedState;
use redis_sim::redis::{Command, RespValue, SDS};
use redis_sim::replication::lattice::ReplicaId;
use redis_sim::replication::state::{ReplicatedValue, ReplicationDelta, ShardReplicaState};
use redis_sim::replication::{ConsistencyLevel, ReplicationConfig};
use redis_sim::streaming::{
    CheckpointInfo, CheckpointWriter, Compression, InMemoryObjectStore, InMemoryWalStore, Manifest,
    ManifestManager, ObjectStore, RecoveredState, RecoveryError, RecoveryManager, SegmentInfo,
    SegmentWriter, StreamingConfig, StreamingIntegration, WalEntry, WalRotator,
};
use std::sync::Arc;
use serde_json::{json, Value};
use std::collections::{BTreeMap, HashMap};

pub const PREFIX: &str = "p";

pub type Upd = (String, ReplicatedValue);

pub fn seg_key(id: u64) -> String {
    format!("{}/segments/segment-{:08}.seg", PREFIX, id)
}
pub fn chk_key(name: u64) -> String {
    format!("{}/checkpoints/chk-{:016}.chk", PREFIX, name)
}

pub fn show_upds(l: &[(String, MRv)]) -> String {
    let mut s = l.len().to_string();
    for (k, v) in l {
        s.push_str(&format!(" {} {} ;", hex(k.as_bytes()), v.show()));
    }
    s
}

pub fn sorted_map(m: &HashMap<String, ReplicatedValue>) -> Vec<(String, MRv)> {
    let mut v: Vec<(String, MRv)> = m.iter().map(|(k, v)| (k.clone(), MRv::from_real(v))).collect();
    v.sort_by(|a, b| key_cmp(&a.0, &b.0));
    v
}

/// per-key fold with the REAL merge, in list order (`apply_remote_delta`)
pub fn fold_real(l: &[Upd]) -> HashMap<String, ReplicatedValue> {
    let mut m: HashMap<String, ReplicatedValue> = HashMap::new();
    for (k, v) in l {
        let nv = match m.remove(k) {
            Some(old) => old.merge(v),
            None => v.clone(),
        };
        m.insert(k.clone(), nv);
    }
    m
}

/// what a node ends up with: checkpoint entries (plain inserts), then the deltas merged in order
pub fn fold_recovered(r: &RecoveredState) -> HashMap<String, ReplicatedValue> {
    let mut l: Vec<Upd> = Vec::new();
    if let Some(c) = &r.checkpoint_state {
        for (k, v) in c {
            l.push((k.clone(), v.clone()));
        }
    }
    for d in &r.deltas {
        l.push((d.key.clone(), d.value.clone()));
    }
    fold_real(&l)
}

pub fn show_recovered(r: &Result<RecoveredState, RecoveryError>) -> String {
    match r {
        Err(RecoveryError::Manifest(_)) => "err manifest".into(),
        Err(RecoveryError::Checkpoint(_)) => "err checkpoint".into(),
        Err(RecoveryError::Segment(_)) => "err segment".into(),
        Err(RecoveryError::Io(_)) => "err io".into(),
        Ok(r) => {
            let chk = match &r.checkpoint_state {
                None => "-".to_string(),
                Some(m) => show_upds(&sorted_map(m)),
            };
            let ds: Vec<(String, MRv)> = r.deltas.iter().map(|d| (d.key.clone(), MRv::from_real(&d.value))).collect();
            format!("ok chk={} deltas {} fold {}", chk, show_upds(&ds), show_upds(&sorted_map(&fold_recovered(r))))
        }
    }
}

/// the model's decidable `Coherent`: all values well-formed, per key one CRDT kind and
/// pairwise tie-consistent
pub fn coherent(l: &[Upd]) -> bool {
    let ms: Vec<(String, MRv)> = l.iter().map(|(k, v)| (k.clone(), MRv::from_real(v))).collect();
    for (i, (k, a)) in ms.iter().enumerate() {
        if !a.wf() {
            return false;
        }
        for (k2, b) in ms.iter().skip(i) {
            if k == k2 && (a.crdt.kind() != b.crdt.kind() || !a.tie_ok(b) || !b.tie_ok(a)) {
                return false;
            }
        }
    }
    true
}

pub fn manifest_inv(m: &Manifest) -> bool {
    let sorted = m.segments.windows(2).all(|w| w[0].id < w[1].id);
    let below = m.segments.iter().all(|s| s.id < m.next_segment_id);
    let chk = match &m.checkpoint {
        None => true,
        Some(c) => c.last_segment_id < m.next_segment_id && m.segments.iter().all(|s| s.id > c.last_segment_id),
    };
    sorted && below && chk
}

pub fn show_man(m: &Manifest) -> String {
    let chk = match &m.checkpoint {
        None => "-".to_string(),
        Some(c) => format!("{}:{}", c.timestamp_ms, c.last_segment_id),
    };
    let segs: Vec<String> = m
        .segments
        .iter()
        .map(|s| format!("{}:{}:{}:{}:{}", s.id, s.record_count, s.size_bytes, s.min_timestamp, s.max_timestamp))
        .collect();
    format!("man v={} next={} chk={} segs=[{}] inv={}", m.version, m.next_segment_id, chk, segs.join(","), manifest_inv(m) as u8)
}

// ---------------------------------------------------------------------------------------------
// the application step: ReplicatedShardedState::apply_recovered_state / StreamingIntegration::recover
// ---------------------------------------------------------------------------------------------

fn repl_config(rid: u64) -> ReplicationConfig {
    ReplicationConfig {
        enabled: false,
        replica_id: rid,
        consistency_level: ConsistencyLevel::Eventual,
        gossip_interval_ms: 100,
        peers: vec![],
        replication_factor: 3,
        partitioned_mode: false,
        selective_gossip: false,
        virtual_nodes_per_physical: 150,
    }
}

/// apply a recovery result to a fresh real node; returns the node and its replication snapshot
async fn apply_fresh(rid: u64, rs: &RecoveredState, times: usize) -> (ReplicatedShardedState, HashMap<String, ReplicatedValue>) {
    let state = ReplicatedShardedState::new(repl_config(rid));
    for _ in 0..times {
        state.apply_recovered_state(rs.checkpoint_state.clone(), rs.deltas.clone());
    }
    let snap = state.snapshot_state().await;
    (state, snap)
}

fn show_applied(snap: &HashMap<String, ReplicatedValue>) -> String {
    format!("applied {}", show_upds(&sorted_map(snap)))
}

fn bulk_pairs(r: &RespValue) -> Option<Vec<(Vec<u8>, Vec<u8>)>> {
    match r {
        RespValue::Array(Some(items)) => {
            let mut flat: Vec<Vec<u8>> = Vec::new();
            for i in items {
                match i {
                    RespValue::BulkString(Some(b)) => flat.push(b.clone()),
                    _ => return None,
                }
            }
            if flat.len() % 2 != 0 {
                return None;
            }
            let mut v: Vec<(Vec<u8>, Vec<u8>)> = flat.chunks(2).map(|c| (c[0].clone(), c[1].clone())).collect();
            v.sort();
            Some(v)
        }
        RespValue::Array(None) => Some(vec![]),
        _ => None,
    }
}

/// oracle on the applied state: (b) per key equal to the ground-truth merge of everything
/// persisted, applying twice == once, client reads agree with the merge
async fn applied_oracle(out: &mut Out, layout: &str, rid: u64, rs: &RecoveredState, snap: &HashMap<String, ReplicatedValue>,
                        state: &ReplicatedShardedState, truth_set: &[Upd], rng: &mut Rng, claimed: bool, tag: &str) {
    if !claimed {
        out.count("excluded:applied-state-incoherent-or-broken-manifest");
        return;
    }
    let mut truth = truth_set.to_vec();
    rng.shuffle(&mut truth);
    let want = sorted_map(&fold_real(&truth));
    let got = sorted_map(snap);
    out.count("oracle:applied-state-compared");
    if got != want {
        let diff: Vec<String> = want
            .iter()
            .filter(|(k, v)| !got.iter().any(|(k2, v2)| k == k2 && v == v2))
            .map(|(k, v)| format!("{} want {} got {}", hex(k.as_bytes()), v.show(), got.iter().find(|(k2, _)| k2 == k).map(|(_, v2)| v2.show()).unwrap_or("<absent>".into())))
            .collect();
        out.violation(&format!("C11:applied-state:differs-from-merge:{}", tag),
            "after recover() + ReplicatedShardedState::apply_recovered_state on a fresh node the replication state of a key is not the merge of everything persisted for it",
            json!({"layout": layout, "differing_keys": diff, "applied": show_upds(&got), "merge_of_persisted": show_upds(&want)}));
        return;
    }
    // applying the recovered state twice == once
    let (_s2, snap2) = apply_fresh(rid, rs, 2).await;
    if sorted_map(&snap2) != got {
        out.violation("C11:applied-state:second-application-differs", "apply_recovered_state applied twice differs from applied once", json!({"layout": layout}));
    }
    // client-visible reads for values without expiry
    for (k, v) in &want {
        if v.exp.is_some() {
            continue;
        }
        match &v.crdt {
            crate::enc::MCrdt::Lww(l) => {
                if l.v.is_none() && !l.tomb {
                    continue; // not a value a replica produces (boundary stream only)
                }
                let reply = state.execute(Command::Get(k.clone())).await;
                let want_v: Option<Vec<u8>> = if l.tomb { None } else { l.v.clone() };
                let ok = match (&reply, &want_v) {
                    (RespValue::BulkString(g), w) => g == w,
                    _ => false,
                };
                out.count("oracle:read-get");
                if !ok {
                    out.violation("C11:applied-state:read-differs-from-merge:get", "GET after recovery does not serve the merge of everything persisted",
                        json!({"layout": layout, "key": hex(k.as_bytes()), "merge": v.show(), "reply": format!("{:?}", reply)}));
                }
            }
            crate::enc::MCrdt::H(h) => {
                if h.iter().any(|(_, l)| l.v.is_none() && !l.tomb) {
                    // a field register that is neither a value nor a tombstone: not something a replica
                    // produces (boundary stream only; the string case above skips the same shape — the
                    // re-materialisation of such crafted registers is C06's robustness note bad-delta)
                    out.count("excluded:read-of-hash-with-crafted-empty-register");
                    continue;
                }
                let reply = state.execute(Command::HGetAll(k.clone())).await;
                let mut want_f: Vec<(Vec<u8>, Vec<u8>)> = h.iter().filter(|(_, l)| !l.tomb).filter_map(|(f, l)| l.v.clone().map(|v| (f.as_bytes().to_vec(), v))).collect();
                want_f.sort();
                out.count("oracle:read-hgetall");
                if bulk_pairs(&reply) != Some(want_f) {
                    out.violation("C11:applied-state:read-differs-from-merge:hgetall", "HGETALL after recovery does not serve the merge of everything persisted",
                        json!({"layout": layout, "key": hex(k.as_bytes()), "merge": v.show(), "reply": format!("{:?}", reply)}));
                }
            }
            _ => {}
        }
    }
}

/// recovery under READ faults (manifest, checkpoint, segments): for every `get` of a recovery of
/// this layout and a set of mangling kinds the result must be an error or the clean state
async fn recover_under_read_faults(out: &mut Out, real: &Real, rng: &mut Rng) {
    use crate::c12::{Fault, FaultStore};
    let mut img: std::collections::BTreeMap<String, Vec<u8>> = std::collections::BTreeMap::new();
    if let Ok(l) = real.store.list("", None).await {
        for o in l.objects {
            if let Ok(d) = real.store.get(&o.key).await {
                img.insert(o.key, d);
            }
        }
    }
    let clean = {
        let st = FaultStore::from_image(&img);
        let r = RecoveryManager::new(st.clone(), PREFIX, real.rid).recover().await;
        (r, st.calls())
    };
    let (clean_fold, ncalls) = match &clean.0 {
        Ok(rs) => (sorted_map(&fold_recovered(rs)), clean.1),
        Err(_) => return,
    };
    for idx in 0..ncalls {
        let kinds = [
            Fault::Fail,
            Fault::ReadEmpty { persistent: false },
            Fault::ReadTrunc { permille: rng.range(1, 999) as u16, persistent: false },
            Fault::ReadFlip { permille: rng.below(1000) as u16, n: 1, mask: 1 << rng.below(8), persistent: false },
            Fault::ReadFlip { permille: rng.below(1000) as u16, n: rng.range(1, 3) as u8, mask: rng.range(1, 255) as u8, persistent: false },
        ];
        for f in kinds {
            let st = FaultStore::from_image(&img);
            st.inner.lock().unwrap().faults.insert(idx, f);
            let r = RecoveryManager::new(st.clone(), PREFIX, real.rid).recover().await;
            let rec = st.inner.lock().unwrap().read_faults.first().cloned();
            let key = rec.as_ref().map(|r| r.key.clone()).unwrap_or_default();
            let object = if key.contains("/checkpoints/") { "checkpoint" } else { rec.as_ref().map(|r| r.object).unwrap_or("-") };
            let outcome = rec.as_ref().map(|r| r.outcome).unwrap_or("error");
            out.count(&format!("recover-read-fault:{}:{}:{}", f.name(), object, if object == "checkpoint" { if r.is_err() { "rejected" } else { "accepted" } } else { outcome }));
            if let Ok(rs) = &r {
                let got = sorted_map(&fold_recovered(rs));
                if got != clean_fold {
                    let sig = if outcome == "accepted-different" {
                        format!("C11:read-corruption-accepted:{}:{}", object, f.name())
                    } else {
                        format!("C11:recover:read-fault:silently-different-state:{}", object)
                    };
                    out.violation(&sig, "recover() under a read fault returns Ok with a state different from a clean recovery (it must fail or return the same state)",
                        json!({"layout": real.text, "recovery_call": idx, "fault": format!("{:?}", f), "object": key, "clean": show_upds(&clean_fold), "got": show_upds(&got)}));
                }
            }
            // the SECOND implementation of the same logic — recover_with_progress, the one
            // StreamingIntegration::recover (production start-up) calls — under the same fault: it issues the
            // same gets in the same order, so the fault hits the same object; it must fail or return the
            // clean state, and it must agree with recover() on Ok / Err
            let st2 = FaultStore::from_image(&img);
            st2.inner.lock().unwrap().faults.insert(idx, f);
            let rp = RecoveryManager::new(st2.clone(), PREFIX, real.rid).recover_with_progress(|_| {}).await;
            let rec2 = st2.inner.lock().unwrap().read_faults.first().cloned();
            let outcome2 = rec2.as_ref().map(|r| r.outcome).unwrap_or("error");
            out.count(&format!("recover-with-progress-read-fault:{}:{}", f.name(), if rp.is_err() { "rejected" } else { "accepted" }));
            if let Ok(rs) = &rp {
                let got = sorted_map(&fold_recovered(rs));
                if got != clean_fold {
                    let sig = if outcome2 == "accepted-different" {
                        format!("C11:read-corruption-accepted:{}:{}", object, f.name())
                    } else {
                        format!("C11:recover-with-progress:read-fault:silently-different-state:{}", object)
                    };
                    out.violation(&sig, "recover_with_progress() (the production start-up path) under a read fault returns Ok with a state different from a clean recovery (it must fail or return the same state)",
                        json!({"layout": real.text, "recovery_call": idx, "fault": format!("{:?}", f), "object": key, "clean": show_upds(&clean_fold), "got": show_upds(&got)}));
                }
            }
            if r.is_err() != rp.is_err() && rec.as_ref().map(|x| x.key.clone()) == rec2.as_ref().map(|x| x.key.clone()) {
                out.violation(&format!("C11:recover-with-progress:read-fault:differs-from-recover:{}", object),
                    "recover() and recover_with_progress() disagree on Ok / Err under the same read fault on the same object",
                    json!({"layout": real.text, "recovery_call": idx, "fault": format!("{:?}", f), "object": key, "recover": r.is_ok(), "recover_with_progress": rp.is_ok()}));
            }
        }
    }
}

// ---------------------------------------------------------------------------------------------
// update sets: several replicas, several shards per replica, each (replica, shard) its own clock
// ---------------------------------------------------------------------------------------------

const SKEYS: [&str; 8] = ["k", "k2", "é", "h", "h2", "", "kk3", "h3"];

fn payload(rng: &mut Rng) -> Vec<u8> {
    match rng.below(5) {
        0 => vec![],
        1 => vec![0, 255, 10],
        2 => b"v1".to_vec(),
        _ => format!("v{}", rng.below(30)).into_bytes(),
    }
}

pub fn gen_updates(rng: &mut Rng, out: &mut Out, max_steps: u64) -> Vec<Upd> {
    let nrep = rng.range(1, 3) as usize;
    let nshard = *rng.pick(&[1usize, 2, 3, 4, 8, 16]);
    let chaos = rng.chance(1, 8); // keys change type
    let causal = rng.chance(1, 6);
    let level = if causal { ConsistencyLevel::Causal } else { ConsistencyLevel::Eventual };
    let mut nodes: Vec<Vec<ShardReplicaState>> = (0..nrep)
        .map(|r| (0..nshard).map(|_| ShardReplicaState::new(ReplicaId::new(r as u64 + 1), level)).collect())
        .collect();
    // interleaved clocks: shards start at different times
    for r in 0..nrep {
        for s in 0..nshard {
            if rng.chance(1, 2) {
                let t = *rng.pick(&[3u64, 17, 100, 1000]);
                let warm = ReplicationDelta::new(
                    "_warm".into(),
                    ReplicatedValue::with_value(SDS::from_str("w"), redis_sim::replication::lattice::LamportClock { time: t, replica_id: ReplicaId::new(9) }),
                    ReplicaId::new(9),
                );
                nodes[r][s].apply_remote_delta(warm);
            }
        }
    }
    let mut ups: Vec<Upd> = Vec::new();
    let steps = rng.range(1, max_steps);
    for _ in 0..steps {
        let r = rng.below(nrep as u64) as usize;
        let ki = rng.below(SKEYS.len() as u64) as usize;
        let key = SKEYS[ki].to_string();
        let s = ki % nshard;
        let is_hash = key.starts_with('h') != (chaos && rng.chance(1, 3));
        let d = match rng.below(10) {
            0..=4 => {
                if is_hash {
                    out.count("gen:hash_write");
                    let nf = rng.range(1, 2);
                    let fields = (0..nf).map(|_| (rng.pick(&["f", "g", "ab"]).to_string(), SDS::new(payload(rng)))).collect();
                    Some(nodes[r][s].record_hash_write(key.clone(), fields))
                } else {
                    out.count("gen:write");
                    let exp = if rng.chance(1, 4) { Some(rng.range(1, 5) * 1000) } else { None };
                    Some(nodes[r][s].record_write(key.clone(), SDS::new(payload(rng)), exp))
                }
            }
            5 | 6 => {
                if is_hash {
                    out.count("gen:hash_delete");
                    nodes[r][s].record_hash_delete(key.clone(), vec![rng.pick(&["f", "g", "ab"]).to_string()])
                } else {
                    out.count("gen:delete");
                    nodes[r][s].record_delete(key.clone())
                }
            }
            7 => {
                // a remote stamp far ahead arrives at this shard
                out.count("gen:remote-far-ahead");
                let t = rng.range(500, 5000);
                let v = ReplicatedValue::with_value(
                    SDS::new(payload(rng)),
                    redis_sim::replication::lattice::LamportClock { time: t, replica_id: ReplicaId::new(7) },
                );
                let d = ReplicationDelta::new(key.clone(), v, ReplicaId::new(7));
                if !is_hash {
                    nodes[r][s].apply_remote_delta(d.clone());
                    Some(d)
                } else {
                    None
                }
            }
            _ => None,
        };
        if let Some(d) = d {
            ups.push((d.key.clone(), d.value.clone()));
            for to in 0..nrep {
                if to != r && rng.chance(2, 3) {
                    nodes[to][s].apply_remote_delta(d.clone());
                }
            }
        }
    }
    if rng.chance(1, 10) {
        // boundary stream: structured random values with colliding stamps (mostly incoherent)
        for _ in 0..rng.range(1, 3) {
            out.count("gen:random-value");
            ups.push((rng.pick(&SKEYS).to_string(), crate::c07::random_value(rng).to_real()));
        }
    }
    ups
}

// ---------------------------------------------------------------------------------------------
// a layout under construction: real objects + op lines for the model
// ---------------------------------------------------------------------------------------------

pub struct Real {
    pub store: InMemoryObjectStore,
    pub mm: ManifestManager<InMemoryObjectStore>,
    pub man: Manifest,
    pub rid: u64,
    pub wal_store: InMemoryWalStore,
    pub wal: Vec<(u64, Upd)>,
    /// ground truth: what is persisted under the manifest (checkpoint entries + listed segments)
    pub seg_content: BTreeMap<u64, Vec<Upd>>,
    pub chk_content: Vec<Upd>,
    pub text: String,
}

fn upds_line(l: &[Upd]) -> String {
    let mut s = l.len().to_string();
    for (k, v) in l {
        s.push_str(&format!(" {} {}", hex(k.as_bytes()), MRv::from_real(v).show()));
    }
    s
}

impl Real {
    pub fn new(out: &mut Out, rid: u64) -> Real {
        let store = InMemoryObjectStore::new();
        let mm = ManifestManager::new(store.clone(), PREFIX);
        let r = Real {
            store,
            mm,
            man: Manifest::new(rid),
            rid,
            wal_store: InMemoryWalStore::new(),
            wal: Vec::new(),
            seg_content: BTreeMap::new(),
            chk_content: Vec::new(),
            text: String::new(),
        };
        out.op(format!("RESET {}", rid), "ok".into());
        r
    }
    pub fn log(&mut self, out: &mut Out, op: String, ans: String) {
        self.text.push_str(&op);
        self.text.push(';');
        out.op(op, ans);
    }
    /// write a real segment object; returns (size, min, max)
    pub async fn seg(&mut self, out: &mut Out, id: u64, ds: &[Upd]) -> (u64, u64, u64) {
        let mut w = SegmentWriter::new(Compression::None);
        for (k, v) in ds {
            w.write_delta(&ReplicationDelta::new(k.clone(), v.clone(), ReplicaId::new(self.rid))).unwrap();
        }
        let data = w.finish().unwrap();
        self.store.put(&seg_key(id), &data).await.unwrap();
        let lo = ds.iter().map(|d| d.1.timestamp.time).min().unwrap_or(0);
        let hi = ds.iter().map(|d| d.1.timestamp.time).max().unwrap_or(0);
        self.seg_content.insert(id, ds.to_vec());
        self.log(out, format!("SEG {} {}", id, upds_line(ds)), "ok".into());
        (data.len() as u64, lo, hi)
    }
    pub async fn delseg(&mut self, out: &mut Out, id: u64) {
        self.store.delete(&seg_key(id)).await.unwrap();
        self.log(out, format!("DELSEG {}", id), "ok".into());
    }
    pub async fn tornseg(&mut self, out: &mut Out, id: u64) {
        let data = self.store.get(&seg_key(id)).await.unwrap();
        self.store.put(&seg_key(id), &data[..data.len() / 2]).await.unwrap();
        self.log(out, format!("TORNSEG {}", id), "ok".into());
    }
    pub async fn chk(&mut self, out: &mut Out, name: u64, last: u64, state: &HashMap<String, ReplicatedValue>) {
        // half of the checkpoints go through CheckpointManager::create_checkpoint (time source = the name)
        let via_manager = (name + last) % 2 == 0 && crate::c11x::chk_via_manager(out, self, name, last, state).await;
        if !via_manager {
            let data = CheckpointWriter::new(Compression::None).write(state.clone(), name, last).unwrap();
            self.store.put(&chk_key(name), &data).await.unwrap();
        }
        let mut l: Vec<Upd> = state.iter().map(|(k, v)| (k.clone(), v.clone())).collect();
        l.sort_by(|a, b| key_cmp(&a.0, &b.0));
        self.chk_content = l.clone();
        self.log(out, format!("CHK {} {} {}", name, last, upds_line(&l)), "ok".into());
    }
    pub fn malloc(&mut self, out: &mut Out) -> u64 {
        let id = self.man.allocate_segment_id();
        self.log(out, "MALLOC".into(), format!("id {}", id));
        id
    }
    pub fn madd(&mut self, out: &mut Out, id: u64, count: u32, size: u64, lo: u64, hi: u64) {
        self.man.add_segment(SegmentInfo { id, key: seg_key(id), record_count: count, size_bytes: size, min_timestamp: lo, max_timestamp: hi });
        let a = show_man(&self.man);
        self.log(out, format!("MADD {} {} {} {} {}", id, count, size, lo, hi), a);
    }
    pub fn mcompact(&mut self, out: &mut Out, name: u64, last: u64, key_count: u64) {
        self.man.compact_segments(CheckpointInfo { key: chk_key(name), timestamp_ms: name, key_count, last_segment_id: last });
        let a = show_man(&self.man);
        self.log(out, format!("MCOMPACT {} {}", name, last), a);
    }
    pub async fn msave(&mut self, out: &mut Out) {
        self.mm.save(&self.man).await.unwrap();
        self.log(out, "MSAVE".into(), "ok".into());
    }
    /// append WAL entries through the real rotator (several files), entry timestamp = the
    /// delta's Lamport time as `ReplicatedShardedState` does.  `truncate`: after the appends the
    /// rotator's `truncate_before(t)` runs (what the server does once segments up to `t` are
    /// streamed) — with interleaved shard clocks it removes files from the MIDDLE of the
    /// sequence; the WAL the model is given is what the SURVIVING files hold (file membership is
    /// tracked here by watching the directory after every append, not by reading the files back).
    pub fn set_wal_truncated(&mut self, out: &mut Out, entries: &[Upd], file_size: usize, truncate: Option<u64>) -> Vec<Upd> {
        use redis_sim::streaming::WalStore;
        self.wal_store = InMemoryWalStore::new();
        let mut rot = WalRotator::new(self.wal_store.clone(), file_size).unwrap();
        let mut by_file: BTreeMap<String, Vec<(u64, Upd)>> = BTreeMap::new();
        for (k, v) in entries {
            let ts = v.timestamp.time;
            let d = ReplicationDelta::new(k.clone(), v.clone(), ReplicaId::new(self.rid));
            rot.append(&WalEntry::from_delta(&d, ts).unwrap()).unwrap();
            // the entry went into the newest file of the directory
            let newest = self.wal_store.list().unwrap().into_iter().max().unwrap_or_default();
            by_file.entry(newest).or_default().push((ts, (k.clone(), v.clone())));
        }
        rot.sync().unwrap();
        out.count(&format!("wal:files={}", if by_file.len() >= 3 { ">=3".to_string() } else { by_file.len().to_string() }));
        if let Some(t) = truncate {
            let before: Vec<String> = self.wal_store.list().unwrap();
            let _ = rot.truncate_before(t);
            let after: Vec<String> = self.wal_store.list().unwrap();
            let deleted: Vec<&String> = before.iter().filter(|n| !after.contains(n)).collect();
            let hole = deleted.iter().any(|d| after.iter().any(|a| a < *d) && after.iter().any(|a| a > *d));
            out.count(if deleted.is_empty() { "wal:truncate:nothing-deleted" } else if hole { "wal:truncate:MIDDLE-file-deleted(hole in the sequence)" } else { "wal:truncate:prefix-deleted" });
            by_file.retain(|n, _| after.contains(n));
        }
        drop(rot);
        self.wal.clear();
        let mut survivors: Vec<Upd> = Vec::new();
        let n: usize = by_file.values().map(|v| v.len()).sum();
        let mut line = format!("WAL {}", n);
        for (_, es) in &by_file {
            for (ts, (k, v)) in es {
                self.wal.push((*ts, (k.clone(), v.clone())));
                survivors.push((k.clone(), v.clone()));
                line.push_str(&format!(" {} {} {}", ts, hex(k.as_bytes()), MRv::from_real(v).show()));
            }
        }
        self.log(out, line, "ok".into());
        survivors
    }
    pub fn set_wal(&mut self, out: &mut Out, entries: &[Upd], file_size: usize) {
        let _ = self.set_wal_truncated(out, entries, file_size, None);
    }
    pub async fn rec(&mut self, out: &mut Out) -> Result<RecoveredState, RecoveryError> {
        let rm = RecoveryManager::new(self.store.clone(), PREFIX, self.rid);
        let r = rm.recover().await;
        let a = show_recovered(&r);
        self.log(out, "REC".into(), a);
        r
    }
    pub async fn recwal(&mut self, out: &mut Out) -> Result<RecoveredState, RecoveryError> {
        let rm = RecoveryManager::new(self.store.clone(), PREFIX, self.rid);
        let rot = WalRotator::new(self.wal_store.clone(), 1 << 20).unwrap();
        let r = rm.recover_with_wal(&rot).await;
        let a = show_recovered(&r);
        self.log(out, "RECWAL".into(), a);
        r
    }
    /// the real application path on a fresh node: direct `apply_recovered_state` of `r`
    /// (op line APPLY / APPLYWAL); for APPLY also the whole `StreamingIntegration::recover` path
    pub async fn apply(&mut self, out: &mut Out, r: &Result<RecoveredState, RecoveryError>, op: &str)
        -> Option<(ReplicatedShardedState, HashMap<String, ReplicatedValue>)> {
        match r {
            Err(_) => {
                let a = show_recovered(r);
                self.log(out, op.into(), a);
                None
            }
            Ok(rs) => {
                let (state, snap) = apply_fresh(self.rid, rs, 1).await;
                self.log(out, op.into(), show_applied(&snap));
                if op == "APPLY" {
                    let mut cfg = StreamingConfig::test();
                    cfg.prefix = PREFIX.to_string();
                    let integ = StreamingIntegration::with_store(Arc::new(self.store.clone()), cfg, self.rid);
                    let st2 = ReplicatedShardedState::new(repl_config(self.rid));
                    match integ.recover(&st2).await {
                        Ok(_) => {
                            let snap2 = st2.snapshot_state().await;
                            out.count("oracle:integration-path-compared");
                            if sorted_map(&snap2) != sorted_map(&snap) {
                                out.violation("C11:applied-state:integration-path-differs",
                                    "StreamingIntegration::recover(&state) leaves a different replication state than recover() + apply_recovered_state",
                                    json!({"layout": self.text, "integration": show_upds(&sorted_map(&snap2)), "direct": show_upds(&sorted_map(&snap))}));
                            }
                        }
                        Err(e) => out.violation("C11:applied-state:integration-recover-failed", &format!("StreamingIntegration::recover failed: {}", e), json!({"layout": self.text})),
                    }
                }
                Some((state, snap))
            }
        }
    }
    /// ground truth under the saved manifest
    pub fn persisted(&self) -> Vec<Upd> {
        let mut l = if self.man.checkpoint.is_some() { self.chk_content.clone() } else { Vec::new() };
        for s in &self.man.segments {
            if let Some(ds) = self.seg_content.get(&s.id) {
                l.extend(ds.iter().cloned());
            }
        }
        l
    }
}

// ---------------------------------------------------------------------------------------------
// one case
// ---------------------------------------------------------------------------------------------

struct LayoutResult {
    fold: Option<Vec<(String, MRv)>>,
    persisted: Vec<Upd>,
    inv: bool,
    text: String,
}

fn canon_upds(l: &[Upd]) -> Vec<String> {
    let mut v: Vec<String> = l.iter().map(|(k, v)| format!("{} {}", hex(k.as_bytes()), MRv::from_real(v).show())).collect();
    v.sort();
    v
}

/// lay the update set out into checkpoint / segments (some duplicated) and recover
async fn layout(out: &mut Out, rng: &mut Rng, ups: &[Upd], force_chk_first: bool, tag: &str) -> (Real, LayoutResult) {
    let mut real = Real::new(out, 1);
    let nseg = if ups.is_empty() { 0 } else { rng.range(0, 5) as usize };
    let with_chk = force_chk_first || rng.chance(1, 2);
    // assignment: bucket 0 = checkpoint (if any), 1..=nseg = segments; duplicates allowed
    let nb = nseg + with_chk as usize;
    let mut buckets: Vec<Vec<Upd>> = vec![Vec::new(); nseg + 1];
    if nb > 0 {
        for u in ups {
            let copies = if rng.chance(1, 5) { 2 } else { 1 };
            for _ in 0..copies {
                let b = if with_chk { rng.below(nseg as u64 + 1) as usize } else { 1 + rng.below(nseg as u64) as usize };
                buckets[b].push(u.clone());
            }
        }
    }
    for b in buckets.iter_mut().skip(1) {
        if rng.chance(1, 2) {
            rng.shuffle(b);
        }
    }
    let chk_first = force_chk_first || (with_chk && rng.chance(1, 6));
    // segments covered by the checkpoint: written before it, their content is in the checkpoint too
    let ncovered = if with_chk && !chk_first && !ups.is_empty() { rng.range(1, 2) as usize } else { 0 };
    let mut covered_last: Option<u64> = None;
    let mut chk_state_src: Vec<Upd> = buckets[0].clone();
    for _ in 0..ncovered {
        // a covered segment re-uses a random slice of the update set (already folded into the checkpoint)
        let mut ds: Vec<Upd> = Vec::new();
        for u in ups {
            if rng.chance(1, 3) {
                ds.push(u.clone());
            }
        }
        if ds.is_empty() {
            ds.push(ups[0].clone());
        }
        let id = real.malloc(out);
        let (size, lo, hi) = real.seg(out, id, &ds).await;
        real.madd(out, id, ds.len() as u32, size, lo, hi);
        chk_state_src.extend(ds.iter().cloned());
        covered_last = Some(id);
    }
    if with_chk {
        let state = fold_real(&chk_state_src);
        let name = rng.range(1, 9);
        let last = match covered_last {
            Some(l) => l,
            None => {
                // nothing allocated yet: `0` is the only value the API can be given
                if real.man.next_segment_id == 0 { 0 } else { real.man.next_segment_id - 1 }
            }
        };
        let before_first_flush = real.man.next_segment_id == 0;
        real.chk(out, name, last, &state).await;
        real.mcompact(out, name, last, state.len() as u64);
        out.count(if before_first_flush { "layout:checkpoint-before-first-flush" } else { "layout:checkpoint" });
    }
    for b in 1..=nseg {
        let ds = buckets[b].clone();
        if ds.is_empty() {
            continue;
        }
        let id = real.malloc(out);
        let (size, lo, hi) = real.seg(out, id, &ds).await;
        real.madd(out, id, ds.len() as u32, size, lo, hi);
    }
    real.msave(out).await;
    out.count(&format!("layout:segments={}", real.man.segments.len()));
    if rng.chance(1, 3) {
        crate::c11x::extras(out, rng, &mut real, ups).await;
    }
    if rng.chance(1, 6) {
        crate::c11x::covering_checkpoint(out, rng, &mut real).await;
    }
    let r = real.rec(out).await;
    let persisted = real.persisted();
    let inv = manifest_inv(&real.man);
    if let Some((state, snap)) = real.apply(out, &r, "APPLY").await {
        if let Ok(rs) = &r {
            let claimed = inv && coherent(&persisted);
            let text = real.text.clone();
            applied_oracle(out, &text, real.rid, rs, &snap, &state, &persisted, rng, claimed, tag).await;
        }
    }
    if r.is_ok() && (force_chk_first || rng.chance(1, 8)) {
        recover_under_read_faults(out, &real, rng).await;
    }
    let fold = match &r {
        Ok(rs) => {
            // oracle 1: selection completeness — every persisted update is returned
            let mut got: Vec<String> = Vec::new();
            if let Some(c) = &rs.checkpoint_state {
                for (k, v) in c {
                    got.push(format!("{} {}", hex(k.as_bytes()), MRv::from_real(v).show()));
                }
            }
            for d in &rs.deltas {
                got.push(format!("{} {}", hex(d.key.as_bytes()), MRv::from_real(&d.value).show()));
            }
            let want = canon_upds(&persisted);
            let missing: Vec<&String> = want.iter().filter(|w| !got.contains(w)).collect();
            if !missing.is_empty() {
                let sig = if !inv && real.man.checkpoint.as_ref().map(|c| c.last_segment_id) == Some(0) && real.man.segments.iter().any(|s| s.id == 0) {
                    "C11:checkpoint-before-first-flush:segment-0-skipped".to_string()
                } else {
                    format!("C11:listed-update-not-returned:{}", tag)
                };
                out.violation(&sig, "an update present in a segment listed by the manifest (or in the checkpoint) is not returned by RecoveryManager::recover",
                    json!({"layout": real.text, "missing": missing, "manifest_inv": inv}));
            }
            // oracle 4: second recovery == first
            let rm = RecoveryManager::new(real.store.clone(), PREFIX, real.rid);
            let r2 = rm.recover().await;
            if show_recovered(&r2) != show_recovered(&r) {
                out.violation("C11:second-recovery-differs", "recover() twice on the same store gave different results", json!({"layout": real.text}));
            }
            // replaying the result onto itself changes nothing (when the laws are claimed)
            let mut twice: Vec<Upd> = Vec::new();
            for _ in 0..2 {
                if let Some(c) = &rs.checkpoint_state {
                    let mut l: Vec<Upd> = c.iter().map(|(k, v)| (k.clone(), v.clone())).collect();
                    l.sort_by(|a, b| key_cmp(&a.0, &b.0));
                    twice.extend(l);
                }
                twice.extend(rs.deltas.iter().map(|d| (d.key.clone(), d.value.clone())));
            }
            let f1 = sorted_map(&fold_recovered(rs));
            if coherent(&persisted) && sorted_map(&fold_real(&twice)) != f1 {
                out.violation("C11:replay-twice-differs", "applying the recovery result twice differs from applying it once", json!({"layout": real.text}));
            }
            Some(f1)
        }
        Err(e) => {
            out.violation(&format!("C11:recover-failed:{}", tag), &format!("recover() failed on a complete layout: {}", e), json!({"layout": real.text}));
            None
        }
    };
    let text = real.text.clone();
    (real, LayoutResult { fold, persisted, inv, text })
}

async fn case(out: &mut Out, rng: &mut Rng, corpus: Option<&str>) {
    let ups: Vec<Upd> = match corpus {
        Some("hwm") | Some("chk-first") | Some("chk-tombstone") => Vec::new(),
        _ => gen_updates(rng, out, 25),
    };
    let co = coherent(&ups);
    out.count(if co { "updates:coherent" } else { "updates:incoherent" });
    let mut nontrivial = false;

    if corpus == Some("chk-first") {
        // DESIGN §4 C11 "seen while reading": checkpoint on a manifest without segments, then a flush
        let d: Upd = ("a".into(), ReplicatedValue::with_value(SDS::from_str("1"), redis_sim::replication::lattice::LamportClock { time: 3, replica_id: ReplicaId::new(1) }));
        let (_r, res) = layout(out, &mut Rng::new(7), &[d], true, "corpus").await;
        out.case(&res.text, true);
        out.sample(json!({"layout": res.text}));
        return;
    }
    if corpus == Some("chk-tombstone") {
        // checkpoint (covering segment 0) holds session = tombstone @10 and keep @3; segment 1,
        // listed after it, holds session = "alive" @5 (a delta that reached the store late) and
        // other @7: the merge of everything persisted for `session` is the tombstone
        let t = crate::c12::lww_upd("session", b"", 10, 1, true);
        let keep = crate::c12::lww_upd("keep", b"kept", 3, 1, false);
        let alive = crate::c12::lww_upd("session", b"alive", 5, 1, false);
        let other = crate::c12::lww_upd("other", b"o", 7, 1, false);
        let mut real = Real::new(out, 1);
        let id0 = real.malloc(out);
        let (size, lo, hi) = real.seg(out, id0, &[keep.clone()]).await;
        real.madd(out, id0, 1, size, lo, hi);
        let state: HashMap<String, ReplicatedValue> = [t.clone(), keep.clone()].into_iter().collect();
        real.chk(out, 1000, id0, &state).await;
        real.mcompact(out, 1000, id0, 2);
        let id1 = real.malloc(out);
        let (size, lo, hi) = real.seg(out, id1, &[alive.clone(), other.clone()]).await;
        real.madd(out, id1, 2, size, lo, hi);
        real.msave(out).await;
        let r = real.rec(out).await;
        let persisted = real.persisted();
        if let Some((state, snap)) = real.apply(out, &r, "APPLY").await {
            if let Ok(rs) = &r {
                let text = real.text.clone();
                applied_oracle(out, &text, real.rid, rs, &snap, &state, &persisted, rng, true, "corpus-checkpoint-tombstone").await;
            }
        }
        out.case(&real.text, true);
        out.sample(json!({"layout": real.text}));
        return;
    }
    if corpus == Some("hwm") {
        // DESIGN §6.1: segment with max stamp 1000 (shard A), WAL entry @5 for another key (shard B)
        let a: Upd = ("a".into(), ReplicatedValue::with_value(SDS::from_str("1"), redis_sim::replication::lattice::LamportClock { time: 1000, replica_id: ReplicaId::new(1) }));
        let b: Upd = ("b".into(), ReplicatedValue::with_value(SDS::from_str("2"), redis_sim::replication::lattice::LamportClock { time: 5, replica_id: ReplicaId::new(1) }));
        let mut real = Real::new(out, 1);
        let id = real.malloc(out);
        let (size, lo, hi) = real.seg(out, id, &[a.clone()]).await;
        real.madd(out, id, 1, size, lo, hi);
        real.msave(out).await;
        real.set_wal(out, &[b.clone()], 1 << 20);
        let r = real.recwal(out).await;
        wal_oracle(out, &real, &r, &[a], &[b]);
        out.case(&real.text, true);
        out.sample(json!({"layout": real.text}));
        return;
    }

    // layout A, layout B (same update set, different partition / order / duplicates)
    let (_real_a, a) = layout(out, rng, &ups, false, "layout-a").await;
    let (real_b, b) = layout(out, rng, &ups, false, "layout-b").await;
    for (l, name) in [(&a, "a"), (&b, "b")] {
        if let Some(f) = &l.fold {
            // oracle 2: exactness — the fold equals the merge of the ground truth (shuffled)
            let mut truth = l.persisted.clone();
            rng.shuffle(&mut truth);
            if coherent(&l.persisted) {
                let t = sorted_map(&fold_real(&truth));
                // the skipped-segment finding also shows here; report it under its own signature once
                if &t != f && l.inv {
                    out.violation(&format!("C11:fold-differs-from-truth:layout-{}", name),
                        "the recovered fold differs from the merge of the persisted updates",
                        json!({"layout": l.text, "recovered": show_upds(f), "truth": show_upds(&t)}));
                }
                if f.len() > 1 || l.persisted.len() > 2 {
                    nontrivial = true;
                }
            } else {
                out.count("excluded:incoherent-layout");
            }
        }
    }
    // oracle 3: the two layouts hold the same set? (covered segments / checkpoints may add copies
    // of updates of the same set, never anything else) → same fold
    if let (Some(fa), Some(fb)) = (&a.fold, &b.fold) {
        let sa: std::collections::BTreeSet<String> = canon_upds(&a.persisted).into_iter().collect();
        let sb: std::collections::BTreeSet<String> = canon_upds(&b.persisted).into_iter().collect();
        let lww_only = ups.iter().all(|(_, v)| MRv::from_real(v).crdt.kind() == 0);
        let _ = lww_only;
        if co && a.inv && b.inv && !a.persisted.is_empty() {
            // checkpoint entries are merges of updates: compare at fold level against the full set
            let full = sorted_map(&fold_real(&ups));
            let covers = |l: &LayoutResult| {
                // every update of the set is persisted in this layout (directly or inside the checkpoint fold)
                let f = fold_real(&l.persisted);
                ups.iter().all(|(k, v)| f.get(k).map(|u| MRv::from_real(&v.merge(u)) == MRv::from_real(u)).unwrap_or(false))
            };
            if covers(&a) && covers(&b) {
                out.count("oracle:two-layouts-compared");
                if fa != fb {
                    out.violation("C11:layouts-of-same-set-differ", "two layouts (partition / order / duplicates) of the same update set recover to different states",
                        json!({"layout_a": a.text, "layout_b": b.text, "fold_a": show_upds(fa), "fold_b": show_upds(fb)}));
                }
                if fa != &full {
                    out.violation("C11:fold-differs-from-truth:full-set", "the recovered fold differs from the merge of the generated update set",
                        json!({"layout": a.text, "recovered": show_upds(fa), "truth": show_upds(&full)}));
                }
            }
        }
        let _ = (sa, sb);
    }
    // WAL: part of the update set is (also) in the WAL
    if !ups.is_empty() && rng.chance(2, 3) {
        let mut real = real_b; // the model holds the most recent layout
        let mut wal: Vec<Upd> = Vec::new();
        for u in &ups {
            if rng.chance(1, 2) {
                wal.push(u.clone());
            }
        }
        // plus fresh entries that are nowhere else (a shard that has not flushed yet)
        let fresh = gen_updates(rng, out, 6);
        wal.extend(fresh.iter().cloned());
        if rng.chance(1, 2) {
            rng.shuffle(&mut wal);
        }
        let fsz = *rng.pick(&[64usize, 300, 300, 700, 1 << 20]);
        // half of the WALs went through truncate_before at a stamp of the set (just below / at / above)
        let truncate = if rng.chance(1, 2) && !wal.is_empty() {
            let t = wal[rng.below(wal.len() as u64) as usize].1.timestamp.time;
            Some((t + rng.below(3)).saturating_sub(1))
        } else {
            None
        };
        let wal = real.set_wal_truncated(out, &wal, fsz, truncate);
        let r = real.recwal(out).await;
        crate::c11x::production_startup(out, &mut real).await;
        let persisted = real.persisted();
        wal_oracle(out, &real, &r, &persisted, &wal);
        if let Some((state, snap)) = real.apply(out, &r, "APPLYWAL").await {
            if let Ok(rs) = &r {
                let mut all: Vec<Upd> = persisted.clone();
                all.extend(wal.iter().cloned());
                let claimed = manifest_inv(&real.man) && coherent(&all);
                let text = real.text.clone();
                applied_oracle(out, &text, real.rid, rs, &snap, &state, &all, rng, claimed, "with-wal").await;
            }
        }
        out.count("layout:with-wal");
        nontrivial = true;
    }
    // a missing segment object: recovery must fail, never return a partial state silently
    if !a.persisted.is_empty() && rng.chance(1, 8) {
        let (mut real, _) = layout(out, rng, &ups, false, "layout-del").await;
        if let Some(s) = real.man.segments.first().cloned() {
            if rng.chance(1, 2) {
                real.delseg(out, s.id).await;
            } else {
                real.tornseg(out, s.id).await;
                out.count("layout:torn-segment");
            }
            let r = real.rec(out).await;
            let skipped = real.man.checkpoint.as_ref().map(|c| s.id <= c.last_segment_id).unwrap_or(false);
            if r.is_ok() && !skipped {
                out.violation("C11:missing-segment-ignored", "recover() succeeded although a listed segment object is missing or torn", json!({"layout": real.text}));
            }
            out.count("layout:missing-segment");
        }
    }
    out.case(&format!("{}|{}", a.text, b.text), nontrivial);
    out.sample(json!({"layout_a": a.text}));
}

fn wal_oracle(out: &mut Out, real: &Real, r: &Result<RecoveredState, RecoveryError>, persisted: &[Upd], wal: &[Upd]) {
    match r {
        Err(e) => out.violation("C11:recover-with-wal-failed", &format!("recover_with_wal failed: {}", e), json!({"layout": real.text})),
        Ok(rs) => {
            let got: Vec<String> = rs.deltas.iter().map(|d| format!("{} {}", hex(d.key.as_bytes()), MRv::from_real(&d.value).show())).collect();
            let dropped: Vec<String> = canon_upds(wal).into_iter().filter(|w| !got.contains(w)).collect();
            if !dropped.is_empty() {
                // is the dropped update really lost (not absorbed by what was returned)?
                let f = fold_recovered(rs);
                let lost = wal.iter().any(|(k, v)| match f.get(k) {
                    None => true,
                    Some(u) => MRv::from_real(&v.merge(u)) != MRv::from_real(u),
                });
                let hwm = real.man.segments.iter().map(|s| s.max_timestamp).max().unwrap_or(0);
                // cause first: the high-water-mark filter drops exactly the entries stamped below the mark;
                // anything else that is missing was lost for another reason (e.g. a file of the WAL
                // directory that was never read)
                let below_hwm = real.wal.iter().filter(|(ts, (k, v))| dropped.contains(&format!("{} {}", hex(k.as_bytes()), MRv::from_real(v).show())) && *ts < hwm).count();
                // the filter drops EVERY entry below the mark and nothing else
                let all_below = real.wal.iter().filter(|(ts, _)| *ts < hwm).count();
                let sig = if !lost { "C11:wal-hwm-filter:entry-dropped-but-covered" } else if below_hwm == dropped.len() && all_below == dropped.len() { "C11:wal-hwm-filter:update-lost" } else { "C11:wal:entry-of-surviving-file-not-recovered" };
                if lost {
                    out.violation(sig, "recover_with_wal does not return an entry that is present in a surviving WAL file (and no segment holds that update)",
                        json!({"layout": real.text, "high_water": hwm, "dropped": dropped}));
                } else {
                    out.count(&format!("oracle-info:{}", sig));
                }
            }
            // exactness of the fold w.r.t. store ∪ WAL when nothing was dropped
            let mut all: Vec<Upd> = persisted.to_vec();
            all.extend(wal.iter().cloned());
            if dropped.is_empty() && coherent(&all) && manifest_inv(&real.man) {
                let t = sorted_map(&fold_real(&all));
                let f = sorted_map(&fold_recovered(rs));
                if t != f {
                    out.violation("C11:wal-fold-differs-from-truth", "recover_with_wal: fold differs from the merge of store ∪ WAL", json!({"layout": real.text}));
                }
            }
        }
    }
}

pub fn run(a: &Args) {
    let mut out = Out::new(&a.out);
    let mut rng = Rng::new(a.seed);
    let rt = tokio::runtime::Builder::new_current_thread().enable_all().build().unwrap();
    rt.block_on(async {
        // corpus first (known findings must reproduce on every run)
        { let mark = out.n_ops(); if let Err(msg) = crate::c12::guarded(case(&mut out, &mut Rng::new(0xC11), Some("hwm"))).await { crate::c12::report_panic(&mut out, "C11", "corpus", "hwm", mark, &msg); } }
        { let mark = out.n_ops(); if let Err(msg) = crate::c12::guarded(case(&mut out, &mut Rng::new(0xC11), Some("chk-first"))).await { crate::c12::report_panic(&mut out, "C11", "corpus", "chk-first", mark, &msg); } }
        { let mark = out.n_ops(); if let Err(msg) = crate::c12::guarded(case(&mut out, &mut Rng::new(0xC11), Some("chk-tombstone"))).await { crate::c12::report_panic(&mut out, "C11", "corpus", "chk-tombstone", mark, &msg); } }
        for i in 0..a.n {
            let mut r = rng.fork();
            let mark = out.n_ops();
            if let Err(msg) = crate::c12::guarded(case(&mut out, &mut r, None)).await {
                crate::c12::report_panic(&mut out, "C11", "layout", &format!("seed {} case {}", a.seed, i), mark, &msg);
                // the model's state is unknown after a torn case: start the next one cleanly
            }
        }
    });
    let _: Value = json!(null);
    crate::stream_api::report(&mut out, "C11");
    out.finish("case = one generated update set (1..3 replicas × 1..16 shards, each (replica, shard) a real ShardReplicaState with its own Lamport clock, clocks started at 0/3/17/100/1000, remote stamps far ahead, LWW writes / deletes / hash writes / hash deletes on 6 colliding keys, 1/8 with type changes, 1/10 with structured random values) laid out twice into checkpoint / covered segments / 0..5 segments (updates duplicated 1/5, shuffled 1/2) through the real Manifest API, plus a WAL (2/3) and a missing-segment variant (1/8); distinct by the op text of both layouts; non-trivial iff the recovered fold has more than one key or more than two persisted updates, or a WAL is replayed");
}
