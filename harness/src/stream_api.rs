//! Entry points, message kinds and configuration fields of the streaming-persistence files anchored
//! by C11 / C12 / C13, ENUMERATED FROM THE SOURCE the binary was built against (the `redis-sim`
//! path dependency of harness/Cargo.toml), and how each is driven.  A `pub fn`, a message variant or
//! a config field that exists in the source and is not accounted for here fails the check with
//! `Cxx:coverage:entry-not-driven:<file>::<name>`; an entry of the table that no longer exists in the
//! source fails with `Cxx:coverage:stale-table-entry:…`; a file that cannot be scanned fails with
//! `Cxx:coverage:source-scan-failed:<file>`.
use crate::c12x::repo_dir;
use crate::out::Out;
use serde_json::json;
use std::collections::{BTreeMap, BTreeSet};

/// names found in one source file: `Type::fn` (pub fns, trait-impl fns of ObjectStore, and the private
/// task bodies of integration.rs), `enum Name::Variant`, `struct Name.field`
fn scan(file: &str) -> Option<BTreeSet<String>> {
    let src = std::fs::read_to_string(format!("{}/src/streaming/{}.rs", repo_dir(), file)).ok()?;
    let src = src.split("#[cfg(test)]\nmod tests").next().unwrap_or("").to_string();
    let mut names = BTreeSet::new();
    let mut cur: Option<String> = None; // current impl / enum / struct header
    let mut kind = ' ';
    for line in src.lines() {
        let t = line.trim_start();
        if !line.starts_with(' ') && !line.starts_with('}') && !t.is_empty() {
            // a top-level item
            let strip_generics = |s: &str| -> String {
                let mut out = String::new();
                let mut depth = 0;
                for c in s.chars() {
                    match c {
                        '<' => depth += 1,
                        '>' => depth -= 1,
                        _ if depth == 0 => out.push(c),
                        _ => {}
                    }
                }
                out
            };
            if let Some(rest) = line.strip_prefix("impl") {
                let h = strip_generics(rest).replace('{', "").trim().to_string();
                let h = h.split(" where").next().unwrap_or("").trim().to_string();
                cur = Some(h);
                kind = 'i';
            } else if let Some(rest) = line.strip_prefix("pub enum ") {
                cur = Some(rest.split(|c: char| !c.is_alphanumeric()).next().unwrap_or("").to_string());
                kind = 'e';
            } else if let Some(rest) = line.strip_prefix("pub struct ") {
                cur = Some(rest.split(|c: char| !c.is_alphanumeric()).next().unwrap_or("").to_string());
                kind = if line.trim_end().ends_with('{') { 's' } else { ' ' };
            } else if line.starts_with("pub trait ") || line.starts_with("struct ") || line.starts_with("enum ") || line.starts_with("pub mod") || line.starts_with("mod ") {
                cur = None;
                kind = ' ';
            }
            // free functions
            let f = t.strip_prefix("pub async fn ").or_else(|| t.strip_prefix("pub fn ")).or_else(|| t.strip_prefix("async fn ")).or_else(|| t.strip_prefix("fn "));
            if let Some(rest) = f {
                let n: String = rest.chars().take_while(|c| c.is_alphanumeric() || *c == '_').collect();
                let public = t.starts_with("pub");
                if public || (file == "integration" && (n == "run_delta_sink_bridge" || n == "spawn_persistence_actor")) {
                    names.insert(format!("fn {}", n));
                }
            }
            continue;
        }
        let one_level = line.starts_with("    ") && !line.starts_with("     ");
        if !one_level {
            continue;
        }
        match (kind, &cur) {
            ('i', Some(h)) => {
                let skip_impl = h.starts_with("std::fmt::Display for") || h.starts_with("From for") || h.starts_with("Default for") || h.starts_with("Clone for") || h.starts_with("std::error::Error for") || h.starts_with("std::ops::");
                if skip_impl {
                    continue;
                }
                let f = t.strip_prefix("pub async fn ").or_else(|| t.strip_prefix("pub fn ")).or_else(|| t.strip_prefix("async fn ")).or_else(|| t.strip_prefix("fn "));
                if let Some(rest) = f {
                    let n: String = rest.chars().take_while(|c| c.is_alphanumeric() || *c == '_').collect();
                    let public = t.starts_with("pub");
                    let trait_impl = h.contains(" for ");
                    let task_body = file == "integration" && h == "PersistenceActor" && n == "run";
                    if public || trait_impl || task_body {
                        let ty = h.split(" for ").last().unwrap_or(h).trim();
                        let ty = if trait_impl && h.starts_with("ObjectStore for") { ty.to_string() } else if trait_impl { format!("{}({})", ty, h.split(" for ").next().unwrap_or("")) } else { ty.to_string() };
                        names.insert(format!("{}::{}", ty, n));
                    }
                }
            }
            ('e', Some(h)) => {
                let n: String = t.chars().take_while(|c| c.is_alphanumeric()).collect();
                if !n.is_empty() && n.chars().next().unwrap().is_uppercase() {
                    names.insert(format!("enum {}::{}", h, n));
                }
            }
            ('s', Some(h)) => {
                if let Some(rest) = t.strip_prefix("pub ") {
                    let n: String = rest.chars().take_while(|c| c.is_alphanumeric() || *c == '_').collect();
                    if rest[n.len()..].starts_with(':') {
                        names.insert(format!("struct {}.{}", h, n));
                    }
                }
            }
            _ => {}
        }
    }
    Some(names)
}

/// (file, name) → how it is driven ("driven: …") or why it is not ("not-driven: …", "not-applicable: …")
fn coverage(file: &str, name: &str) -> Option<&'static str> {
    let d = |s: &'static str| Some(s);
    match (file, name) {
        // ---------------- persistence.rs (C12) ----------------
        ("persistence", "StreamingPersistence::new") => d("driven: c12x (start_workers constructs it; persistence-worker case)"),
        ("persistence", "StreamingPersistence::with_clock") => d("driven: every C12 / C13 process (SimulatedClock)"),
        ("persistence", "StreamingPersistence::push") => d("driven: PUSH (c12), XPUSH with back-pressure at / around the threshold (c12x), PushDeltas of the real actor"),
        ("persistence", "StreamingPersistence::should_flush") => d("driven: XSHOULD with size / count / interval just below, at, above (c12x); actor + worker loops"),
        ("persistence", "StreamingPersistence::flush") => d("driven: FLUSH / XFLUSH under every fault placement and at every crash point"),
        ("persistence", "StreamingPersistence::force_flush") => d("not-driven: one-line alias of flush()"),
        ("persistence", "StreamingPersistence::manifest") | ("persistence", "StreamingPersistence::stats") | ("persistence", "StreamingPersistence::manifest_manager") | ("persistence", "StreamingPersistence::store") | ("persistence", "StreamingPersistence::prefix") => d("not-applicable: read-only accessor (the manifest and the store are observed through the store image)"),
        ("persistence", "StreamingPersistence::pending_count") | ("persistence", "StreamingPersistence::pending_bytes") => d("driven: observed after every push / flush"),
        ("persistence", "PersistenceWorker::new") | ("persistence", "PersistenceWorker::run") | ("persistence", "PersistenceWorkerHandle::shutdown") => d("driven: c12x legacy_workers_case under the paused clock (XTICK / XFLUSHQ)"),
        ("persistence", n) if n.starts_with("enum PersistenceError::") => d("driven: flush errors are produced by store faults (Io / Manifest); WriteBuffer = back-pressure; Segment: serialisation cannot fail for the generated values"),
        ("persistence", n) if n.starts_with("struct PersistenceStats.") || n.starts_with("struct FlushResult.") => d("not-applicable: statistics / result record (deltas_flushed and segment are compared)"),
        // ---------------- integration.rs (C12; recover: C11) ----------------
        ("integration", "StreamingIntegration::new_in_memory") => d("not-driven: constructor = with_store(InMemoryObjectStore::new()); with_store is driven"),
        ("integration", "StreamingIntegration::new_local_fs") => d("driven: through create_integration(LocalFs) in c12fs localfs_pipeline"),
        ("integration", "StreamingIntegration::with_store") => d("driven: c12x actor cases (FaultStore), c11 APPLY / APPLY2"),
        ("integration", "StreamingIntegration::recover") => d("driven: c11 APPLY (vs model applyRecoveredState), c11x production start-up, c12fs restart on LocalFs"),
        ("integration", "StreamingIntegration::start_workers") => d("driven: c12x actor / capacity cases (model M4b), c12fs on LocalFs"),
        ("integration", "StreamingIntegration::store") | ("integration", "StreamingIntegration::config") => d("not-applicable: accessor"),
        ("integration", "fn create_integration") => d("driven: c12fs localfs_pipeline (LocalFs arm); the InMemory arm = new_in_memory; the S3 arm is feature-gated (not built)"),
        ("integration", "WorkerHandles::shutdown") => d("driven: every c12x actor case (ASTOPBRIDGE / AREQSHUTDOWN / ARUN)"),
        ("integration", "StreamingIntegrationWrapper(StreamingIntegrationTrait)::recover") | ("integration", "StreamingIntegrationWrapper(StreamingIntegrationTrait)::start_workers") => d("driven: the boxed integration of c12fs localfs_pipeline"),
        ("integration", "PersistenceActor::run") => d("driven: PushDeltas / Tick / Shutdown arms by the real pipeline (c12x); PushDelta / Flush arms have no producer outside the module (modelled: StreamActor.handle, proved: sink_conservation)"),
        ("integration", "fn run_delta_sink_bridge") | ("integration", "fn spawn_persistence_actor") => d("driven: through start_workers (bridge drain, tick with flush_interval 0, final drain at shutdown; mailbox capacity crossed once)"),
        ("integration", "PersistenceActorHandle::push_deltas") | ("integration", "PersistenceActorHandle::tick") | ("integration", "PersistenceActorHandle::shutdown") => d("driven: by the bridge / WorkerHandles::shutdown of the real pipeline"),
        ("integration", "PersistenceActorHandle::push_delta") | ("integration", "PersistenceActorHandle::flush") => d("not-driven: no caller in the crate and no public way to obtain a handle; modelled (Ev.reqPush / Ev.reqFlush) and covered by the theorems"),
        ("integration", "enum PersistenceMessage::PushDeltas") | ("integration", "enum PersistenceMessage::Tick") | ("integration", "enum PersistenceMessage::Shutdown") => d("driven: real pipeline (c12x)"),
        ("integration", "enum PersistenceMessage::PushDelta") | ("integration", "enum PersistenceMessage::Flush") => d("not-driven: no producer reachable from outside the module (see PersistenceActorHandle::push_delta / flush); modelled"),
        ("integration", n) if n.starts_with("enum IntegrationError::") => d("not-applicable: error wrapper (Recovery is produced by c11 APPLY on broken layouts)"),
        // ---------------- write_buffer.rs (C12) ----------------
        ("write_buffer", "WriteBuffer::new") | ("write_buffer", "WriteBuffer::push") | ("write_buffer", "WriteBuffer::should_flush") | ("write_buffer", "WriteBuffer::flush") | ("write_buffer", "WriteBuffer::pending_count") | ("write_buffer", "WriteBuffer::pending_bytes") => d("driven: c12x write_buffer_case (XWPUSH / XWSHOULD / XWFLUSH, faults) and the worker loops"),
        ("write_buffer", "WriteBuffer::stats") => d("not-applicable: statistics"),
        ("write_buffer", "FlushWorker::new") | ("write_buffer", "FlushWorker::run") | ("write_buffer", "FlushWorkerHandle::shutdown") => d("driven: c12x legacy_workers_case (XWTICK)"),
        ("write_buffer", n) if n.starts_with("enum WriteBufferError::") => d("driven: BackpressureExceeded (threshold cases), ObjectStore (faulted put); Serialization / Segment / LockError: not producible from generated input"),
        ("write_buffer", n) if n.starts_with("struct WriteBufferStats.") => d("not-applicable: statistics"),
        // ---------------- delta_sink.rs (C12) ----------------
        ("delta_sink", "DeltaSinkSender::send") | ("delta_sink", "DeltaSinkReceiver::try_recv") | ("delta_sink", "DeltaSinkReceiver::drain") | ("delta_sink", "fn delta_sink_channel") => d("driven: every c12x actor case (ASEND, incl. after the receiver is gone) and the sink worker"),
        ("delta_sink", "DeltaSinkReceiver::recv_timeout") => d("not-driven: no caller in the crate"),
        ("delta_sink", "PersistenceWorker::new") | ("delta_sink", "PersistenceWorker::run") | ("delta_sink", "PersistenceWorkerHandle::shutdown") => d("driven: c12x legacy_workers_case (sink → WriteBuffer)"),
        ("delta_sink", n) if n.starts_with("enum DeltaSinkError::") => d("driven: Disconnected (send after shutdown)"),
        // ---------------- object_store.rs (C12) ----------------
        ("object_store", n) if n.starts_with("InMemoryObjectStore::") && ["put", "get", "exists", "delete", "list", "rename", "head"].iter().any(|f| n.ends_with(&format!("::{}", f))) => d("driven: c12fs store_differential vs World ops; c11 layouts"),
        ("object_store", n) if n.starts_with("LocalFsObjectStore::") && ["put", "get", "exists", "delete", "list", "rename", "head"].iter().any(|f| n.ends_with(&format!("::{}", f))) => d("driven: c12fs store_differential vs World ops, crash images, workload, worker pipeline + restart"),
        ("object_store", "InMemoryObjectStore::new") | ("object_store", "LocalFsObjectStore::new") => d("driven: constructors"),
        ("object_store", "InMemoryObjectStore::len") | ("object_store", "InMemoryObjectStore::is_empty") | ("object_store", "InMemoryObjectStore::clear") | ("object_store", "LocalFsObjectStore::base_path") | ("object_store", "LocalFsObjectStore::temp") => d("not-applicable: test helper of the store"),
        ("object_store", n) if n.starts_with("enum ObjectStoreError::") => d("not-applicable: error type no streaming code constructs (the trait returns io::Error)"),
        ("object_store", n) if n.starts_with("struct ObjectMeta.") || n.starts_with("struct ListResult.") => d("driven: key (head / list) compared; size / timestamps / etag / continuation are not read by the modelled code"),
        // ---------------- config.rs ----------------
        ("config", "struct WriteBufferConfig.flush_interval") | ("config", "struct WriteBufferConfig.max_size_bytes") | ("config", "struct WriteBufferConfig.max_deltas") | ("config", "struct WriteBufferConfig.backpressure_threshold_bytes") => d("driven: generated incl. 0 / 1 / max and values at the comparisons (c12x gen_wb_cfg)"),
        ("config", "struct WriteBufferConfig.compression_enabled") | ("config", "struct CompactionConfig.compression_enabled") | ("config", "struct CheckpointConfig.compression_enabled") => d("driven: both values (generated / alternating); the `compression` feature is not built, so the flag must be behaviour-neutral here (Compression::None either way) — encoding is C14's"),
        ("config", "struct CompactionConfig.target_segment_size") | ("config", "struct CompactionConfig.min_segments_to_compact") | ("config", "struct CompactionConfig.max_segments_per_compaction") | ("config", "struct CompactionConfig.tombstone_ttl") => d("driven: c13 random_case (0, 1, huge, Duration::MAX, 2^63, 2^64+384 ms …)"),
        ("config", "struct CompactionConfig.max_segments") => d("driven: c13x if_needed_case (len-1 / len / len+1 / 0 / huge), worker_case; 0 = no worker in start_workers (c12x)"),
        ("config", "struct CheckpointConfig.interval") | ("config", "struct CheckpointConfig.min_segments") => d("driven: c11x SHOULDCHK (at the comparisons, Duration::MAX, 2^64+384 ms)"),
        ("config", "struct StreamingConfig.enabled") | ("config", "struct StreamingConfig.store_type") | ("config", "struct StreamingConfig.prefix") | ("config", "struct StreamingConfig.local_path") | ("config", "struct StreamingConfig.s3") | ("config", "struct StreamingConfig.write_buffer") | ("config", "struct StreamingConfig.checkpoint") | ("config", "struct StreamingConfig.compaction") | ("config", "struct StreamingConfig.wal") => d("driven: store_type / prefix / local_path / write_buffer / compaction.max_segments through create_integration + start_workers; enabled / wal / checkpoint are read by the server binary only"),
        ("config", n) if n.starts_with("enum ObjectStoreType::") => d("driven: InMemory and LocalFs (S3 is feature-gated)"),
        ("config", "StreamingConfig::local") | ("config", "StreamingConfig::test") | ("config", "WriteBufferConfig::test") | ("config", "WriteBufferConfig::high_throughput") | ("config", "CheckpointConfig::test") | ("config", "CompactionConfig::test") => d("not-applicable: preset constructor"),
        ("config", n) if n.starts_with("struct S3Config.") => d("not-applicable: feature-gated"),
        // ---------------- manifest.rs (C11) ----------------
        ("manifest", "Manifest::new") | ("manifest", "Manifest::add_segment") | ("manifest", "Manifest::compact_segments") | ("manifest", "Manifest::allocate_segment_id") => d("driven: c11 layouts through the manifest API (MADD / MCOMPACT / MALLOC)"),
        ("manifest", "Manifest::segments_after") | ("manifest", "Manifest::total_size_bytes") | ("manifest", "Manifest::total_record_count") => d("driven: c11x MSEGAFTER (stamps below / at / above)"),
        ("manifest", "Manifest::verify_invariants") => d("not-applicable: debug_assert helper (the invariant itself is ManifestInv, checked on every MADD / MCOMPACT line)"),
        ("manifest", "ManifestManager::new") | ("manifest", "ManifestManager::load_or_create") | ("manifest", "ManifestManager::save") => d("driven: every flush / compaction / recovery; MSAVE / MLOAD"),
        ("manifest", "ManifestManager::load") | ("manifest", "ManifestManager::update") | ("manifest", "ManifestManager::add_segment") => d("driven: c11x MMADD (both writers) then REC"),
        ("manifest", "ManifestManager::exists") => d("driven: needs_recovery (NEEDSREC, StreamingIntegration::recover)"),
        ("manifest", n) if n.starts_with("enum ManifestError::") => d("driven: Io / Json / NotFound by faults and torn objects; VersionConflict needs a concurrent writer (C13's race part)"),
        ("manifest", "struct SegmentInfo.id") | ("manifest", "struct SegmentInfo.key") | ("manifest", "struct SegmentInfo.record_count") | ("manifest", "struct SegmentInfo.size_bytes") | ("manifest", "struct SegmentInfo.min_timestamp") | ("manifest", "struct SegmentInfo.max_timestamp")
        | ("manifest", "struct CheckpointInfo.key") | ("manifest", "struct CheckpointInfo.timestamp_ms") | ("manifest", "struct CheckpointInfo.key_count") | ("manifest", "struct CheckpointInfo.last_segment_id")
        | ("manifest", "struct Manifest.version") | ("manifest", "struct Manifest.replica_id") | ("manifest", "struct Manifest.segments") | ("manifest", "struct Manifest.checkpoint") | ("manifest", "struct Manifest.next_segment_id") => d("driven: every field is printed by show_man / used by recovery (key, key_count: derived / informational)"),
        // ---------------- recovery.rs (C11) ----------------
        ("recovery", "RecoveryManager::new") | ("recovery", "RecoveryManager::recover") => d("driven: REC on every layout and every crash image"),
        ("recovery", "RecoveryManager::recover_with_progress") => d("driven: RECP + progress-callback oracle (c11x), StreamingIntegration::recover"),
        ("recovery", "RecoveryManager::needs_recovery") => d("driven: NEEDSREC"),
        ("recovery", "RecoveryManager::manifest_manager") => d("not-applicable: accessor"),
        ("recovery", "RecoveryManager::recover_with_wal") => d("driven: RECWAL / APPLYWAL"),
        ("recovery", n) if n.starts_with("enum RecoveryError::") => d("driven: Manifest / Segment / Io / Checkpoint each produced by torn / missing objects and read faults"),
        ("recovery", n) if n.starts_with("enum RecoveryPhase::") => d("driven: progress-callback oracle (NotStarted / ReplayingDeltas are never reported by the code)"),
        ("recovery", n) if n.starts_with("struct RecoveryProgress.") || n.starts_with("struct RecoveryStats.") || n.starts_with("struct RecoveredState.") => d("driven: checkpoint_state / deltas / manifest compared with the model; stats compared between recover and recover_with_progress"),
        // ---------------- checkpoint.rs (C11: manager part; format: C14) ----------------
        ("checkpoint", "CheckpointManager::new") => d("not-driven: = with_time_source(ProductionTimeSource)"),
        ("checkpoint", "CheckpointManager::with_time_source") | ("checkpoint", "CheckpointManager::create_checkpoint") | ("checkpoint", "CheckpointManager::load_checkpoint") => d("driven: half of the c11 checkpoints are written and read back through the manager"),
        ("checkpoint", "CheckpointManager::should_checkpoint") => d("driven: c11x SHOULDCHK vs Stream.shouldCheckpoint"),
        ("checkpoint", "CheckpointManager::config") => d("not-applicable: accessor"),
        ("checkpoint", n) if n.starts_with("CheckpointWriter::") || n.starts_with("CheckpointReader::") => d("driven: every checkpoint of c11 (format properties: C14)"),
        ("checkpoint", "CheckpointConfig::test") => d("not-applicable: preset constructor"),
        ("checkpoint", n) if n.starts_with("enum CheckpointError::") || n.starts_with("struct Checkpoint") => d("driven / C14: error classes by torn objects and read faults; header / footer fields are C14's"),
        // ---------------- compaction.rs (C13) ----------------
        ("compaction", "Compactor::new") => d("driven: c13 production_clock_witness (ProductionTimeSource)"),
        ("compaction", "Compactor::with_time_source") | ("compaction", "Compactor::compact") => d("driven: COMPACT on every layout, with faults, at every crash point, in every interleaving with flush"),
        ("compaction", "Compactor::needs_compaction") | ("compaction", "Compactor::compact_if_needed") => d("driven: c13x CNEEDS / CIFNEEDED (threshold just below / at / above)"),
        ("compaction", "Compactor::stats") | ("compaction", "Compactor::config") => d("not-applicable: accessor"),
        ("compaction", "CompactionWorker::new") | ("compaction", "CompactionWorker::run") | ("compaction", "CompactionWorkerHandle::shutdown") => d("driven: c13x worker_case under the paused clock"),
        ("compaction", "CompactionConfig::test") => d("not-applicable: preset constructor"),
        ("compaction", "struct CompactionConfig.compression_enabled") => d("driven: both values (alternating); the `compression` feature is not built: behaviour-neutral here"),
        ("compaction", "struct CompactionConfig.target_segment_size") | ("compaction", "struct CompactionConfig.max_segments") | ("compaction", "struct CompactionConfig.min_segments_to_compact") | ("compaction", "struct CompactionConfig.max_segments_per_compaction") | ("compaction", "struct CompactionConfig.tombstone_ttl") => d("driven: generated incl. extremes (c13 random_case, c13x max_segments)"),
        ("compaction", n) if n.starts_with("enum CompactionError::") => d("driven: NothingToCompact, Io, Manifest by configuration and faults; Segment: serialisation cannot fail for the generated values"),
        ("compaction", n) if n.starts_with("struct CompactionResult.") || n.starts_with("struct CompactionStats.") => d("driven: segments_removed / segment_created / deltas_after / tombstones_removed compared; byte counters not"),
        // ---------------- clock.rs (C12) ----------------
        ("clock", n) if n.starts_with("SimulatedClock") || n.starts_with("StreamingTimestamp") => d("driven: the virtual clock of c12x (advance_ms, now, has_elapsed at the comparison)"),
        ("clock", n) if n.starts_with("ProductionClock") => d("driven: the real pipeline (interval 0 / never)"),
        _ => None,
    }
}

fn files_of(prop: &str) -> &'static [&'static str] {
    match prop {
        "C11" => &["recovery", "manifest", "checkpoint"],
        "C12" => &["persistence", "integration", "write_buffer", "delta_sink", "object_store", "config", "clock"],
        "C13" => &["compaction"],
        _ => &[],
    }
}

/// every name the table knows for a file (to notice entries that went stale)
const ANCHORS: &[(&str, &str)] = &[
    ("persistence", "StreamingPersistence::flush"), ("persistence", "StreamingPersistence::push"), ("persistence", "StreamingPersistence::should_flush"),
    // only PUBLIC items: a private task body / helper (PersistenceActor::run, run_delta_sink_bridge) may be
    // renamed or inlined without changing behaviour — its absence is not a stale table
    ("integration", "StreamingIntegration::start_workers"), ("integration", "WorkerHandles::shutdown"), ("integration", "enum PersistenceMessage::PushDeltas"),
    ("write_buffer", "WriteBuffer::flush"), ("write_buffer", "FlushWorker::run"),
    ("delta_sink", "DeltaSinkSender::send"), ("delta_sink", "PersistenceWorker::run"),
    ("object_store", "LocalFsObjectStore::put"), ("object_store", "LocalFsObjectStore::rename"), ("object_store", "InMemoryObjectStore::put"),
    ("config", "struct WriteBufferConfig.backpressure_threshold_bytes"), ("config", "struct CompactionConfig.max_segments"),
    ("manifest", "ManifestManager::save"), ("manifest", "ManifestManager::update"), ("manifest", "Manifest::compact_segments"),
    ("recovery", "RecoveryManager::recover"), ("recovery", "RecoveryManager::recover_with_progress"), ("recovery", "RecoveryManager::recover_with_wal"),
    ("checkpoint", "CheckpointManager::create_checkpoint"), ("checkpoint", "CheckpointManager::should_checkpoint"),
    ("compaction", "Compactor::compact"), ("compaction", "Compactor::compact_if_needed"), ("compaction", "CompactionWorker::run"),
    ("clock", "SimulatedClock::advance_ms"),
];

/// every case kind of the extension must have run at least once (a silently skipped kind — an early
/// `return`, a generator that never picks a branch — is a hole, not a pass)
pub fn require_cells(out: &mut Out, prop: &str, cells: &[&str]) {
    for c in cells {
        if out.dist.get(*c).copied().unwrap_or(0) == 0 {
            out.violation(&format!("{}:coverage:case-kind-not-run:{}", prop, c), "a case kind of the harness did not run in this check (empty cell of the input distribution)", json!({"cell": c}));
        }
    }
}

/// the coverage self-audit against the eleven classes (DESIGN.md §4, "Coverage audit" of C11 / C12 / C13)
pub fn audit(prop: &str) -> serde_json::Value {
    match prop {
        "C11" => json!({
            "1 entry paths": "CLOSED: every pub fn / enum variant / struct field of recovery.rs, manifest.rs, checkpoint.rs enumerated from the source (stream_api.rs) and accounted for; newly driven: recover_with_progress (RECP + progress oracle), needs_recovery, ManifestManager::{load_or_create, add_segment, update, exists}, Manifest::{segments_after, totals}, CheckpointManager::{create_checkpoint, load_checkpoint, should_checkpoint}; the PRODUCTION start-up sequence (recover + apply, then WAL through a second apply_recovered_state) = APPLY2. OPEN: CheckpointManager::new (= with_time_source), accessors",
            "2 input alphabet": "CLOSED: keys '', non-ASCII, colliding; values empty / binary / hash / counter / set kinds (c07 generator 1/10), expiries, vector clocks; a 256 KiB value under a 4 KiB key through flush + every crash point (c12 corpus). OPEN: keys are Rust Strings (non-UTF-8 keys cannot be constructed)",
            "3 comparisons at equality": "CLOSED: add_segment id at / above next_segment_id (MMADD), checkpoint last_segment_id = / above next-1 (covering_checkpoint), segments_after at max_timestamp -1/0/+1, should_checkpoint at min_segments -1/0/+1 and at timestamp + interval -1/0/+1, recovery's `id > last` by covered segments, WAL truncate_before at a stamp -1/0/+1. OPEN: ties in min_timestamp between segments occur by duplication, not targeted",
            "4 configuration": "CLOSED: CheckpointConfig.interval / min_segments generated incl. 0, Duration::MAX, 2^64+384 ms (as u64 truncation modelled). compression_enabled both values (feature not built: behaviour-neutral)",
            "5 capacity thresholds": "OPEN: u64 ids / versions near overflow are not generated (Nat in the model); {:08} id formatting beyond 8 digits",
            "6 fault kinds": "CLOSED (s4: the same faults on recover_with_progress — the production start-up path; round-6 seed 'recover_with_progress skips validate()' was missed before): every get of a recovery fails / returns empty / truncated / flipped bodies (recover_under_read_faults), missing and torn segments, torn checkpoint; OPEN: WAL file-level faults are C09/C10's",
            "7 history shapes": "CLOSED: second recovery, second application, checkpoint before first flush, covered segments, WAL that went through truncate_before with interleaved stamps (middle file deleted: hole in the sequence) — round-5 seed C11-wal-replay-stops-at-sequence-hole; restart on LocalFs (c12fs)",
            "8 node-global state": "CLOSED: 16 shard clocks, per-shard split of recovered keys (router independent: theorem), hwm across segments",
            "9 observations": "CLOSED: deltas in order, checkpoint map, fold, applied node state (snapshot + GET/HGETALL), manifest fields incl. version / next / inv, recover_with_progress stats vs recover",
            "10 finding absorption": "CLOSED: dropped WAL entries signed by cause (hwm filter only when exactly the entries below the mark are gone; else C11:wal:entry-of-surviving-file-not-recovered)",
            "11 harness fragility": "CLOSED: every case under a panic guard (C11:case-panicked:*), source-derived paths, empty-cell assertions (require_cells), stale-table / unscannable-source violations"
        }),
        "C12" => json!({
            "1 entry paths": "CLOSED: persistence.rs, integration.rs, write_buffer.rs, delta_sink.rs, object_store.rs, config.rs, clock.rs enumerated from the source; newly driven: the REAL worker pipeline of start_workers (sink, bridge, bounded mailbox, actor; shutdown; compaction worker wiring), should_flush / back-pressure of push, WriteBuffer + FlushWorker + both PersistenceWorkers, LocalFsObjectStore (every trait fn), create_integration / new_local_fs, recover on LocalFs. OPEN: PersistenceMessage::{PushDelta, Flush} and PersistenceActorHandle::{push_delta, flush} have no producer reachable from outside the module (modelled and covered by the theorems, not driven); S3 (feature-gated)",
            "2 input alphabet": "CLOSED: key byte lengths 0..11 incl. multi-byte characters (estimate_delta_size reads len()), 256 KiB value / 4 KiB key / empty key and value through flush, torn put, compaction and every crash point",
            "3 comparisons at equality": "CLOSED: buffer_size >= max_size_bytes / backpressure_threshold_bytes (key length aimed at limit-1 / limit / limit+1), len >= max_deltas, has_elapsed with the clock advanced to interval-1 / interval / interval+1 ms incl. sub-millisecond intervals; mailbox length = capacity (10000 queued, the next try_send dropped)",
            "4 configuration": "CLOSED: all four WriteBufferConfig fields generated incl. 0 / 1 / usize::MAX / Duration::ZERO / Duration::MAX; StreamingConfig.compaction.* copied into the worker's config checked field by field (ACOMPACT); compression_enabled both values (feature not built: behaviour-neutral). OPEN: in the real pipeline only flush_interval 0 / 'never' are deterministic (real-time Instant in the bridge), the other intervals are tied through the step functions on the virtual clock",
            "5 capacity thresholds": "CLOSED: PERSISTENCE_CHANNEL_CAPACITY read from the source, compared with the model (XCAP) and crossed by a generated case. OPEN: usize overflow of buffer_size (checked_add panic) unreachable",
            "6 fault kinds": "CLOSED (s4: a SLOW store call — 1 ms .. 10 min of virtual time inside a flush, nothing fails: stall_case, oracle C12:workers:update-lost-by-slow-store; round-6 seed flush-timeout): error without effect and error after a torn object on every put (segment, temp manifest), get / rename / delete errors, read corruption kinds, death at every call; start_workers with an unreadable manifest; failed flushes inside the actor (retried by the next trigger, kept at shutdown). OPEN: LocalFs-specific errno classes (permission, ENOSPC) are not injected; power loss (no fsync in LocalFs put) is outside the property (process death)",
            "7 history shapes": "CLOSED (s4: 2-3 LIVES of the real start_workers pipeline — death at a store call / inside a put, clean shutdown, end of observation — each restarted with another configuration, compaction worker passes in and across lives; model M4c StreamNode, ops ALIFE / AHIST, oracle C12:lives:*): restart on every crash image that holds an orphan, restart of the worker pipeline on LocalFs, sends after shutdown, last batch left in the sink at shutdown, emptied-then-refilled buffer after failed flushes",
            "8 node-global state": "CLOSED: cached manifest vs store (reload per flush), shared temp-manifest name, the mailbox / sink shared by the three tasks. OPEN (stated): WriteBuffer's segment_counter restarts at 0 in a second incarnation and its segments are never listed by a manifest: recovery does not read that pipeline at all — only C12's third sentence applies to it",
            "9 observations": "CLOSED (s4: the manifest BYTES vs model M4j — MJENC — and the reader's verdict on EVERY single-bit flip of them — MJFLIPS — plus ~70 grammar variants per case — MJDEC): every field of the stored manifest (MAN / AMAN: version, replica id, next id, per segment id / count / size / min / max stamp, key derived from id), pending_count / pending_bytes after every push and flush, store-call count, recovered deltas, which updates are missing after shutdown",
            "10 finding absorption": "CLOSED: the defect found (fixed: ed7c4a2) was keyed by cause (WriteBuffer::flush returned Err and pending shrank), its witness is a corpus case that must pass; any other discarded accepted update = C12:write-buffer:accepted-update-discarded / C12:accepted-update-discarded (violations)",
            "11 harness fragility": "CLOSED: a process that cannot restart or recover on a crash image is a finding (was: expect → harness exit, round-5 seed C12-manifest-load-promotes-leftover-tmp), every case under a panic guard, scratch directories below the run's output directory and removed, empty-cell assertions, source-derived capacity / entry tables"
        }),
        "C13" => json!({
            "1 entry paths": "CLOSED: compaction.rs enumerated from the source; newly driven: needs_compaction, compact_if_needed, CompactionWorker::{new, run}, CompactionWorkerHandle::shutdown, Compactor::new through start_workers",
            "2 input alphabet": "CLOSED: as C11 (shared generators): hashes, tombstones, expiries, vector clocks, stamps near 2^63 and u64::MAX",
            "3 comparisons at equality": "CLOSED: segments.len() >= max_segments at len-1 / len / len+1, size_bytes < target_segment_size with the target at a listed segment's size -1/0/+1 (sizes from a dry run), time < tombstone_cutoff with the cutoff at a tombstone's stamp -1/0/+1 through several (now, ttl) pairs, candidates vs min_segments_to_compact / max_segments_per_compaction incl. 0 / 1 / huge",
            "4 configuration": "CLOSED: every CompactionConfig field generated incl. extremes (max_segments newly); compression_enabled both values (feature not built: behaviour-neutral)",
            "5 capacity thresholds": "OPEN: record_count as u32, u64 id overflow — unreachable sizes",
            "6 fault kinds": "CLOSED: one read of the pass failing / empty / truncated / flipped; store faults inside histories; panics of compact() caught and reported",
            "7 history shapes": "CLOSED: repeated compactions (compactions of compacted segments, 2..5 passes), compact and compact_if_needed mixed, failed flush in between, emptied-then-refilled manifest, worker passes separated by flushes; exactness oracle of history_exact after every pass",
            "8 node-global state": "CLOSED: manifest snapshot of the pass vs concurrent flush (all interleavings), the worker's compactor reused across passes",
            "9 observations": "CLOSED: recovered state before / after, CompactionResult fields, every manifest field after the pass (MAN), selection rule oracle",
            "10 finding absorption": "CLOSED (s4: tombstone-gc findings require the key in a listed segment OUTSIDE the pass, else C13:tombstone-gc:key-not-outside-the-pass:*; a pass that took every listed segment and changed the visible state = C13:full-pass:visible-state-differs, proved impossible: compaction_preserves_visible_full_pass): flush-race findings keyed by cause — the listed signatures require OVERLAPPING manifest read-modify-write sections (from task-tagged store-call logs); a violating schedule with serialized sections is a new violation (round-5 seed C13-compactor-sweeps-orphans…); tombstone-GC findings keyed by where the older value lives",
            "11 harness fragility": "CLOSED: corpus and every generated case under a panic guard, list / exists / head are scheduling points of the gated store, empty-cell assertions"
        }),
        _ => json!(null),
    }
}

pub fn report(out: &mut Out, prop: &str) {
    out.extra.insert("audit".into(), audit(prop));
    let mut table: BTreeMap<String, String> = BTreeMap::new();
    let (mut driven, mut not_driven, mut na) = (0u64, 0u64, 0u64);
    for file in files_of(prop) {
        let names = match scan(file) {
            Some(n) if !n.is_empty() => n,
            _ => {
                out.violation(&format!("{}:coverage:source-scan-failed:{}", prop, file), &format!("src/streaming/{}.rs of the tree this binary was built against could not be read or holds no item", file), json!({"repo_dir": repo_dir()}));
                continue;
            }
        };
        for (f, a) in ANCHORS {
            if f == file && !names.contains(*a) {
                out.violation(&format!("{}:coverage:stale-table-entry:{}::{}", prop, file, a), "an entry point the coverage table relies on is no longer found in the source (renamed / removed / the scanner no longer understands the file)", json!({"file": file, "name": a}));
            }
        }
        for n in &names {
            let key = format!("{}::{}", file, n);
            match coverage(file, n) {
                Some(c) => {
                    if c.starts_with("driven") {
                        driven += 1;
                    } else if c.starts_with("not-driven") {
                        not_driven += 1;
                    } else {
                        na += 1;
                    }
                    table.insert(key, c.to_string());
                }
                None => {
                    table.insert(key.clone(), "UNACCOUNTED".into());
                    out.violation(&format!("{}:coverage:entry-not-driven:{}", prop, key),
                        &format!("{} exists in src/streaming/{}.rs but the harness neither drives it nor lists why not (harness/src/stream_api.rs)", n, file),
                        json!({"file": file, "name": n}));
                }
            }
        }
    }
    match prop {
        "C12" => require_cells(out, prop, &[
            "x:case:step-functions", "x:case:write-buffer", "x:case:workers:interval-never", "x:case:workers:interval-zero",
            "x:case:workers:mailbox-capacity-crossed", "x:case:workers:start-fails-on-manifest-load-error", "x:case:workers:with-compaction-worker", "x:case:workers:slow-store",
            "x:case:legacy:persistence-worker", "j:case:variants", "j:case:flips:generated", "j:case:flips:typical", "x:case:prefix", "x:case:lives:2", "x:lives:end:death-at-call", "x:lives:end:clean-shutdown", "x:lives:compaction-pass", "x:case:legacy:flush-worker", "x:case:legacy:delta-sink-worker",
            "x:push:backpressure", "x:push:aimed-at-byte-threshold", "x:advance:aimed-at-interval", "x:flush:err", "x:should_flush:true", "x:should_flush:false",
            "x:actor:last-batch-drained-at-shutdown", "x:capacity:batches-dropped-by-full-mailbox",
            "fs:case:store-differential(InMemory,LocalFs,FaultStore vs model)", "fs:case:crash-images-on-LocalFs", "fs:case:workload-on-LocalFs-vs-InMemory",
            "fs:case:worker-pipeline-on-LocalFs+restart", "fs:prefix-checked:segment", "fs:prefix-checked:manifest", "fs:prefix-checked:checkpoint", "fs:crash-image-recovered-on-LocalFs",
        ]),
        "C13" => require_cells(out, prop, &[
            "hist:case:compact-if-needed", "hist:case:compaction-worker", "hist:case:emptied-then-refilled", "hist:checkpoint-between-compactions", "hist:exactness-checked",
            "ifneeded:max_segments:=len", "ifneeded:max_segments:=len-1", "ifneeded:max_segments:=len+1",
            "boundary:target-at-a-segment-size", "boundary:cutoff-at-a-tombstone-stamp", "interleaving:manifest-sections-overlap", "interleaving:manifest-sections-serialized",
        ]),
        "C11" => require_cells(out, prop, &[
            "x11:checkpoint-via-manager", "x11:manifest-manager:add_segment", "x11:manifest-manager:update", "x11:production-startup-sequence", "x11:recovery-entry-point-run-twice",
            "x11:should_checkpoint:min_segments:=len", "x11:should_checkpoint:min_segments:<len", "x11:should_checkpoint:min_segments:>len", "x11:covering-checkpoint(last>=next-1)", "wal:truncate:MIDDLE-file-deleted(hole in the sequence)", "wal:truncate:prefix-deleted", "wal:files=>=3",
        ]),
        _ => {}
    }
    out.count_n("coverage:entry-points:driven", driven);
    out.count_n("coverage:entry-points:not-driven(with reason)", not_driven);
    out.count_n("coverage:entry-points:not-applicable", na);
    out.extra.insert("entry_points(enumerated from the source this binary was built against)".into(), json!(table));
}
