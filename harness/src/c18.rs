//! C18 — anti-entropy: equal digests iff equal states; a sync leaves both sides merged.
//! Correspondence: real `KeyDigest::new`, `StateDigest::from_state`, `differs_from`,
//! `divergent_buckets`, `AntiEntropyManager::get_keys_in_buckets`, the message protocol
//! (`generate_digest` / `process_peer_digest` / `create_sync_request` / `handle_sync_request` + merge of
//! the response, bucket requests and full-state requests, both directions, several rounds) and
//! `MultiNodeSimulation::run_anti_entropy_sync` on real `HashMap<String, ReplicatedValue>` states
//! vs the model (`lean/RedisVerif/Model/AntiEntropy.lean`).  The model never hashes: the op lines
//! carry the real hash values (per key, per value projection, per hashed word stream) and the
//! REAL iteration order of every map at the moment it is digested / synced.
//! Oracle (on the real code only): equal states with differing digests, different states with
//! equal digests (any difference at all: the value hash covers the whole value), post-sync state != merge, a limit-starved sync that stops making progress.
//!
//! Note: `HashMap` iteration orders come from per-process `RandomState` keys and are not
//! reproducible across runs; the generated *contents* are deterministic in `--seed`.
use crate::c07::{random_value, reachable_pool};
use crate::enc::{hex, key_cmp, MCrdt, MRv};
use crate::out::Out;
use crate::rng::Rng;
use crate::Args;
use redis_sim::redis::SDS;
use redis_sim::replication::anti_entropy::{AntiEntropyConfig, AntiEntropyManager, KeyDigest, MerkleNode, StateDigest};
use redis_sim::replication::{ConsistencyLevel, ReplicaId, ReplicatedValue, ShardReplicaState};
use redis_sim::simulator::multi_node::MultiNodeSimulation;
use serde_json::json;
use std::collections::{BTreeMap, BTreeSet, HashMap};

type State = HashMap<String, ReplicatedValue>;

fn canon(s: &State) -> BTreeMap<String, MRv> {
    s.iter().map(|(k, v)| (k.clone(), MRv::from_real(v))).collect()
}

fn sorted_keys(s: &State) -> Vec<&String> {
    let mut ks: Vec<&String> = s.keys().collect();
    ks.sort_by(|a, b| key_cmp(a, b));
    ks
}

fn show_state(tag: &str, s: &State) -> String {
    let mut o = format!("{} {}", tag, s.len());
    for k in sorted_keys(s) {
        o.push_str(&format!(" {} {}", hex(k.as_bytes()), MRv::from_real(&s[k]).show()));
    }
    o
}

fn show_digest(d: &StateDigest) -> String {
    // non-empty buckets only: a digest of depth 18 has 262144 buckets
    format!(
        "root={} count={} maxts={} nb={} buckets={}",
        d.root_hash,
        d.key_count,
        d.max_timestamp,
        d.buckets.len(),
        d.buckets.iter().enumerate().filter(|(_, n)| n.hash != 0 || n.count != 0 || n.max_timestamp != 0)
            .map(|(i, n)| format!("{}:{}:{}:{}", i, n.hash, n.count, n.max_timestamp)).collect::<Vec<_>>().join(",")
    )
}

/// `S` line: the state in the map's REAL iteration order, with the real per-key hashes
fn op_state(out: &mut Out, slot: &str, depth: usize, s: &State) {
    let mut l = format!("S {} {} {}", slot, depth, s.len());
    for (k, v) in s.iter() {
        let d = KeyDigest::new(k, v);
        l.push_str(&format!(" {} {} {} {}", hex(k.as_bytes()), d.key_hash, d.value_hash, MRv::from_real(v).show()));
    }
    // a slot whose state AND iteration order are what the model was last told is not re-sent
    let fresh = LAST_STATE.with(|c| c.borrow_mut().insert(slot.to_string(), l.clone()).map(|old| old != l).unwrap_or(true));
    if fresh {
        out.op(l, format!("ok {} conflicts=0", s.len()));
    }
}

/// `W` line: the word streams the real code hashes for this state (bucket folds in iteration
/// order and in (key_hash, value_hash) order, and the root fold), each with its REAL hash
fn words_entries(s: &State, depth: usize, d: &StateDigest, acc: &mut Vec<(Vec<u64>, u64)>) {
    let nb = d.buckets.len(); // the depth in effect is the digest's (configured depths are capped)
    let mut buckets: Vec<Vec<KeyDigest>> = vec![Vec::new(); nb];
    for (k, v) in s.iter() {
        let kd = KeyDigest::new(k, v);
        if kd.bucket(depth) < nb {
            buckets[kd.bucket(depth)].push(kd);
        }
    }
    for ds in &buckets {
        if ds.is_empty() {
            continue;
        }
        let mut variants = vec![ds.clone()];
        let mut sorted = ds.clone();
        sorted.sort_by_key(|x| (x.key_hash, x.value_hash));
        variants.push(sorted);
        for v in variants {
            let words: Vec<u64> = v.iter().flat_map(|x| [x.key_hash, x.value_hash]).collect();
            acc.push((words, MerkleNode::from_digests(&v).hash));
        }
    }
    // root fold over the digest's real bucket nodes
    if !d.buckets.is_empty() {
        let mut c = d.buckets[0].clone();
        for n in &d.buckets[1..] {
            if acc.len() > 64 {
                break; // a sample (see op_words)
            }
            let c2 = MerkleNode::combine(&c, n);
            if !(c.count == 0 && n.count == 0) {
                acc.push((vec![c.hash, n.hash], c2.hash));
            }
            c = c2;
        }
    }
}

thread_local! {
    /// word streams already sent to the model since the last RESET (the real hash is a function:
    /// entries stay valid; deep digests have 2^18 fold steps, they are sent once)
    static EMITTED: std::cell::RefCell<std::collections::HashSet<Vec<u64>>> = std::cell::RefCell::new(std::collections::HashSet::new());
}

thread_local! {
    /// the last `S` line sent per slot since the last RESET
    static LAST_STATE: std::cell::RefCell<HashMap<String, String>> = std::cell::RefCell::new(HashMap::new());
}

/// the model's copy of a slot was changed by an op (SYNC / PULL / MAPPLY / …): the next `S` of
/// that slot is sent whatever it says
fn invalidate(slot: &str) {
    LAST_STATE.with(|c| { c.borrow_mut().remove(slot); });
}

fn op_reset(out: &mut Out) {
    EMITTED.with(|e| e.borrow_mut().clear());
    LAST_STATE.with(|c| c.borrow_mut().clear());
    out.op("RESET".into(), "ok".into());
}

fn op_words(out: &mut Out, entries: &[(Vec<u64>, u64)]) {
    let fresh: Vec<&(Vec<u64>, u64)> = EMITTED.with(|e| {
        let mut e = e.borrow_mut();
        entries.iter().filter(|(w, _)| e.insert(w.clone())).collect()
    });
    // the model hashes itself (SipHash-1-3 over the same words); the D lines compare every bucket
    // node and the root, so a sample of the word streams is enough here
    let entries: Vec<(Vec<u64>, u64)> = fresh.into_iter().take(24).cloned().collect();
    let entries = &entries[..];
    let mut seen = BTreeSet::new();
    let mut l = String::new();
    let mut m = 0;
    for (w, h) in entries {
        if seen.insert(w.clone()) {
            m += 1;
            l.push_str(&format!(" {}", w.len()));
            for x in w {
                l.push_str(&format!(" {}", x));
            }
            l.push_str(&format!(" {}", h));
        }
    }
    out.op(format!("W {}{}", m, l), "ok conflicts=0".into());
}

/// `SIP` lines: the real `DefaultHasher` on raw byte strings of every length 0..=40 (block
/// boundaries of SipHash at 7/8/9, 15/16/17, …) and on random longer ones — the model's `sip13`
/// must be the same function
fn op_sip(out: &mut Out, rng: &mut Rng, n: usize) {
    use std::hash::Hasher;
    for i in 0..n {
        let len = if i <= 40 { i } else { rng.range(41, 300) as usize };
        let bytes: Vec<u8> = (0..len).map(|_| match rng.below(4) { 0 => 0, 1 => 255, _ => rng.below(256) as u8 }).collect();
        let mut h = std::collections::hash_map::DefaultHasher::new();
        h.write(&bytes);
        out.op(format!("SIP {}", hex(&bytes)), h.finish().to_string());
        out.count("sip:raw-byte-strings");
    }
}

fn digest_of(s: &State, depth: usize) -> StateDigest {
    StateDigest::from_state(s, ReplicaId::new(1), 0, depth)
}

fn rand_key(rng: &mut Rng) -> String {
    if rng.chance(1, 25) {
        return match rng.below(5) {
            0 => "K".repeat(120),
            1 => "\u{10FFFF}\u{0}".into(),
            2 => "a".repeat(rng.range(1, 9) as usize), // keys that are prefixes of each other
            3 => "é€😀".into(),
            _ => String::new(),
        };
    }
    match rng.below(6) {
        0 => format!("k{}", rng.below(30)),
        1 => format!("user:{}", rng.below(1000)),
        2 => "é".repeat(rng.range(1, 2) as usize),
        3 => (0..rng.range(0, 12)).map(|_| (b'a' + rng.below(4) as u8) as char).collect(),
        4 => format!("{}", rng.next() % 100000),
        _ => format!("key_{}", rng.below(8)),
    }
}

/// plain values as `SET` / `DEL` produce them on a real replica
fn plain_value(rng: &mut Rng) -> ReplicatedValue {
    let mut s = ShardReplicaState::new(ReplicaId::new(rng.range(1, 3)), ConsistencyLevel::Eventual);
    for _ in 0..rng.below(3) {
        s.record_write("x".into(), SDS::from_str("tmp"), None);
    }
    let bytes: Vec<u8> = (0..rng.below(4)).map(|_| rng.below(3) as u8 + b'a').collect();
    let d = s.record_write("x".into(), SDS::new(bytes), None);
    if rng.chance(1, 5) {
        s.record_delete("x".into()).unwrap().value
    } else {
        d.value
    }
}

/// the extremes of every field a ReplicatedValue holds (input alphabet): empty / binary / large
/// payloads, u64::MAX stamps / counts / sequences / expiry, rf 0 and 255, empty and long and
/// multi-byte strings that are prefixes of each other, Some(empty) vs None
fn extreme_value(rng: &mut Rng) -> ReplicatedValue {
    use crate::enc::MLww;
    let num = |rng: &mut Rng| -> u64 { *rng.pick(&[0u64, 1, 255, 256, 65535, 1 << 32, (1 << 63) - 1, 1 << 63, u64::MAX - 1, u64::MAX]) };
    // Lamport times stay below u64::MAX: apply_remote_delta advances the receiver's clock to
    // max(local, remote) + 1 (the overflow of the clock itself is C08's subject, not the digest's)
    let time = |rng: &mut Rng| -> u64 { *rng.pick(&[0u64, 1, 255, 1 << 32, (1 << 63) - 1, 1 << 63, u64::MAX - 100_000]) };
    let bytes = |rng: &mut Rng| -> Vec<u8> {
        match rng.below(7) {
            0 => vec![],
            1 => vec![0],
            2 => vec![255],
            3 => (0..=255u8).collect(),
            4 => vec![b'x'; 4_100],
            5 => vec![255; 9],
            _ => (0..rng.range(1, 20)).map(|_| rng.below(256) as u8).collect(),
        }
    };
    let name = |rng: &mut Rng| -> String {
        match rng.below(10) {
            0 => String::new(),
            1 => "a".into(),
            2 => "aa".into(),
            3 => "aaa".into(),
            4 => "b".into(),
            5 => "é€😀".into(),
            6 => "\u{10FFFF}".into(),
            7 => "\u{7f}\u{0}".into(),
            8 => "n".repeat(100),
            _ => format!("{}{}", "é".repeat(rng.below(3) as usize), rng.below(3)),
        }
    };
    let lww = |rng: &mut Rng| -> MLww {
        let tomb = rng.chance(1, 3);
        MLww { v: if rng.chance(1, 4) { None } else { Some(bytes(rng)) }, t: time(rng), r: num(rng), tomb }
    };
    let map = |rng: &mut Rng| -> BTreeMap<u64, u64> { (0..rng.below(4)).map(|_| (num(rng), num(rng))).collect() };
    let crdt = match rng.below(6) {
        0 => MCrdt::Lww(lww(rng)),
        1 => MCrdt::G(map(rng)),
        2 => MCrdt::P(map(rng), map(rng)),
        3 => MCrdt::S((0..rng.below(6)).map(|_| name(rng)).collect()),
        4 => MCrdt::O((0..rng.below(5)).map(|_| (name(rng), (0..rng.range(1, 3)).map(|_| (num(rng), num(rng))).collect())).collect(), map(rng)),
        _ => MCrdt::H((0..rng.below(5)).map(|_| (name(rng), lww(rng))).collect()),
    };
    MRv {
        crdt,
        vc: match rng.below(3) { 0 => None, 1 => Some(BTreeMap::new()), _ => Some(map(rng)) },
        exp: match rng.below(3) { 0 => None, _ => Some(num(rng)) },
        t: time(rng),
        r: num(rng),
        rf: match rng.below(4) { 0 => None, 1 => Some(0), 2 => Some(255), _ => Some(rng.below(256) as u8) },
    }
    .to_real()
}

fn gen_value(rng: &mut Rng, pool: &[ReplicatedValue]) -> ReplicatedValue {
    if rng.chance(1, 12) {
        return extreme_value(rng);
    }
    match rng.below(10) {
        0..=4 => plain_value(rng),
        5..=6 => random_value(rng).to_real(),
        _ if !pool.is_empty() => rng.pick(pool).clone(),
        _ => plain_value(rng),
    }
}

/// a later state of the same value on another replica: one operation of the value's own kind
fn evolve_same_kind(rng: &mut Rng, m: &MRv) -> (MRv, &'static str) {
    let mut x = m.clone();
    let newer = m.t.saturating_add(rng.range(1, 5));
    let rid = rng.range(1, 3);
    let what = match &mut x.crdt {
        MCrdt::Lww(l) => {
            if rng.chance(1, 3) {
                *l = crate::enc::MLww { v: None, t: newer, r: rid, tomb: true };
                "lww:deleted"
            } else {
                *l = crate::enc::MLww { v: Some(format!("w{}", rng.below(9)).into_bytes()), t: newer, r: rid, tomb: false };
                "lww:overwritten"
            }
        }
        MCrdt::G(c) => {
            { let e = c.entry(rid).or_insert(0); *e = e.saturating_add(rng.range(1, 4)); }
            "gcounter:incremented"
        }
        MCrdt::P(p, n) => {
            { let e = if rng.chance(1, 2) { p.entry(rid).or_insert(0) } else { n.entry(rid).or_insert(0) }; *e = e.saturating_add(rng.range(1, 4)); }
            "pncounter:changed"
        }
        MCrdt::S(s) => {
            s.insert(format!("e{}", rng.below(9)));
            "gset:grown"
        }
        MCrdt::O(e, next) => {
            match rng.below(4) {
                0 if !e.is_empty() => {
                    // every element removed: no live element, the sequence counters stay
                    e.clear();
                    "orset:emptied"
                }
                1 if !e.is_empty() => {
                    let k = e.keys().nth(rng.below(e.len() as u64) as usize).unwrap().clone();
                    e.remove(&k);
                    "orset:element-removed"
                }
                2 => {
                    // an add that was removed again: only the counter moved
                    let c = next.entry(rid).or_insert(0);
                    *c = c.saturating_add(1);
                    "orset:counter-only"
                }
                _ => {
                    let c = next.entry(rid).or_insert(0);
                    let seq = *c;
                    *c = c.saturating_add(1);
                    e.entry(format!("e{}", rng.below(9))).or_default().insert((rid, seq));
                    "orset:element-added"
                }
            }
        }
        MCrdt::H(h) => {
            if !h.is_empty() && rng.chance(1, 3) {
                let k = h.keys().nth(rng.below(h.len() as u64) as usize).unwrap().clone();
                h.insert(k, crate::enc::MLww { v: None, t: newer, r: rid, tomb: true });
                "hash:field-deleted"
            } else {
                h.insert(format!("f{}", rng.below(6)), crate::enc::MLww { v: Some(b"x".to_vec()), t: newer, r: rid, tomb: false });
                "hash:field-written"
            }
        }
    };
    // a local write stamps the value
    if rng.chance(2, 3) {
        x.t = newer;
        x.r = rid;
    }
    (x, what)
}

fn build(content: &[(String, ReplicatedValue)], rng: &mut Rng) -> State {
    // fresh map (fresh RandomState), shuffled insertion order; some entries are inserted in two
    // steps (insert, then remove + re-insert as apply_remote_delta does)
    let mut idx: Vec<usize> = (0..content.len()).collect();
    rng.shuffle(&mut idx);
    let mut m: State = HashMap::new();
    for i in idx {
        let (k, v) = &content[i];
        if rng.chance(1, 4) {
            m.insert(k.clone(), v.clone());
            let old = m.remove(k).unwrap();
            m.insert(k.clone(), old.merge(v)); // merge(v, v) = v for well-formed v
            if MRv::from_real(&m[k]) != MRv::from_real(v) {
                m.insert(k.clone(), v.clone());
            }
        } else {
            m.insert(k.clone(), v.clone());
        }
    }
    m
}

/// which aspect of two different values the digest would have to see
fn diff_class(x: &MRv, y: &MRv) -> &'static str {
    if (x.t, x.r) != (y.t, y.r) {
        "stamp"
    } else if live(x) != live(y) {
        "live-bytes"
    } else if x.crdt != y.crdt {
        "crdt"
    } else if x.exp != y.exp {
        "expiry"
    } else if x.vc != y.vc {
        "vc"
    } else {
        "rf"
    }
}

fn live(x: &MRv) -> Option<Vec<u8>> {
    match &x.crdt {
        MCrdt::Lww(l) if !l.tomb => l.v.clone(),
        _ => None,
    }
}

/// property oracle on a pair of real states and their real digests
/// two expiry values for which `SET h v PX <e> @(1, r1)` gets the same `KeyDigest.value_hash`: a real
/// collision of SipHash-1-3 (zero key) on the byte stream `canonical_hash` writes, found by a
/// distinguished-point search; kernel-checked on the model (`RedisVerif.C18.sip13_value_hash_collision`)
const COLL_EXP_A: u64 = 7186234069774404105;
const COLL_EXP_B: u64 = 11093851672895297929;
const SRC_SIP_COLLISION: &str = "corpus: single key, values differ only in expiry_ms — a REAL SipHash-1-3 collision";

fn oracle_digests(out: &mut Out, a: &State, b: &State, da: &StateDigest, db: &StateDigest, depth: usize, src: &str) {
    let (ca, cb) = (canon(a), canon(b));
    let replay = |what: &str| {
        json!({"what": what, "depth": depth, "a": show_state("a", a), "b": show_state("b", b),
               "iteration_order_a": a.keys().collect::<Vec<_>>(), "iteration_order_b": b.keys().collect::<Vec<_>>(), "source": src})
    };
    if ca == cb {
        out.count("pair:equal-states");
        if da.differs_from(db) {
            out.violation("C18:digest:order-dependent",
                &format!("two equal states ({} keys, depth {}) have different digests: root {} vs {}", a.len(), depth, da.root_hash, db.root_hash),
                replay("equal states, different digests"));
        }
    } else {
        out.count("pair:different-states");
        if !da.differs_from(db) {
            // classify by the first difference the digest failed to see
            let mut class = "key-set";
            if ca.keys().eq(cb.keys()) {
                for (k, x) in &ca {
                    if *x != cb[k] {
                        class = diff_class(x, &cb[k]);
                        break;
                    }
                }
            }
            if src == SRC_SIP_COLLISION {
                // the ONE listed pair: the difference is hashed, SipHash-1-3 maps both byte streams to one value
                out.violation("C18:digest:false-in-sync:sip13-collision",
                    &format!("two states that differ in expiry_ms ({} vs {}) have equal digests (root {}): KeyDigest::new gives both values the value_hash {} — a collision of the 64-bit SipHash-1-3 (zero key)", COLL_EXP_A, COLL_EXP_B, da.root_hash,
                        a.iter().next().map(|(k, v)| KeyDigest::new(k, v).value_hash).unwrap_or(0)),
                    replay("different states, equal digests: hash collision"));
            } else {
                out.violation(&format!("C18:digest:false-in-sync:{}", class),
                    &format!("two different states have equal digests (root {}): the difference ({}) is invisible to KeyDigest::new", da.root_hash, class),
                    replay("different states, equal digests"));
            }
        }
    }
}

struct Pair {
    a: State,
    b: State,
    depth: usize,
}

/// emit S/W/D/CMP/G for a pair and evaluate the digest oracle; returns the real digests
fn digest_ops(out: &mut Out, rng: &mut Rng, p: &Pair, src: &str) -> (StateDigest, StateDigest) {
    let (da, db) = (digest_of(&p.a, p.depth), digest_of(&p.b, p.depth));
    op_reset(out);
    op_state(out, "a", p.depth, &p.a);
    op_state(out, "b", p.depth, &p.b);
    let mut w = Vec::new();
    words_entries(&p.a, p.depth, &da, &mut w);
    words_entries(&p.b, p.depth, &db, &mut w);
    op_words(out, &w);
    out.op("D a".into(), show_digest(&da));
    out.op("D b".into(), show_digest(&db));
    let div = da.divergent_buckets(&db);
    out.op("CMP a b".into(), format!("differs={} div={}", da.differs_from(&db) as u8, div.iter().map(|x| x.to_string()).collect::<Vec<_>>().join(",")));
    // get_keys_in_buckets on the divergent buckets / on random buckets, random limit
    for (slot, s) in [("a", &p.a), ("b", &p.b)] {
        let buckets: Vec<usize> = if rng.chance(1, 2) { div.clone() } else { (0..rng.below(4)).map(|_| rng.below(da.buckets.len() as u64) as usize).collect() };
        let limit = match rng.below(4) { 0 => 0, 1 => rng.range(1, 3) as usize, _ => 1000 };
        let mut mgr = AntiEntropyManager::new(ReplicaId::new(1), AntiEntropyConfig::default());
        mgr.config.merkle_tree_depth = p.depth;
        mgr.config.max_keys_per_sync = limit;
        let ds = mgr.get_keys_in_buckets(s, &buckets);
        let mut l = format!("G {} {} {}", slot, limit, buckets.len());
        for b in &buckets {
            l.push_str(&format!(" {}", b));
        }
        let mut a = "g".to_string();
        for d in &ds {
            a.push_str(&format!(" {}", hex(d.key.as_bytes())));
        }
        out.op(l, a);
    }
    // the simulator path answers in KEY order (fix dc1be9d): the same buckets and the same limit
    // on both maps; for two maps of the same state the answers must be identical, whatever the
    // two iteration orders are
    {
        // two thirds of the buckets (of the OCCUPIED ones plus a few empty ones when the tree is deep:
        // a bucket list of 2^18 entries is searched linearly per key by the code and by the model)
        let buckets: Vec<usize> = if da.buckets.len() <= 4096 {
            (0..da.buckets.len()).filter(|_| rng.chance(2, 3)).collect()
        } else {
            let mut v: Vec<usize> = (0..da.buckets.len()).filter(|i| da.buckets[*i].count > 0 || db.buckets[*i].count > 0).filter(|_| rng.chance(2, 3)).collect();
            for _ in 0..16 {
                v.push(rng.below(da.buckets.len() as u64) as usize);
            }
            v
        };
        let limit = match rng.below(3) { 0 => 1, 1 => rng.range(1, p.a.len().max(1) as u64) as usize, _ => 1000 };
        let mut mgr = AntiEntropyManager::new(ReplicaId::new(1), AntiEntropyConfig::default());
        mgr.config.merkle_tree_depth = p.depth;
        mgr.config.max_keys_per_sync = limit;
        let mut answers: Vec<Vec<String>> = Vec::new();
        for (slot, s) in [("a", &p.a), ("b", &p.b)] {
            let ks: Vec<String> = mgr.get_keys_in_buckets(s, &buckets).into_iter().map(|d| d.key).collect();
            let mut l = format!("G {} {} {}", slot, limit, buckets.len());
            for b in &buckets {
                l.push_str(&format!(" {}", b));
            }
            out.op(l, std::iter::once("g".to_string()).chain(ks.iter().map(|k| hex(k.as_bytes()))).collect::<Vec<_>>().join(" "));
            if !ks.windows(2).all(|w| w[0] < w[1]) {
                out.violation("C18:sim:response-not-in-key-order", "get_keys_in_buckets does not answer in ascending key order",
                    json!({"depth": p.depth, "limit": limit, "buckets": buckets, "answer": ks, "iteration_order": s.keys().collect::<Vec<_>>(), "source": src}));
            }
            answers.push(ks);
        }
        if canon(&p.a) == canon(&p.b) {
            out.count(if limit < p.a.len() { "sim-response:equal-states:limit<keys" } else { "sim-response:equal-states:limit>=keys" });
            if answers[0] != answers[1] {
                out.violation("C18:sim:response-depends-on-map-order",
                    &format!("get_keys_in_buckets (limit {}) answers {:?} for one map and {:?} for another map holding the same state: the answer depends on the HashMap iteration order", limit, answers[0], answers[1]),
                    json!({"depth": p.depth, "limit": limit, "buckets": buckets, "state": show_state("s", &p.a), "answer_a": answers[0], "answer_b": answers[1],
                           "iteration_order_a": p.a.keys().collect::<Vec<_>>(), "iteration_order_b": p.b.keys().collect::<Vec<_>>(), "source": src}));
            }
        }
    }
    // ONE bucket function: the bucket under which the DIGEST filed a key must be the bucket the key
    // FILTERS (get_keys_in_buckets / handle_sync_request, both `KeyDigest::bucket(config depth)`) use
    for (slot, s, d) in [("a", &p.a, &da), ("b", &p.b, &db)] {
        let mut mgr = AntiEntropyManager::new(ReplicaId::new(1), AntiEntropyConfig::default());
        mgr.config.merkle_tree_depth = p.depth;
        let dg = mgr.generate_digest(s);
        let mut by_filter_bucket: BTreeMap<usize, Vec<KeyDigest>> = BTreeMap::new();
        for (k, v) in s.iter() {
            let kd = KeyDigest::new(k, v);
            by_filter_bucket.entry(kd.bucket(p.depth)).or_default().push(kd);
        }
        let mut bad: Option<String> = None;
        let max_filter_bucket = by_filter_bucket.keys().next_back().cloned();
        if !dg.buckets.len().is_power_of_two() || (p.depth < 64 && dg.buckets.len() > 1usize << p.depth) || dg.root_hash != d.root_hash {
            bad = Some(format!("the digest has {} buckets for a configured depth of {}", dg.buckets.len(), p.depth));
        } else if max_filter_bucket.map(|b| b >= dg.buckets.len()).unwrap_or(false) {
            bad = Some(format!("the digest has {} buckets, but the key filters put a key into bucket {}", dg.buckets.len(), max_filter_bucket.unwrap()));
        } else {
            for (i, n) in dg.buckets.iter().enumerate() {
                let want = match by_filter_bucket.get(&i) {
                    None => MerkleNode::empty(),
                    Some(ds) => {
                        let mut ds = ds.clone();
                        ds.sort_by_key(|x| (x.key_hash, x.value_hash));
                        MerkleNode::from_digests(&ds)
                    }
                };
                if want.count != n.count || want.max_timestamp != n.max_timestamp || (want.hash != n.hash) {
                    bad = Some(format!("digest bucket {} is the node (hash {}, {} key(s)), the keys the filters put there give the node (hash {}, {} key(s))", i, n.hash, n.count, want.hash, want.count));
                    break;
                }
            }
        }
        // and the filter itself: asking for exactly one key's bucket returns that key
        if bad.is_none() {
            if let Some((k, v)) = s.iter().next() {
                let b = KeyDigest::new(k, v).bucket(p.depth);
                mgr.config.max_keys_per_sync = usize::MAX;
                let got = mgr.get_keys_in_buckets(s, &[b]);
                if !got.iter().any(|x| x.key == *k) || got.iter().any(|x| KeyDigest::new(&x.key, &x.value).bucket(p.depth) != b) {
                    bad = Some(format!("get_keys_in_buckets([{}]) does not return exactly the keys of that bucket", b));
                }
            }
        }
        out.count(&format!("bucket-function:depth{}:{}", if p.depth > 16 { ">16" } else { "<=16" }, if bad.is_none() { "consistent" } else { "MISMATCH" }));
        if let Some(why) = bad {
            out.violation("C18:bucket-function-mismatch",
                &format!("merkle_tree_depth = {}: {} — digest construction and key filters do not use the same bucket function", p.depth, why),
                json!({"merkle_tree_depth": p.depth, "slot": slot, "state": show_state(slot, s).chars().take(2000).collect::<String>(), "digest_buckets": dg.buckets.len(), "source": src}));
        }
    }
    oracle_digests(out, &p.a, &p.b, &da, &db, p.depth, src);
    // run-time check of the ideal-hash assumptions on the values actually used
    let mut kh: BTreeMap<u64, &String> = BTreeMap::new();
    let mut vh: BTreeMap<u64, MRv> = BTreeMap::new();
    for s in [&p.a, &p.b] {
        for (k, v) in s.iter() {
            let d = KeyDigest::new(k, v);
            let m = MRv::from_real(v);
            let c1 = kh.insert(d.key_hash, k).map(|o| o != k).unwrap_or(false);
            let prev = vh.insert(d.value_hash, m.clone());
            let c2 = prev.as_ref().map(|o| *o != m).unwrap_or(false);
            out.count(if c1 || c2 { "hash:collision-observed" } else { "hash:injective-on-used-values" });
            if c2 && src == SRC_SIP_COLLISION {
                // the ONE listed pair (reported as C18:digest:false-in-sync:sip13-collision by the digest oracle)
                out.count("hash:collision-observed:the-listed-sip13-collision");
            } else if c2 {
                // two different values with the same value hash: a single-key state holding one or
                // the other has the same digest (a false "in sync")
                let o = prev.unwrap();
                out.violation(&format!("C18:digest:value-hash-blind:{}", diff_class(&o, &m)),
                    &format!("KeyDigest::new gives two different values the same value_hash {} (they differ in: {})", d.value_hash, diff_class(&o, &m)),
                    json!({"key": k, "value_a": o.show(), "value_b": m.show(), "value_hash": d.value_hash, "source": src}));
            }
        }
    }
    (da, db)
}

/// one or several rounds of the REAL run_anti_entropy_sync with the given limit; emits the ops
/// and evaluates the sync oracle
fn sync_ops(out: &mut Out, p: Pair, limit: usize, max_rounds: usize, src: &str) {
    let depth = p.depth;
    let mut sim = MultiNodeSimulation::new(2, 1);
    for i in 0..2 {
        sim.nodes[i].anti_entropy.config.merkle_tree_depth = depth;
        sim.nodes[i].anti_entropy.config.max_keys_per_sync = limit;
    }
    sim.nodes[0].replica_state.replicated_keys = p.a;
    sim.nodes[1].replica_state.replicated_keys = p.b;
    let mut last_changed = true;
    let mut rounds = 0;
    for round in 0..max_rounds {
        let (a, b) = (&sim.nodes[0].replica_state.replicated_keys, &sim.nodes[1].replica_state.replicated_keys);
        let (pa, pb) = (a.clone(), b.clone()); // canonical copies of the pre-states (order irrelevant)
        let (da, db) = (digest_of(a, depth), digest_of(b, depth));
        if round > 0 && !da.differs_from(&db) {
            break;
        }
        op_state(out, "a", depth, a);
        op_state(out, "b", depth, b);
        let mut w = Vec::new();
        words_entries(a, depth, &da, &mut w);
        words_entries(b, depth, &db, &mut w);
        op_words(out, &w);
        let differs = da.differs_from(&db);
        let div = da.divergent_buckets(&db);
        let in_div = |k: &String, v: &ReplicatedValue| div.contains(&KeyDigest::new(k, v).bucket(depth));
        let pop_a = a.iter().filter(|(k, v)| in_div(k, v)).count();
        let pop_b = b.iter().filter(|(k, v)| in_div(k, v)).count();
        sim.run_anti_entropy_sync(0, 1);
        rounds += 1;
        let (na, nb) = (&sim.nodes[0].replica_state.replicated_keys, &sim.nodes[1].replica_state.replicated_keys);
        out.op(format!("SYNC {}", limit), format!("{} | {}", show_state("a", na), show_state("b", nb)));
        last_changed = canon(na) != canon(&pa) || canon(nb) != canon(&pb);
        if canon(na) != canon(&pa) { invalidate("a"); }
        if canon(nb) != canon(&pb) { invalidate("b"); }
        // a configured limit must let a sync make progress: the limit in effect is at least one key
        let eff = limit.max(1);
        // the answers run_anti_entropy_sync will request from both sides (the same public call)
        for (slot, st, pop) in [("a", &pa, pop_a), ("b", &pb, pop_b)] {
            let n = sim.nodes[0].anti_entropy.get_keys_in_buckets(st, &div).len();
            if differs && n != eff.min(pop) {
                out.violation("C18:sync:sim:response-incomplete",
                    &format!("get_keys_in_buckets answers {} key(s) of side {} although it holds {} key(s) in the divergent buckets and max_keys_per_sync = {}", n, slot, pop, limit),
                    json!({"path": "sim", "depth": depth, "limit": limit, "divergent_buckets": div, "state": show_state(slot, st), "source": src}));
            }
        }
        out.count(if eff >= pop_a.max(pop_b) { "sync:limit>=population" } else { "sync:limit<population" });
        // oracle: with a sufficient limit every key of a divergent bucket holds the merge on both sides
        if differs && !div.is_empty() && eff >= pop_a.max(pop_b) {
            let keys: BTreeSet<&String> = pa.keys().chain(pb.keys()).collect();
            for k in keys {
                let sample = pa.get(k).or(pb.get(k)).unwrap();
                let touched = in_div(k, sample);
                let (want_a, want_b) = match (pa.get(k), pb.get(k)) {
                    (Some(x), Some(y)) => (x.merge(y), y.merge(x)),
                    (Some(x), None) => (x.clone(), x.clone()),
                    (None, Some(y)) => (y.clone(), y.clone()),
                    _ => unreachable!(),
                };
                let replay = json!({"key": k, "depth": depth, "limit": limit, "a_before": pa.get(k).map(|v| MRv::from_real(v).show()), "b_before": pb.get(k).map(|v| MRv::from_real(v).show()),
                    "a_after": na.get(k).map(|v| MRv::from_real(v).show()), "b_after": nb.get(k).map(|v| MRv::from_real(v).show()), "source": src});
                if touched {
                    let ok_a = na.get(k).map(|v| MRv::from_real(v)) == Some(MRv::from_real(&want_a));
                    let ok_b = nb.get(k).map(|v| MRv::from_real(v)) == Some(MRv::from_real(&want_b));
                    if !ok_a || !ok_b {
                        out.violation("C18:sync:not-merged", "after a sync with limit >= bucket population a key of a divergent bucket does not hold merge(own, other)", replay.clone());
                    }
                    // "both hold THE merge": needs commutativity, claimed for tie-consistent pairs (C07)
                    if let (Some(x), Some(y)) = (pa.get(k), pb.get(k)) {
                        let (mx, my) = (MRv::from_real(x), MRv::from_real(y));
                        if mx.wf() && my.wf() && mx.tie_ok(&my) {
                            if na.get(k).map(MRv::from_real) != nb.get(k).map(MRv::from_real) {
                                out.violation("C18:sync:sides-differ-after-merge", "after a full sync the two sides hold different values for a tie-consistent pair", replay.clone());
                            }
                        } else {
                            out.count("excluded:sync:tie-inconsistent-pair");
                        }
                    }
                } else if na.get(k).map(MRv::from_real) != pa.get(k).map(MRv::from_real) || nb.get(k).map(MRv::from_real) != pb.get(k).map(MRv::from_real) {
                    out.violation("C18:sync:touched-non-divergent-bucket", "a sync changed a key outside the divergent buckets", replay);
                }
            }
        }
        if !last_changed {
            break;
        }
    }
    // oracle: finitely many rounds.  A round that changed nothing although the digests differ is a
    // fixpoint (under a stable iteration order): report it when real value differences remain in
    // a divergent bucket and the limit was the reason
    let (a, b) = (&sim.nodes[0].replica_state.replicated_keys, &sim.nodes[1].replica_state.replicated_keys);
    let (da, db) = (digest_of(a, depth), digest_of(b, depth));
    if !last_changed && da.differs_from(&db) {
        let div = da.divergent_buckets(&db);
        let left = undelivered(a, b);
        let pop = a.iter().filter(|(k, v)| div.contains(&KeyDigest::new(k, v).bucket(depth))).count()
            .max(b.iter().filter(|(k, v)| div.contains(&KeyDigest::new(k, v).bucket(depth))).count());
        if left.is_empty() {
            out.count("excluded:sync:non-commutative-merge-residue");
        } else if limit.max(1) < pop {
            out.violation("C18:sync:limit-starvation:sim:divergent-population>limit",
                &format!("run_anti_entropy_sync: after {} round(s) with max_keys_per_sync = {} the sync stopped making progress: {} key(s) undelivered, the divergent buckets hold {} keys and the same first {} are re-sent every round", rounds, limit, left.len(), pop, limit),
                json!({"depth": depth, "limit": limit, "rounds": rounds, "undelivered_keys": left, "a": show_state("a", a), "b": show_state("b", b),
                       "iteration_order_a": a.keys().collect::<Vec<_>>(), "iteration_order_b": b.keys().collect::<Vec<_>>(), "source": src}));
        } else {
            out.violation("C18:sync:sim:quiescent-not-converged",
                "run_anti_entropy_sync stopped changing anything although the limit covers the divergent buckets and deliverable differences remain",
                json!({"depth": depth, "limit": limit, "rounds": rounds, "undelivered_keys": left, "a": show_state("a", a), "b": show_state("b", b), "source": src}));
        }
    }
}


/// keys on which the two states still differ AND a delivery would change something (a key whose
/// two values absorb each other in both directions is a non-commutative merge residue — C07's
/// subject — not an undelivered key)
fn undelivered(a: &State, b: &State) -> Vec<String> {
    let (ca, cb) = (canon(a), canon(b));
    let keys: BTreeSet<&String> = ca.keys().chain(cb.keys()).collect();
    let mut res = Vec::new();
    for k in keys {
        if ca.get(k) == cb.get(k) {
            continue;
        }
        let deliverable = match (a.get(k), b.get(k)) {
            (Some(x), Some(y)) => MRv::from_real(&x.merge(y)) != MRv::from_real(x) || MRv::from_real(&y.merge(x)) != MRv::from_real(y),
            _ => true,
        };
        if deliverable {
            res.push(k.clone());
        }
    }
    res
}

/// the MESSAGE protocol between two real AntiEntropyManagers: per pull
/// generate_digest (both) -> process_peer_digest -> create_sync_request (bucket list or full
/// state) -> handle_sync_request -> the requester merges the response (apply_remote_delta);
/// a round = pull a<-b, then pull b<-a; rounds until quiescence or `max_rounds`
fn msg_ops(out: &mut Out, p: Pair, limit: usize, full: bool, max_rounds: usize, src: &str) {
    let depth = p.depth;
    let path = if full { "msg-full" } else { "msg-buckets" };
    let mk = |id: u64| {
        let mut m = AntiEntropyManager::new(ReplicaId::new(id), AntiEntropyConfig::default());
        m.config.merkle_tree_depth = depth;
        m.config.max_keys_per_sync = limit;
        m
    };
    let mut mgrs = vec![mk(1), mk(2)];
    let mut sts = vec![
        ShardReplicaState::new(ReplicaId::new(1), ConsistencyLevel::Eventual),
        ShardReplicaState::new(ReplicaId::new(2), ConsistencyLevel::Eventual),
    ];
    sts[0].replicated_keys = p.a;
    sts[1].replicated_keys = p.b;
    let mut rounds = 0;
    let mut quiescent = false;
    let mut over_limit_last_round = false;
    for _ in 0..max_rounds {
        let mut changed = false;
        over_limit_last_round = false;
        for ri in [0usize, 1] {
            let pi = 1 - ri;
            // the model is told both states in their real iteration order, and the real hashes
            op_state(out, "a", depth, &sts[0].replicated_keys);
            op_state(out, "b", depth, &sts[1].replicated_keys);
            let mut w = Vec::new();
            for i in 0..2 {
                words_entries(&sts[i].replicated_keys, depth, &digest_of(&sts[i].replicated_keys, depth), &mut w);
            }
            op_words(out, &w);
            let (pre_r, pre_p) = (sts[ri].replicated_keys.clone(), sts[pi].replicated_keys.clone());
            let ours = mgrs[ri].generate_digest(&sts[ri].replicated_keys);
            let theirs = mgrs[pi].generate_digest(&sts[pi].replicated_keys);
            let (rid, pid) = (mgrs[ri].replica_id, mgrs[pi].replica_id);
            let verdict = mgrs[ri].process_peer_digest(theirs.clone(), &ours);
            let replay = |what: &str, extra: serde_json::Value| {
                json!({"what": what, "path": path, "depth": depth, "limit": limit, "requester": if ri == 0 { "a" } else { "b" },
                       "requester_before": show_state("r", &pre_r), "responder": show_state("p", &pre_p),
                       "responder_iteration_order": pre_p.keys().collect::<Vec<_>>(), "detail": extra, "source": src})
            };
            let mut bad_envelope = mgrs[ri].divergent_peers.contains(&pid) != verdict.is_some();
            let (differs, div, resp_keys) = match verdict {
                None => (false, vec![], vec![]),
                Some(buckets) => {
                    let request = mgrs[ri].create_sync_request(pid, ours.clone(), if full { None } else { Some(buckets.clone()) }, 1000 * (rounds as u64 + 1));
                    bad_envelope |= request.from_replica != rid || request.to_replica != pid || request.digest.root_hash != ours.root_hash
                        || request.requested_buckets != if full { None } else { Some(buckets.clone()) };
                    let response = {
                        let (m, s) = (&mut mgrs[pi], &sts[pi].replicated_keys);
                        m.handle_sync_request(request, s)
                    };
                    bad_envelope |= response.from_replica != pid || response.digest.root_hash != theirs.root_hash || !mgrs[pi].divergent_peers.contains(&rid);
                    let keys: Vec<String> = response.deltas.iter().map(|d| d.key.clone()).collect();
                    for d in response.deltas {
                        bad_envelope |= d.source_replica != pid || pre_p.get(&d.key).map(MRv::from_real) != Some(MRv::from_real(&d.value));
                        sts[ri].apply_remote_delta(d);
                    }
                    (true, buckets, keys)
                }
            };
            let slot = if ri == 0 { "a" } else { "b" };
            out.op(
                format!("PULL {} {} {}", slot, full as u8, limit),
                format!("differs={} div={} resp={} | {}", differs as u8,
                    div.iter().map(|x| x.to_string()).collect::<Vec<_>>().join(","),
                    resp_keys.iter().map(|k| hex(k.as_bytes())).collect::<Vec<_>>().join(","),
                    show_state(slot, &sts[ri].replicated_keys)),
            );
            // ---- oracle for this pull
            if bad_envelope {
                out.violation(&format!("C18:sync:{}:envelope", path), "request / response envelope or divergent_peers bookkeeping is inconsistent with the digests", replay("envelope", json!({})));
            }
            let in_req = |k: &String| full || div.contains(&KeyDigest::new(k, &pre_p[k]).bucket(depth));
            let pop = pre_p.keys().filter(|k| in_req(k)).count();
            if differs {
                let configured_limit = limit;
                let limit = limit.max(1); // the limit in effect: at least one key per round
                out.count(&format!("{}:{}", path, if pop == 0 { "responder-has-nothing-requested" } else if pop < limit { "population<limit" } else if pop == limit { "population=limit" } else { "population>limit" }));
                over_limit_last_round |= pop > limit;
                let want = limit.min(pop);
                let distinct: BTreeSet<&String> = resp_keys.iter().collect();
                if resp_keys.len() < want {
                    out.violation(&format!("C18:sync:{}:response-incomplete", path),
                        &format!("handle_sync_request answered {} key(s) although the responder holds {} requested key(s) and max_keys_per_sync = {}: requested keys are withheld", resp_keys.len(), pop, configured_limit),
                        replay("response", json!({"requested_buckets": div, "answered": resp_keys})));
                }
                if resp_keys.len() > limit || distinct.len() != resp_keys.len() || resp_keys.iter().any(|k| !pre_p.contains_key(k) || !in_req(k)) {
                    out.violation(&format!("C18:sync:{}:response-outside-request", path), "the response exceeds the limit, repeats a key, or contains a key outside the requested buckets",
                        replay("response", json!({"requested_buckets": div, "answered": resp_keys})));
                }
            } else {
                out.count(&format!("{}:in-sync", path));
            }
            let now_r = &sts[ri].replicated_keys;
            let keys: BTreeSet<&String> = pre_r.keys().chain(pre_p.keys()).chain(now_r.keys()).collect();
            for k in keys {
                let want = if resp_keys.contains(k) {
                    match (pre_r.get(k), pre_p.get(k)) {
                        (Some(x), Some(y)) => Some(x.merge(y)),
                        (None, Some(y)) => Some(y.clone()),
                        (x, None) => x.cloned(),
                    }
                } else {
                    pre_r.get(k).cloned()
                };
                if want.as_ref().map(MRv::from_real) != now_r.get(k).map(MRv::from_real) {
                    out.violation(&format!("C18:sync:{}:not-merged", path), "after a pull a key does not hold merge(own, answered value) / an unanswered key changed",
                        replay("merge", json!({"key": k, "want": want.as_ref().map(|v| MRv::from_real(v).show()), "got": now_r.get(k).map(|v| MRv::from_real(v).show())})));
                    break;
                }
            }
            changed |= canon(&pre_r) != canon(now_r);
            if canon(&pre_r) != canon(now_r) { invalidate(slot); }
        }
        rounds += 1;
        if !changed {
            quiescent = true;
            break;
        }
    }
    // ---- outcome of the whole exchange
    let (a, b) = (&sts[0].replicated_keys, &sts[1].replicated_keys);
    let left = undelivered(a, b);
    if canon(a) == canon(b) {
        out.count(&format!("{}:converged", path));
    } else if left.is_empty() {
        out.count("excluded:sync:non-commutative-merge-residue");
    } else if !quiescent {
        out.count(&format!("{}:round-bound-reached", path));
    } else if over_limit_last_round {
        let cond = if full { "state-size>limit" } else { "requested-population>limit" };
        out.violation(&format!("C18:sync:limit-starvation:{}:{}", path, cond),
            &format!("message protocol, {} request: after {} round(s) with max_keys_per_sync = {} nothing changes any more although {} key(s) are undelivered — the responder's first {} {} keys are answered every round", if full { "full-state" } else { "bucket" }, rounds, limit, left.len(), limit, if full { "" } else { "requested-bucket" }),
            json!({"path": path, "depth": depth, "limit": limit, "rounds": rounds, "undelivered_keys": left, "a": show_state("a", a), "b": show_state("b", b),
                   "iteration_order_a": a.keys().collect::<Vec<_>>(), "iteration_order_b": b.keys().collect::<Vec<_>>(), "source": src}));
    } else {
        out.violation(&format!("C18:sync:{}:quiescent-not-converged", path),
            "the exchange stopped changing anything although every responder population was within the limit and deliverable differences remain",
            json!({"path": path, "depth": depth, "limit": limit, "rounds": rounds, "undelivered_keys": left, "a": show_state("a", a), "b": show_state("b", b), "source": src}));
    }
}

// ------------------------------------------------------------------------------------------------
// the AntiEntropyManager protocol as a state machine: three real managers, message registers
// (digests / requests / responses are VALUES that can be processed late, twice, or by another
// node), local writes between any two steps
// ------------------------------------------------------------------------------------------------

struct Sess {
    mgrs: Vec<AntiEntropyManager>,
    sts: Vec<ShardReplicaState>,
    depth: Vec<usize>,
    digs: BTreeMap<u64, StateDigest>,
    verdicts: BTreeMap<usize, Option<Vec<usize>>>,
    reqs: BTreeMap<u64, redis_sim::replication::anti_entropy::SyncRequest>,
    resps: BTreeMap<u64, redis_sim::replication::anti_entropy::SyncResponse>,
    now: u64,
}

const NODE: [&str; 3] = ["a", "b", "c"];

fn set_str(s: &std::collections::HashSet<ReplicaId>) -> String {
    let mut v: Vec<u64> = s.iter().map(|r| r.0).collect();
    v.sort();
    v.iter().map(|x| x.to_string()).collect::<Vec<_>>().join(",")
}

impl Sess {
    fn send_state(&self, out: &mut Out, n: usize) {
        op_state(out, NODE[n], self.depth[n], &self.sts[n].replicated_keys);
    }
    fn dig(&mut self, out: &mut Out, id: u64, n: usize) {
        self.send_state(out, n);
        let d = self.mgrs[n].generate_digest(&self.sts[n].replicated_keys);
        out.op(format!("MDIG {} {}", id, NODE[n]), format!("dg rid={} gen={} root={} count={} nb={}", d.replica_id.0, d.generation, d.root_hash, d.key_count, d.buckets.len()));
        self.digs.insert(id, d);
    }
    fn proc(&mut self, out: &mut Out, n: usize, id: u64) {
        let Some(pd) = self.digs.get(&id).cloned() else { return };
        self.send_state(out, n);
        let ours = self.mgrs[n].generate_digest(&self.sts[n].replicated_keys);
        let differs = ours.differs_from(&pd);
        let peer = pd.replica_id;
        let v = self.mgrs[n].process_peer_digest(pd, &ours);
        let vs = match &v { None => "none".to_string(), Some(l) => format!("div={}", l.iter().map(|x| x.to_string()).collect::<Vec<_>>().join(",")) };
        out.op(format!("MPROC {} {}", NODE[n], id), format!("proc {} dp={}", vs, set_str(&self.mgrs[n].divergent_peers)));
        if v.is_some() != differs || self.mgrs[n].divergent_peers.contains(&peer) != differs || !self.mgrs[n].peer_digests.contains_key(&peer) {
            out.violation("C18:session:process-peer-digest", "process_peer_digest: verdict / divergent_peers / peer_digests do not follow differs_from",
                json!({"node": NODE[n], "peer": peer.0, "differs": differs, "verdict": vs}));
        }
        self.verdicts.insert(n, v);
    }
    fn req(&mut self, out: &mut Out, id: u64, n: usize, peer: usize, full: bool) {
        self.send_state(out, n);
        self.now += 7;
        let ours = self.mgrs[n].generate_digest(&self.sts[n].replicated_keys);
        let buckets = if full { None } else { self.verdicts.get(&n).cloned().unwrap_or(None) };
        let pid = self.mgrs[peer].replica_id;
        let rq = self.mgrs[n].create_sync_request(pid, ours, buckets, self.now);
        let bs = match &rq.requested_buckets { None => "none".to_string(), Some(l) => l.iter().map(|x| x.to_string()).collect::<Vec<_>>().join(",") };
        out.op(format!("MREQ {} {} {} {} {}", id, NODE[n], pid.0, full as u8, self.now),
            format!("req from={} to={} buckets={} root={} gen={}", rq.from_replica.0, rq.to_replica.0, bs, rq.digest.root_hash, rq.digest.generation));
        self.reqs.insert(id, rq);
    }
    fn handle(&mut self, out: &mut Out, rid: u64, n: usize, qid: u64) {
        let Some(rq) = self.reqs.get(&qid).cloned() else { return };
        self.send_state(out, n);
        let requested = rq.requested_buckets.clone();
        let rs = self.mgrs[n].handle_sync_request(rq, &self.sts[n].replicated_keys);
        out.op(format!("MHANDLE {} {} {}", rid, NODE[n], qid),
            format!("resp from={} keys={} root={} dp={}", rs.from_replica.0, rs.deltas.iter().map(|d| hex(d.key.as_bytes())).collect::<Vec<_>>().join(","), rs.digest.root_hash, set_str(&self.mgrs[n].divergent_peers)));
        // oracle: the answer comes from the responder's CURRENT state, inside the request, within the limit
        let cur = &self.sts[n].replicated_keys;
        let limit = self.mgrs[n].config.max_keys_per_sync.max(1);
        let depth = self.depth[n];
        let in_req = |k: &String| match &requested { None => true, Some(b) => cur.get(k).map(|v| b.contains(&KeyDigest::new(k, v).bucket(depth))).unwrap_or(false) };
        let pop = cur.keys().filter(|k| in_req(k)).count();
        let bad = rs.deltas.iter().any(|d| cur.get(&d.key).map(MRv::from_real) != Some(MRv::from_real(&d.value)) || !in_req(&d.key) || d.source_replica != self.mgrs[n].replica_id)
            || rs.deltas.len() != limit.min(pop)
            || rs.deltas.iter().map(|d| &d.key).collect::<BTreeSet<_>>().len() != rs.deltas.len();
        if bad {
            out.violation("C18:session:response", "handle_sync_request: the answer is not min(limit, population) distinct entries of the responder's CURRENT state inside the requested buckets",
                json!({"responder": NODE[n], "requested_buckets": requested, "answered": rs.deltas.iter().map(|d| d.key.clone()).collect::<Vec<_>>(), "population": pop, "limit": limit, "state": show_state("s", cur)}));
        }
        self.resps.insert(rid, rs);
    }
    fn apply(&mut self, out: &mut Out, n: usize, rid: u64, what: &str) {
        let Some(rs) = self.resps.get(&rid).cloned() else { return };
        self.send_state(out, n);
        let pre = self.sts[n].replicated_keys.clone();
        let mut want = pre.clone();
        for d in &rs.deltas {
            let v = match want.get(&d.key) { Some(x) => x.merge(&d.value), None => d.value.clone() };
            want.insert(d.key.clone(), v);
        }
        for d in rs.deltas.clone() {
            self.sts[n].apply_remote_delta(d);
        }
        out.op(format!("MAPPLY {} {}", NODE[n], rid), show_state("s", &self.sts[n].replicated_keys));
        invalidate(NODE[n]);
        out.count(&format!("session:apply:{}", what));
        if canon(&want) != canon(&self.sts[n].replicated_keys) {
            out.violation("C18:session:not-merged", &format!("merging a response ({}) did not leave merge(current own, answered) on every answered key and everything else untouched", what),
                json!({"node": NODE[n], "what": what, "before": show_state("s", &pre), "answered": rs.deltas.iter().map(|d| (d.key.clone(), MRv::from_real(&d.value).show())).collect::<Vec<_>>(), "after": show_state("s", &self.sts[n].replicated_keys)}));
        }
    }
    fn write(&mut self, out: &mut Out, rng: &mut Rng, n: usize, pool: &[ReplicatedValue]) {
        // a local write between two protocol steps: a new key, a newer value, or a delete
        let st = &mut self.sts[n].replicated_keys;
        let k = if st.is_empty() || rng.chance(1, 3) { format!("w{}", rng.below(6)) } else { st.keys().nth(rng.below(st.len() as u64) as usize).unwrap().clone() };
        let v = gen_value(rng, pool);
        let nv = match st.get(&k) { Some(old) => old.merge(&v), None => v };
        st.insert(k, nv);
        self.mgrs[n].on_local_write();
        out.op(format!("MWRITE {}", NODE[n]), format!("gen={}", self.mgrs[n].generation));
        out.count("session:local-write-between-steps");
    }
    fn bookkeeping(&mut self, out: &mut Out, rng: &mut Rng, n: usize) {
        let peer = self.mgrs[rng.below(3) as usize].replica_id;
        if rng.chance(1, 4) {
            // a request to a peer that was never found divergent: last_sync_time gets an entry for a peer
            // that peers_needing_sync lists only when it is DUE
            let p = rng.below(3) as usize;
            if p != n {
                self.req(out, 900 + n as u64, n, p, true);
                out.count("session:request-to-a-non-divergent-peer");
            }
            return;
        }
        match rng.below(3) {
            0 => {
                // just below / at / just above `last + sync_interval_ms`, computed from the manager's real table
                let last = self.mgrs[n].last_sync_time.get(&peer).cloned();
                let interval = self.mgrs[n].config.sync_interval_ms;
                let now = match (last, rng.below(6)) {
                    (Some(t), 0) => t.saturating_add(interval).saturating_sub(1),
                    (Some(t), 1) => t.saturating_add(interval),
                    (Some(t), 2) => t.saturating_add(interval).saturating_add(1),
                    (Some(t), 3) => t,
                    (_, 4) => self.now.saturating_sub(rng.range(1, 50)),
                    _ => self.now + rng.range(0, 120),
                };
                out.count(if last.is_some() { "session:should_sync:peer-synced-before" } else { "session:should_sync:never-synced" });
                let m = &self.mgrs[n];
                let prev = std::panic::take_hook();
                std::panic::set_hook(Box::new(|_| {}));
                let r = std::panic::catch_unwind(std::panic::AssertUnwindSafe(|| m.should_sync(peer, now)));
                std::panic::set_hook(prev);
                out.op(format!("MDUE {} {} {}", NODE[n], peer.0, now), format!("due={}", match r { Ok(true) => "yes", Ok(false) => "no", Err(_) => "underflow" }));
                out.count(match r { Ok(_) => "session:should_sync", Err(_) => "session:should_sync:clock-went-backwards" });
            }
            1 => {
                self.mgrs[n].on_partition_healed(peer);
                out.op(format!("MHEAL {} {}", NODE[n], peer.0), format!("dp={}", set_str(&self.mgrs[n].divergent_peers)));
            }
            _ => {
                // at the boundary of the oldest / newest entry of last_sync_time
                let interval = self.mgrs[n].config.sync_interval_ms;
                let lasts: Vec<u64> = self.mgrs[n].last_sync_time.values().cloned().collect();
                let now = match (lasts.iter().max(), rng.below(5)) {
                    (Some(t), 0) => t.saturating_add(interval).saturating_sub(1),
                    (Some(t), 1) => t.saturating_add(interval),
                    (Some(t), 2) => t.saturating_add(interval).saturating_add(1),
                    (Some(t), 3) => *t,
                    _ => self.now + rng.range(0, 120),
                };
                let m = &self.mgrs[n];
                let prev = std::panic::take_hook();
                std::panic::set_hook(Box::new(|_| {}));
                let r = std::panic::catch_unwind(std::panic::AssertUnwindSafe(|| m.peers_needing_sync(now)));
                std::panic::set_hook(prev);
                let a = match r {
                    Ok(l) => {
                        let mut v: Vec<u64> = l.iter().map(|r| r.0).collect();
                        let distinct: BTreeSet<u64> = v.iter().cloned().collect();
                        if distinct.len() != v.len() {
                            out.violation("C18:session:peers-needing-sync:duplicate", "peers_needing_sync lists a peer twice", json!({"peers": v}));
                        }
                        v.sort();
                        format!("need {}", v.iter().map(|x| x.to_string()).collect::<Vec<_>>().join(","))
                    }
                    Err(_) => "need underflow".to_string(),
                };
                out.op(format!("MNEED {} {}", NODE[n], now), a);
            }
        }
        // the never-produced queues stay empty
        if !self.mgrs[n].drain_requests().is_empty() || !self.mgrs[n].drain_responses().is_empty() {
            out.violation("C18:session:pending-queues", "pending_requests / pending_responses are not empty although nothing produces them", json!({}));
        }
    }
}

#[derive(Clone, Debug)]
enum Step {
    Dig(u64, usize),
    Proc(usize, u64),
    Req(u64, usize, usize, bool),
    Handle(u64, usize, u64),
    Apply(usize, u64, &'static str),
    Write(usize),
    Book(usize),
}

/// one pull r <- p as a flow of message steps, with optional local writes in every gap, an
/// optional duplicate / misdelivered application
fn flow(rng: &mut Rng, base: u64, r: usize, p: usize, full: bool) -> Vec<Step> {
    let mut v = vec![Step::Dig(base, p)];
    let gap = |rng: &mut Rng, v: &mut Vec<Step>| {
        if rng.chance(1, 3) {
            v.push(Step::Write(rng.below(3) as usize));
        }
        if rng.chance(1, 5) {
            v.push(Step::Book(rng.below(3) as usize));
        }
    };
    gap(rng, &mut v);
    v.push(Step::Proc(r, base));
    gap(rng, &mut v);
    v.push(Step::Req(base, r, p, full));
    gap(rng, &mut v);
    v.push(Step::Handle(base, p, base));
    gap(rng, &mut v);
    v.push(Step::Apply(r, base, "in-order"));
    if rng.chance(1, 3) {
        gap(rng, &mut v);
        v.push(Step::Apply(r, base, "duplicate"));
    }
    if rng.chance(1, 6) {
        v.push(Step::Apply(3 - r - p, base, "third-node")); // the response reaches the node it was not meant for
    }
    if rng.chance(1, 6) {
        v.push(Step::Handle(base + 1, p, base)); // the request is answered a second time, later
        v.push(Step::Apply(r, base + 1, "late-second-answer"));
    }
    v
}

fn session_ops(out: &mut Out, rng: &mut Rng, contents: [Vec<(String, ReplicatedValue)>; 3], depths: [usize; 3], limit: usize, pool: &[ReplicatedValue], src: &str) {
    op_reset(out);
    let interval = *rng.pick(&[0u64, 10, 100, u64::MAX]);
    let auto = rng.chance(3, 4);
    let mut se = Sess { mgrs: vec![], sts: vec![], depth: depths.to_vec(), digs: BTreeMap::new(), verdicts: BTreeMap::new(), reqs: BTreeMap::new(), resps: BTreeMap::new(), now: 1000 };
    for n in 0..3 {
        let cfg = AntiEntropyConfig { sync_interval_ms: interval, max_keys_per_sync: limit, merkle_tree_depth: depths[n], auto_sync_on_heal: auto };
        se.mgrs.push(AntiEntropyManager::new(ReplicaId::new(n as u64 + 1), cfg));
        let mut st = ShardReplicaState::new(ReplicaId::new(n as u64 + 1), ConsistencyLevel::Eventual);
        st.replicated_keys = build(&contents[n], rng);
        se.sts.push(st);
        out.op(format!("MNEW {} {} {} {} {} {}", NODE[n], n + 1, depths[n], limit, interval, auto as u8), "ok".into());
        se.send_state(out, n);
    }
    out.count(if depths[0] == depths[1] && depths[1] == depths[2] { "session:same-depth" } else { "session:depth-mismatch-between-peers" });
    // two or three flows, interleaved (each keeps its own order): concurrent syncs with several peers
    let nflows = rng.range(2, 3) as usize;
    let mut flows: Vec<Vec<Step>> = (0..nflows).map(|i| {
        let r = rng.below(3) as usize;
        let p = (r + 1 + rng.below(2) as usize) % 3;
        let full = rng.chance(1, 4);
        flow(rng, 10 * (i as u64 + 1), r, p, full)
    }).collect();
    let mut script = Vec::new();
    while flows.iter().any(|f| !f.is_empty()) {
        let i = rng.below(flows.len() as u64) as usize;
        if !flows[i].is_empty() {
            script.push(flows[i].remove(0));
        }
    }
    for st in script {
        match st {
            Step::Dig(id, n) => se.dig(out, id, n),
            Step::Proc(n, id) => se.proc(out, n, id),
            Step::Req(id, n, p, full) => se.req(out, id, n, p, full),
            Step::Handle(rid, n, qid) => se.handle(out, rid, n, qid),
            Step::Apply(n, rid, what) => se.apply(out, n, rid, what),
            Step::Write(n) => se.write(out, rng, n, pool),
            Step::Book(n) => se.bookkeeping(out, rng, n),
        }
    }
    // ---- clean-up: full-state pulls in every direction with an ample limit until nothing changes;
    // every pair of nodes then holds the same state (tie-consistent well-formed values)
    for m in se.mgrs.iter_mut() {
        m.config.max_keys_per_sync = usize::MAX;
    }
    let mut id = 1000u64;
    for _round in 0..4 {
        let before: Vec<_> = se.sts.iter().map(|s| canon(&s.replicated_keys)).collect();
        for r in 0..3 {
            for p in 0..3 {
                if r != p {
                    id += 1;
                    let rq = {
                        let ours = se.mgrs[r].generate_digest(&se.sts[r].replicated_keys);
                        let pid = se.mgrs[p].replica_id;
                        se.mgrs[r].create_sync_request(pid, ours, None, 5000)
                    };
                    let rs = { let (m, s) = (&mut se.mgrs[p], &se.sts[p].replicated_keys); m.handle_sync_request(rq, s) };
                    for d in rs.deltas {
                        se.sts[r].apply_remote_delta(d);
                    }
                }
            }
        }
        if before == se.sts.iter().map(|s| canon(&s.replicated_keys)).collect::<Vec<_>>() {
            break;
        }
    }
    let _ = id;
    let all_equal = canon(&se.sts[0].replicated_keys) == canon(&se.sts[1].replicated_keys) && canon(&se.sts[1].replicated_keys) == canon(&se.sts[2].replicated_keys);
    if all_equal {
        out.count("session:converged-after-cleanup");
    } else if undelivered(&se.sts[0].replicated_keys, &se.sts[1].replicated_keys).is_empty() && undelivered(&se.sts[1].replicated_keys, &se.sts[2].replicated_keys).is_empty() && undelivered(&se.sts[0].replicated_keys, &se.sts[2].replicated_keys).is_empty() {
        out.count("excluded:sync:non-commutative-merge-residue");
    } else {
        out.violation("C18:session:not-converged-after-cleanup", "after the session, unlimited full-state pulls in every direction do not bring the three nodes to one state",
            json!({"a": show_state("a", &se.sts[0].replicated_keys), "b": show_state("b", &se.sts[1].replicated_keys), "c": show_state("c", &se.sts[2].replicated_keys), "source": src}));
    }
}

/// `run_full_anti_entropy` over three connected simulator nodes, and `heal_partition` (a sync iff
/// the pair was partitioned and auto_anti_entropy is on)
fn sim3_ops(out: &mut Out, rng: &mut Rng, contents: [Vec<(String, ReplicatedValue)>; 3], depth: usize, limit: usize, src: &str) {
    op_reset(out);
    let mut sim = MultiNodeSimulation::new(3, 7);
    for i in 0..3 {
        sim.nodes[i].anti_entropy.config.merkle_tree_depth = depth;
        sim.nodes[i].anti_entropy.config.max_keys_per_sync = limit;
        sim.nodes[i].replica_state.replicated_keys = build(&contents[i], rng);
        op_state(out, NODE[i], depth, &sim.nodes[i].replica_state.replicated_keys);
    }
    // heal_partition first (on a, b)
    let was = rng.chance(2, 3);
    let auto = rng.chance(2, 3);
    sim.auto_anti_entropy = auto;
    if was {
        if rng.chance(1, 2) { sim.partition(0, 1) } else { sim.partition(1, 0) }
    }
    let pre = (canon(&sim.nodes[0].replica_state.replicated_keys), canon(&sim.nodes[1].replica_state.replicated_keys));
    let syncs0 = sim.anti_entropy_syncs;
    if rng.chance(1, 2) { sim.heal_partition(0, 1) } else { sim.heal_partition(1, 0) }
    invalidate("a");
    invalidate("b");
    out.op(format!("HEAL {} {} {}", was as u8, auto as u8, limit),
        format!("{} | {}", show_state("a", &sim.nodes[0].replica_state.replicated_keys), show_state("b", &sim.nodes[1].replica_state.replicated_keys)));
    out.count(&format!("sim3:heal:was-partitioned={}:auto={}", was as u8, auto as u8));
    let changed = pre != (canon(&sim.nodes[0].replica_state.replicated_keys), canon(&sim.nodes[1].replica_state.replicated_keys));
    if (changed || sim.anti_entropy_syncs != syncs0) && !(was && auto) {
        out.violation("C18:sim:heal-syncs-unasked", "heal_partition ran an anti-entropy sync although the pair was not partitioned / auto_anti_entropy is off", json!({"was_partitioned": was, "auto": auto, "source": src}));
    }
    if !sim.can_communicate(0, 1) {
        out.violation("C18:sim:heal-leaves-partition", "after heal_partition the two nodes still cannot communicate", json!({"source": src}));
    }
    // run_full_anti_entropy: all three pairs
    for i in 0..3 {
        op_state(out, NODE[i], depth, &sim.nodes[i].replica_state.replicated_keys);
    }
    let pre: Vec<State> = (0..3).map(|i| sim.nodes[i].replica_state.replicated_keys.clone()).collect();
    sim.run_full_anti_entropy();
    for n in NODE { invalidate(n); }
    out.op(format!("SYNC3 {}", limit), (0..3).map(|i| show_state(NODE[i], &sim.nodes[i].replica_state.replicated_keys)).collect::<Vec<_>>().join(" | "));
    out.count("sim3:run_full_anti_entropy");
    // oracle: with an ample limit one full pass leaves every key present anywhere on all three
    // nodes holding the merge of everything (tie-consistent well-formed values)
    let pop: usize = pre.iter().map(|s| s.len()).max().unwrap_or(0);
    if limit.max(1) >= 2 * pop + 2 {
        let keys: BTreeSet<&String> = pre.iter().flat_map(|s| s.keys()).collect();
        for k in keys {
            let vals: Vec<MRv> = pre.iter().filter_map(|s| s.get(k)).map(MRv::from_real).collect();
            // three-way merging needs associativity: claimed by C07 within one CRDT kind only
            let ok_pair = vals.iter().all(|x| x.wf()) && vals.iter().all(|x| vals.iter().all(|y| x.tie_ok(y) && x.crdt.kind_name() == y.crdt.kind_name()));
            if !ok_pair {
                out.count("excluded:sync:tie-inconsistent-or-cross-kind-triple");
                continue;
            }
            // a second pass reaches the fixpoint of three-way merging; after it all nodes must agree
            let mut sim2_vals: Vec<Option<MRv>> = (0..3).map(|i| sim.nodes[i].replica_state.replicated_keys.get(k).map(MRv::from_real)).collect();
            sim2_vals.dedup();
            // (a,b), (a,c), (b,c): after the second pair a and c hold all three values, after the third b too
            if sim2_vals.len() != 1 {
                out.violation("C18:sim3:not-merged-after-full-pass", &format!("after run_full_anti_entropy with an ample limit the three nodes hold different values for key {:?}", k),
                    json!({"key": k, "before": pre.iter().map(|s| s.get(k).map(|v| MRv::from_real(v).show())).collect::<Vec<_>>(),
                           "after": (0..3).map(|i| sim.nodes[i].replica_state.replicated_keys.get(k).map(|v| MRv::from_real(v).show())).collect::<Vec<_>>(), "limit": limit, "depth": depth, "source": src}));
            }
        }
    }
}

fn rv_lww(bytes: &[u8], t: u64, r: u64) -> ReplicatedValue {
    MRv { crdt: MCrdt::Lww(crate::enc::MLww { v: Some(bytes.to_vec()), t, r, tomb: false }), vc: None, exp: None, t, r, rf: None }.to_real()
}

/// a corpus case that needs a particular iteration order is retried with fresh maps; not finding
/// one in 200 tries is reported, never skipped silently
fn corpus_built(out: &mut Out, built: bool, what: &str) {
    out.count(if built { "corpus:case-constructed" } else { "corpus:CASE-NOT-CONSTRUCTED" });
    if !built {
        out.violation("C18:harness:corpus-case-not-constructed", &format!("the corpus case `{}` could not be constructed in 200 tries (HashMap iteration orders): the witness did not run", what), json!({"case": what}));
    }
}

/// should_sync / peers_needing_sync exactly at `last request + sync_interval_ms`, one below, one
/// above — for a peer that is NOT marked divergent (a divergent peer is listed whatever the time)
fn corpus_bookkeeping(out: &mut Out) {
    for interval in [0u64, 1, 10, 1000] {
        op_reset(out);
        let mut se = Sess { mgrs: vec![], sts: vec![], depth: vec![1; 3], digs: BTreeMap::new(), verdicts: BTreeMap::new(), reqs: BTreeMap::new(), resps: BTreeMap::new(), now: 5000 };
        for n in 0..3 {
            let cfg = AntiEntropyConfig { sync_interval_ms: interval, max_keys_per_sync: 10, merkle_tree_depth: 1, auto_sync_on_heal: n != 2 };
            se.mgrs.push(AntiEntropyManager::new(ReplicaId::new(n as u64 + 1), cfg));
            se.sts.push(ShardReplicaState::new(ReplicaId::new(n as u64 + 1), ConsistencyLevel::Eventual));
            out.op(format!("MNEW {} {} 1 10 {} {}", NODE[n], n + 1, interval, (n != 2) as u8), "ok".into());
            se.send_state(out, n);
        }
        se.req(out, 1, 0, 1, true); // a -> b at now = 5007
        let t0 = se.now;
        for now in [t0.saturating_add(interval).saturating_sub(1).max(t0), t0.saturating_add(interval), t0.saturating_add(interval).saturating_add(1), t0] {
            let due = se.mgrs[0].should_sync(ReplicaId::new(2), now);
            out.op(format!("MDUE a 2 {}", now), format!("due={}", if due { "yes" } else { "no" }));
            let mut v: Vec<u64> = se.mgrs[0].peers_needing_sync(now).iter().map(|r| r.0).collect();
            v.sort();
            out.op(format!("MNEED a {}", now), format!("need {}", v.iter().map(|x| x.to_string()).collect::<Vec<_>>().join(",")));
            let want = now - t0 >= interval;
            if due != want || v.contains(&2) != want {
                out.violation("C18:sync:should-sync", &format!("sync_interval_ms = {}, last request at {}, now {}: should_sync = {}, peers_needing_sync = {:?}; a sync is due iff now - last >= interval", interval, t0, now, due, v),
                    json!({"sync_interval_ms": interval, "last": t0, "now": now}));
            }
            out.count("bookkeeping:interval-boundary");
        }
        // partition heal: marks the peer divergent and forgets the last request (auto_sync_on_heal), or nothing
        for n in [0usize, 2] {
            se.mgrs[n].on_partition_healed(ReplicaId::new(2));
            out.op(format!("MHEAL {} 2", NODE[n]), format!("dp={}", set_str(&se.mgrs[n].divergent_peers)));
            let due = se.mgrs[n].should_sync(ReplicaId::new(2), t0);
            out.op(format!("MDUE {} 2 {}", NODE[n], t0), format!("due={}", if due { "yes" } else { "no" }));
        }
    }
}

/// fixed witnesses, run first on every run (known findings must reproduce)
fn corpus(out: &mut Out, rng: &mut Rng, thorough: bool) {
    op_sip(out, rng, 60);
    corpus_bookkeeping(out);
    // (1) DESIGN.md §6.1: the same 40 entries inserted in two orders, depth 2
    let content: Vec<(String, ReplicatedValue)> = (0..40).map(|i| (format!("key{}", i), rv_lww(format!("v{}", i).as_bytes(), i as u64 + 1, 1))).collect();
    let p = Pair { a: build(&content, rng), b: build(&content, rng), depth: 2 };
    digest_ops(out, rng, &p, "corpus: 40 equal entries, two insertion orders, depth 2");
    sync_ops(out, p, 1000, 1, "corpus: 40 equal entries");
    // (2) value aspects the digest does not read: single-key states, depth 0
    let h = |f: &str, t: u64| {
        let mut m = BTreeMap::new();
        m.insert(f.to_string(), crate::enc::MLww { v: Some(b"1".to_vec()), t, r: 1, tomb: false });
        MRv { crdt: MCrdt::H(m), vc: None, exp: None, t: 1, r: 1, rf: None }
    };
    let base = MRv::from_real(&rv_lww(b"v", 1, 1));
    let mut vc = BTreeMap::new();
    vc.insert(1u64, 1u64);
    let variants: Vec<(&str, MRv, MRv)> = vec![
        ("crdt", h("f", 1), h("g", 1)),
        ("expiry", base.clone(), MRv { exp: Some(5000), ..base.clone() }),
        ("vc", base.clone(), MRv { vc: Some(vc), ..base.clone() }),
        ("rf", base.clone(), MRv { rf: Some(5), ..base.clone() }),
    ];
    // (2a) every same-kind evolution class once (a value and what another replica made of it), single key,
    // depth 0 and 2, ample limit: digests must differ, one sync must leave merge(own, other) on both sides
    {
        let mut bases: Vec<MRv> = vec![base.clone(), h("f", 1)];
        let mut g = BTreeMap::new(); g.insert(1u64, 2u64);
        bases.push(MRv { crdt: MCrdt::G(g.clone()), ..base.clone() });
        bases.push(MRv { crdt: MCrdt::P(g.clone(), BTreeMap::new()), ..base.clone() });
        let mut st = BTreeSet::new(); st.insert("e1".to_string());
        bases.push(MRv { crdt: MCrdt::S(st), ..base.clone() });
        let mut el = BTreeMap::new();
        let mut t1 = BTreeSet::new(); t1.insert((1u64, 0u64));
        let mut t2 = BTreeSet::new(); t2.insert((2u64, 0u64)); t2.insert((1u64, 1u64));
        el.insert("e1".to_string(), t1); el.insert("e2".to_string(), t2);
        let mut nx = BTreeMap::new(); nx.insert(1u64, 2u64); nx.insert(2u64, 1u64);
        bases.push(MRv { crdt: MCrdt::O(el, nx), ..base.clone() });
        let mut seen_classes: BTreeSet<&'static str> = BTreeSet::new();
        for bv in &bases {
            for _ in 0..40 {
                let (ev, what) = evolve_same_kind(rng, bv);
                if !seen_classes.insert(what) {
                    continue;
                }
                for (x, y) in [(bv.clone(), ev.clone()), (ev.clone(), bv.clone())] {
                    let mut a: State = HashMap::new();
                    a.insert("h".into(), x.to_real());
                    let mut b: State = HashMap::new();
                    b.insert("h".into(), y.to_real());
                    let src = format!("corpus: single key, same-kind evolution {}", what);
                    let p = Pair { a, b, depth: if what.len() % 2 == 0 { 0 } else { 2 } };
                    digest_ops(out, rng, &p, &src);
                    sync_ops(out, p, 1000, 2, &src);
                }
                out.count(&format!("corpus:evolution:{}", what));
            }
        }
    }
    // (2b) the same shape with two expiry values whose byte streams COLLIDE under SipHash-1-3: false "in sync"
    for depth in [0usize, 3] {
        let mut a: State = HashMap::new();
        a.insert("h".into(), MRv { exp: Some(COLL_EXP_A), ..base.clone() }.to_real());
        let mut b: State = HashMap::new();
        b.insert("h".into(), MRv { exp: Some(COLL_EXP_B), ..base.clone() }.to_real());
        let (ka, kb) = (KeyDigest::new("h", &a["h"]), KeyDigest::new("h", &b["h"]));
        if ka.value_hash != kb.value_hash {
            out.violation("C18:harness:collision-witness-does-not-collide", "the two expiry values of the corpus case no longer give one value_hash: canonical_hash or the hasher changed (find a new pair)",
                json!({"expiry_a": COLL_EXP_A.to_string(), "expiry_b": COLL_EXP_B.to_string(), "value_hash_a": ka.value_hash.to_string(), "value_hash_b": kb.value_hash.to_string()}));
            break;
        }
        let p = Pair { a, b, depth };
        digest_ops(out, rng, &p, SRC_SIP_COLLISION);
        out.count("corpus:sip13-collision");
    }
    for (name, x, y) in variants {
        let mut a: State = HashMap::new();
        a.insert("h".into(), x.to_real());
        let mut b: State = HashMap::new();
        b.insert("h".into(), y.to_real());
        let p = Pair { a, b, depth: 0 };
        digest_ops(out, rng, &p, &format!("corpus: single key, values differ only in {}", name));
        sync_ops(out, p, 1000, 1, "corpus: false in-sync");
    }
    // (3) limit starvation: one bucket, 6 keys, one divergent key, limit 1; fresh maps until the
    // divergent key is not the first key of either iteration order
    let mut content: Vec<(String, ReplicatedValue)> = (0..6).map(|i| (format!("s{}", i), rv_lww(b"same", 1, 1))).collect();
    let mut built = false;
    for _ in 0..200 {
        let a = build(&content, rng);
        content[3].1 = rv_lww(b"newer", 9, 2);
        let b = build(&content, rng);
        content[3].1 = rv_lww(b"same", 1, 1);
        if a.keys().next().map(|k| k != "s3").unwrap_or(false) && b.keys().next().map(|k| k != "s3").unwrap_or(false) {
            sync_ops(out, Pair { a, b, depth: 0 }, 1, 4, "corpus: 6 keys in one bucket, key s3 divergent, limit 1");
            built = true;
            break;
        }
    }
    corpus_built(out, built, "limit starvation, simulator path");
    // the same through the message protocol: bucket request and full-state request
    for full in [false, true] {
        let mut built = false;
        for _ in 0..200 {
            let a = build(&content, rng);
            content[3].1 = rv_lww(b"newer", 9, 2);
            let b = build(&content, rng);
            content[3].1 = rv_lww(b"same", 1, 1);
            if a.keys().next().map(|k| k != "s3").unwrap_or(false) && b.keys().next().map(|k| k != "s3").unwrap_or(false) {
                msg_ops(out, Pair { a, b, depth: 0 }, 1, full, 4, "corpus: message protocol, 6 keys in one bucket, key s3 divergent, limit 1");
                built = true;
                break;
            }
        }
        corpus_built(out, built, if full { "limit starvation, full-state request" } else { "limit starvation, bucket request" });
    }
    // (4) a responder with MORE keys than the limit, few of them requested: 12 keys, depth 2,
    // limit 4, the (at most 4, here 3) keys of one bucket are newer on b.  The limit must apply
    // to the ANSWER (filter, then take): every requested key is delivered in one pull, wherever
    // it sits in the responder's iteration order.  Fresh maps until a requested key iterates
    // after position 4 on the responder (so that take-before-filter would withhold it).
    let bucket_of = |k: &String| KeyDigest::new(k, &rv_lww(b"x", 1, 1)).bucket(2);
    let mut names: Vec<String> = Vec::new();
    let mut chosen: Vec<usize> = Vec::new();
    for prefix in 0..50 {
        names = (0..12).map(|i| format!("m{}_{}", prefix, i)).collect();
        let mut by_bucket: BTreeMap<usize, Vec<usize>> = BTreeMap::new();
        for (i, k) in names.iter().enumerate() {
            by_bucket.entry(bucket_of(k)).or_default().push(i);
        }
        if let Some(v) = by_bucket.values().find(|v| v.len() == 3) {
            chosen = v.clone(); // exactly 3 divergent keys, all in one bucket
            break;
        }
    }
    let base: Vec<(String, ReplicatedValue)> = names.iter().map(|k| (k.clone(), rv_lww(b"old", 1, 1))).collect();
    let mut newer = base.clone();
    for i in &chosen {
        newer[*i].1 = rv_lww(b"new", 7, 2);
    }
    let mut built = false;
    for _ in 0..200 {
        let (a, b) = (build(&base, rng), build(&newer, rng));
        let late = b.keys().enumerate().any(|(pos, k)| pos >= 4 && chosen.iter().any(|i| names[*i] == *k));
        if late && !chosen.is_empty() {
            let p = Pair { a, b, depth: 2 };
            digest_ops(out, rng, &p, "corpus: 12 keys, depth 2, one bucket newer on b");
            msg_ops(out, p, 4, false, 3, "corpus: message protocol, 12 keys > limit 4, <= 4 requested keys, one of them iterates after position 4");
            built = true;
            break;
        }
    }
    corpus_built(out, built, "responder with more keys than the limit, few requested");
    // (5) configuration extremes.  merkle_tree_depth = 18 (2^18 buckets), the scenario of the
    // round-4 seed: a holds a:0..63, b holds b:0..63, both hold `shared` (newer on b); far fewer keys
    // than the limit: one exchange must merge everything, on the simulator path and on the message
    // path.  Digest and key filters must bucket with the SAME depth.
    {
        let mut ca: Vec<(String, ReplicatedValue)> = (0..64).map(|i| (format!("a:{}", i), rv_lww(format!("va{}", i).as_bytes(), i as u64 + 1, 1))).collect();
        let mut cb: Vec<(String, ReplicatedValue)> = (0..64).map(|i| (format!("b:{}", i), rv_lww(format!("vb{}", i).as_bytes(), i as u64 + 1, 2))).collect();
        ca.push(("shared".into(), rv_lww(b"from-a", 65, 1)));
        cb.push(("shared".into(), rv_lww(b"from-b-again", 66, 2)));
        for depth in if thorough { vec![18usize, 17, 20] } else { vec![18usize] } {
            let p = Pair { a: build(&ca, rng), b: build(&cb, rng), depth };
            digest_ops(out, rng, &p, &format!("corpus: merkle_tree_depth = {}, 64 + 64 + 1 keys", depth));
            sync_ops(out, p, 1000, 2, &format!("corpus: merkle_tree_depth = {}, 64 + 64 + 1 keys, simulator path", depth));
            if depth == 18 {
                let p = Pair { a: build(&ca, rng), b: build(&cb, rng), depth };
                msg_ops(out, p, 1000, false, 2, "corpus: merkle_tree_depth = 18, 64 + 64 + 1 keys, message protocol");
            }
        }
    }
    // max_keys_per_sync = 0: nothing can ever be sent (starvation by configuration), all three paths
    {
        let base: Vec<(String, ReplicatedValue)> = (0..3).map(|i| (format!("z{}", i), rv_lww(b"old", 1, 1))).collect();
        let mut newer = base.clone();
        newer[1].1 = rv_lww(b"new", 5, 2);
        sync_ops(out, Pair { a: build(&base, rng), b: build(&newer, rng), depth: 1 }, 0, 3, "corpus: max_keys_per_sync = 0, simulator path");
        msg_ops(out, Pair { a: build(&base, rng), b: build(&newer, rng), depth: 1 }, 0, false, 3, "corpus: max_keys_per_sync = 0, bucket request");
        msg_ops(out, Pair { a: build(&base, rng), b: build(&newer, rng), depth: 1 }, 0, true, 3, "corpus: max_keys_per_sync = 0, full-state request");
    }
    // merkle_tree_depth is an unvalidated usize: what does `vec![..; 1 << depth]` do at the top of the
    // range?  (depths 59..63: more than isize::MAX bytes -> "capacity overflow" panic, no allocation
    // is attempted; 64 / 65: the shift wraps in release builds.  Depths ~30..58 would really try to
    // allocate 24 * 2^depth bytes and abort the process: not executed.)
    for d in [19usize, 20, 21, 22, 59, 63, 64, 65, 1000, usize::MAX] {
        let empty: State = HashMap::new();
        let prev = std::panic::take_hook();
        std::panic::set_hook(Box::new(|_| {}));
        let r = std::panic::catch_unwind(|| StateDigest::from_state(&empty, ReplicaId::new(1), 0, d).buckets.len());
        std::panic::set_hook(prev);
        let ans = match &r {
            Ok(n) => format!("buckets {}", n),
            Err(e) => {
                let msg = e.downcast_ref::<String>().cloned().or_else(|| e.downcast_ref::<&str>().map(|x| x.to_string())).unwrap_or_default();
                if msg.contains("shift") { "panic shift-overflow".to_string() } else if msg.contains("capacity overflow") { "panic capacity-overflow".to_string() } else { format!("panic {}", msg.replace(' ', "_")) }
            }
        };
        out.op(format!("ALLOC {}", d), ans.clone());
        if r.is_err() {
            out.violation("C18:config:merkle_tree_depth:digest-panics",
                &format!("AntiEntropyConfig {{ merkle_tree_depth: {} }} is accepted, and generate_digest / StateDigest::from_state then panics ({}): a legal configuration crashes every digest computation", d, ans),
                json!({"merkle_tree_depth": d, "call": "StateDigest::from_state(&{}, r1, 0, depth)", "observed": ans, "expected": "a digest, or a rejected configuration"}));
        }
    }
    // the key filters at the boundary of MAX_MERKLE_TREE_DEPTH: the bucket of a key for depth 20, 21, 22, … is
    // the same and lies inside the digest of that depth
    {
        let nb: Vec<usize> = [19usize, 20, 21, 22, 64, usize::MAX].iter().map(|d| {
            let prev = std::panic::take_hook();
            std::panic::set_hook(Box::new(|_| {}));
            let r = std::panic::catch_unwind(|| StateDigest::from_state(&HashMap::new(), ReplicaId::new(1), 0, *d).buckets.len()).unwrap_or(0);
            std::panic::set_hook(prev);
            r
        }).collect();
        for i in 0..40 {
            let k = format!("edge{}", i);
            let v = rv_lww(b"x", 1, 1);
            let kd = KeyDigest::new(&k, &v);
            let prev = std::panic::take_hook();
            std::panic::set_hook(Box::new(|_| {}));
            let bs = std::panic::catch_unwind(|| [kd.bucket(19), kd.bucket(20), kd.bucket(21), kd.bucket(22), kd.bucket(64), kd.bucket(usize::MAX)]);
            std::panic::set_hook(prev);
            out.count("depth-bound:filter-vs-digest-at-the-boundary");
            match bs {
                Ok(bs) => {
                    if (0..6).any(|j| nb[j] != 0 && bs[j] >= nb[j]) || bs[1] != bs[2] || bs[2] != bs[3] {
                        out.violation("C18:bucket-function-mismatch", &format!("KeyDigest::bucket at depths 19/20/21/22/64/max = {:?}, digests of those depths have {:?} buckets: filter and digest disagree at the depth bound", bs, nb),
                            json!({"key": k, "buckets": bs, "digest_sizes": nb}));
                    }
                }
                Err(_) => out.violation("C18:config:merkle_tree_depth:digest-panics", "KeyDigest::bucket panics at an extreme depth", json!({"key": k})),
            }
        }
    }
    // … and a digest-driven exchange at those depths (real code only: whatever depth is configured,
    // digest and filters must agree and one exchange with an ample limit must merge both sides)
    for d in [21usize, 59, 63, 64, usize::MAX] {
        if d < 59 && !thorough {
            continue; // 2^20 buckets per digest: thorough tier only (a depth in 30..58 is never run:
                      // code without the depth bound would really try to allocate 24 * 2^depth bytes)
        }
        if d == 21 {
            // only safe when the depth is bounded: probe first with a depth that panics without the bound
            let empty: State = HashMap::new();
            let prev = std::panic::take_hook();
            std::panic::set_hook(Box::new(|_| {}));
            let ok = std::panic::catch_unwind(|| StateDigest::from_state(&empty, ReplicaId::new(1), 0, 63).buckets.len()).is_ok();
            std::panic::set_hook(prev);
            if !ok {
                continue;
            }
        }
        let prev = std::panic::take_hook();
        std::panic::set_hook(Box::new(|_| {}));
        let r = std::panic::catch_unwind(|| {
            let cfg = AntiEntropyConfig { merkle_tree_depth: d, ..AntiEntropyConfig::default() };
            let (ma, mb) = (AntiEntropyManager::new(ReplicaId::new(1), cfg.clone()), AntiEntropyManager::new(ReplicaId::new(2), cfg));
            let mut a = ShardReplicaState::new(ReplicaId::new(1), ConsistencyLevel::Eventual);
            let mut b = ShardReplicaState::new(ReplicaId::new(2), ConsistencyLevel::Eventual);
            for i in 0..20 {
                a.replicated_keys.insert(format!("xa{}", i), rv_lww(b"a", i + 1, 1));
                b.replicated_keys.insert(format!("xb{}", i), rv_lww(b"b", i + 1, 2));
            }
            let (da, db) = (ma.generate_digest(&a.replicated_keys), mb.generate_digest(&b.replicated_keys));
            let div = da.divergent_buckets(&db);
            let misfiled = a.replicated_keys.iter().any(|(k, v)| KeyDigest::new(k, v).bucket(d) >= da.buckets.len());
            let (to_b, to_a) = (ma.get_keys_in_buckets(&a.replicated_keys, &div), mb.get_keys_in_buckets(&b.replicated_keys, &div));
            for x in to_b { b.apply_remote_delta(x); }
            for x in to_a { a.apply_remote_delta(x); }
            (misfiled, canon(&a.replicated_keys) == canon(&b.replicated_keys), a.replicated_keys.len())
        });
        std::panic::set_hook(prev);
        out.count("extreme-depth:exchange-probed");
        match r {
            Ok((false, true, 40)) => {}
            Ok((misfiled, converged, n)) => out.violation("C18:config:extreme-depth:exchange-fails",
                &format!("merkle_tree_depth = {}: a digest-driven exchange with an ample limit does not merge the two sides (misfiled keys: {}, converged: {}, keys: {})", d, misfiled, converged, n),
                json!({"merkle_tree_depth": d, "a": "xa0..xa19", "b": "xb0..xb19"})),
            Err(_) => out.violation("C18:config:merkle_tree_depth:digest-panics",
                &format!("AntiEntropyConfig {{ merkle_tree_depth: {} }}: the digest-driven exchange panics", d), json!({"merkle_tree_depth": d})),
        }
    }
    // sync intervals: should_sync / create_sync_request bookkeeping at the extremes
    for interval in [0u64, 1, 1000, u64::MAX] {
        let mut m = AntiEntropyManager::new(ReplicaId::new(1), AntiEntropyConfig { sync_interval_ms: interval, ..AntiEntropyConfig::default() });
        let peer = ReplicaId::new(2);
        let mut bad = !m.should_sync(peer, 0) || !m.should_sync(peer, u64::MAX);
        let dg = m.generate_digest(&HashMap::new());
        m.create_sync_request(peer, dg, None, 500);
        bad |= m.should_sync(peer, 500) != (interval == 0);
        if let Some(t) = 500u64.checked_add(interval) {
            bad |= !m.should_sync(peer, t);
        }
        if interval >= 2 && interval < u64::MAX {
            bad |= m.should_sync(peer, 500 + interval - 1);
        }
        out.count("should_sync:probed");
        if bad {
            out.violation("C18:sync:should-sync", "should_sync disagrees with `never synced, or at least sync_interval_ms since the last request`",
                json!({"sync_interval_ms": interval}));
        }
    }
}

fn scenario(out: &mut Out, rng: &mut Rng, idx: u64) {
    let pool = if rng.chance(1, 3) { reachable_pool(rng, 12, out) } else { vec![] };
    let n = match rng.below(10) { 0 => 0, 1 => 1, 2 => rng.range(30, 60), _ => rng.range(2, 24) } as usize;
    // AntiEntropyConfig is generated input with its legal extremes: deep trees (2^15 .. 2^18 buckets)
    // in a few cases only (a digest of depth 18 has 262144 fold steps)
    let deep = rng.below(800) == 0;
    let depth = if deep { *rng.pick(&[15usize, 16, 17, 18]) } else { (match rng.below(12) { 0 => 0, 1..=3 => 1, 4..=7 => 2, 8..=10 => 3, _ => 8 }) as usize };
    let n = if deep { n.min(24) } else { n };
    let mut keys = BTreeSet::new();
    for _ in 0..n {
        keys.insert(rand_key(rng));
    }
    let content: Vec<(String, ReplicatedValue)> = keys.into_iter().map(|k| { let v = gen_value(rng, &pool); (k, v) }).collect();
    out.count(&format!("depth:{}", depth));
    out.count(match content.len() { 0 => "keys:0", 1 => "keys:1", 2..=8 => "keys:2-8", 9..=24 => "keys:9-24", _ => "keys:25+" });
    for (_, v) in &content {
        out.count(&format!("value:{}", MRv::from_real(v).crdt.kind_name()));
    }

    // (i) the same content built twice
    let p = Pair { a: build(&content, rng), b: build(&content, rng), depth };
    let same_order = p.a.keys().eq(p.b.keys());
    out.count(if same_order { "equal-states:same-iteration-order" } else { "equal-states:different-iteration-order" });
    let max_bucket = {
        let mut c = vec![0usize; 1 << depth];
        for (k, v) in p.a.iter() {
            c[KeyDigest::new(k, v).bucket(depth)] += 1;
        }
        c.into_iter().max().unwrap_or(0)
    };
    out.case(&format!("{}|{}", depth, show_state("s", &p.a)), !content.is_empty() && max_bucket >= 2);
    out.sample(json!({"depth": depth, "keys": content.len(), "max_bucket_population": max_bucket, "state": show_state("s", &p.a).chars().take(300).collect::<String>()}));
    digest_ops(out, rng, &p, &format!("case {}: same content, two builds", idx));
    if rng.chance(1, 3) && !deep {
        sync_ops(out, p, 1000, 2, &format!("case {}: equal states", idx));
    }

    // (ii) a mutated copy
    let mut other = content.clone();
    let nm = rng.range(1, 3);
    for _ in 0..nm {
        let kind = rng.below(11);
        out.count(&format!("mutation:{}", ["value", "value", "remove", "add", "expiry", "crdt-same-stamp", "vc", "rf", "stamp-only", "same-kind-evolution", "same-kind-evolution"][kind as usize]));
        if other.is_empty() || kind == 3 {
            other.push((format!("new{}", rng.below(50)), gen_value(rng, &pool)));
            continue;
        }
        let mut i = rng.below(other.len() as u64) as usize;
        if kind >= 9 && rng.chance(2, 3) {
            // prefer a non-string value, if there is one
            let ns: Vec<usize> = (0..other.len()).filter(|j| !matches!(MRv::from_real(&other[*j].1).crdt, MCrdt::Lww(_))).collect();
            if !ns.is_empty() {
                i = *rng.pick(&ns);
            }
        }
        let m = MRv::from_real(&other[i].1);
        match kind {
            0 | 1 => other[i].1 = gen_value(rng, &pool),
            2 => {
                other.remove(i);
            }
            4 => other[i].1 = MRv { exp: Some(m.exp.unwrap_or(0).wrapping_add(1000)), ..m }.to_real(),
            5 => {
                let mut x = random_value(rng);
                x.t = m.t;
                x.r = m.r;
                other[i].1 = x.to_real();
            }
            6 => {
                let mut vc = m.vc.clone().unwrap_or_default();
                let e = vc.entry(rng.range(1, 3)).or_insert(0);
                *e = e.wrapping_add(1);
                other[i].1 = MRv { vc: Some(vc), ..m }.to_real();
            }
            7 => other[i].1 = MRv { rf: Some(m.rf.unwrap_or(1).wrapping_add(1)), ..m }.to_real(),
            9 | 10 => {
                // what the OTHER replica did to the same value since the two last agreed: an operation of
                // the value's own kind (the states two replicas really hold after a partition) — an
                // OR-set emptied / one element removed / one added, a counter bumped, a set grown, a
                // hash field written or deleted, a register overwritten or deleted
                let (evolved, what) = evolve_same_kind(rng, &m);
                out.count(&format!("evolution:{}", what));
                other[i].1 = evolved.to_real();
            }
            _ => other[i].1 = MRv { r: m.r.wrapping_add(1), ..m }.to_real(),
        }
    }
    // keys are unique per state
    let mut seen = BTreeSet::new();
    other.retain(|(k, _)| seen.insert(k.clone()));
    let p = Pair { a: build(&content, rng), b: build(&other, rng), depth };
    digest_ops(out, rng, &p, &format!("case {}: mutated copy", idx));
    let pop = content.len().max(other.len());
    let limit = match rng.below(12) { 0 | 1 => 1, 2 | 3 => rng.range(1, 4) as usize, 4 | 5 => pop, 6 => 0, _ => 1000 };
    sync_ops(out, p, limit, if deep { 1 } else if limit >= pop { 2 } else { 5 }, &format!("case {}: mutated copy, limit {}", idx, limit));

    // (iii) the message protocol on the same contents: bucket request and full-state request,
    // limits below / at / above the responder's population
    for full in [false, true] {
        if rng.chance(2, 3) {
            let limit = match rng.below(17) { 0 | 1 => 1, 2 | 3 => 2, 4 | 5 => 5, 6 | 7 => 16, 8 | 9 => pop.max(1), 10 | 11 => (pop + 1) / 2 + 1, 12 => 0, _ => 1000 };
            let bound = if deep { 1 } else { (pop / limit.max(1) + 3).min(8) };
            let p = Pair { a: build(&content, rng), b: build(&other, rng), depth };
            msg_ops(out, p, limit, full, bound, &format!("case {}: mutated copy, message protocol, limit {}", idx, limit));
        }
    }
    if rng.chance(1, 4) && !deep {
        let p = Pair { a: build(&content, rng), b: build(&content, rng), depth };
        msg_ops(out, p, *rng.pick(&[1usize, 5, 1000]), rng.chance(1, 2), 2, &format!("case {}: equal states, message protocol", idx));
    }
    // (iv) the protocol as a state machine between THREE managers: interleaved pulls, messages
    // processed late / twice / by the wrong node, local writes between any two steps
    if rng.chance(1, 5) && !deep {
        let mut third = content.clone();
        if !third.is_empty() {
            let i = rng.below(third.len() as u64) as usize;
            third[i].1 = gen_value(rng, &pool);
        }
        third.push((format!("c{}", rng.below(9)), gen_value(rng, &pool)));
        let mut seen = BTreeSet::new();
        third.retain(|(k, _)| seen.insert(k.clone()));
        let limit = *rng.pick(&[1usize, 2, 5, 1000, 1000]);
        let depths = if rng.chance(1, 8) { [depth, (depth + 1) % 4, depth] } else { [depth; 3] };
        session_ops(out, rng, [content.clone(), other.clone(), third.clone()], depths, limit, &pool, &format!("case {}: three-node session", idx));
        if rng.chance(1, 2) {
            let l3 = *rng.pick(&[1usize, 3, 1000, 1000]);
            sim3_ops(out, rng, [content.clone(), other.clone(), third], depth, l3, &format!("case {}: three simulator nodes", idx));
        }
    }
}

/// every public item of the anchored anti-entropy code (scanned from the source this binary was
/// built against) and how this harness accounts for it
fn coverage(file: &str, item: &str) -> Option<&'static str> {
    let f = file.rsplit('/').next().unwrap_or(file);
    Some(match (f, item) {
        ("anti_entropy.rs", "AntiEntropyConfig.sync_interval_ms") => "driven: should_sync probes (0 / 1 / 1000 / u64::MAX), sessions (0 / 10 / 100 / u64::MAX; MDUE / MNEED incl. a clock that went backwards)",
        ("anti_entropy.rs", "AntiEntropyConfig.max_keys_per_sync" | "AntiEntropyConfig::keys_per_sync") => "driven: 0, 1, 2, 5, population/2+1, population, population+…, 1000, usize::MAX on all three paths (G / SYNC / PULL / MHANDLE)",
        ("anti_entropy.rs", "AntiEntropyConfig.merkle_tree_depth" | "const MAX_MERKLE_TREE_DEPTH") => "driven: 0-3, 8, 15-18 (thorough 17, 20, 21), ALLOC 19..22 / 59 / 63 / 64 / 65 / 1000 / usize::MAX, key-filter boundary probe 19..22, DIFFERENT depths on the two sides (sessions)",
        ("anti_entropy.rs", "AntiEntropyConfig.auto_sync_on_heal") => "driven: sessions (MHEAL with both values)",
        ("anti_entropy.rs", "KeyDigest.key_hash" | "KeyDigest.value_hash" | "KeyDigest.timestamp" | "KeyDigest::new" | "KeyDigest::bucket") => "driven: every S line (both hashes recomputed by the model from the bytes: conflicts=0), bucket via D / G / PULL and the bucket-function oracle",
        ("anti_entropy.rs", "MerkleNode.hash" | "MerkleNode.count" | "MerkleNode.max_timestamp" | "MerkleNode::empty" | "MerkleNode::from_digests" | "MerkleNode::combine") => "driven: D (every non-empty bucket node and the root recomputed by the model), W (word streams)",
        ("anti_entropy.rs", "StateDigest.root_hash" | "StateDigest.key_count" | "StateDigest.max_timestamp" | "StateDigest.buckets" | "StateDigest::from_state" | "StateDigest::differs_from" | "StateDigest::divergent_buckets") => "driven: D / CMP (same and different depths), ALLOC",
        ("anti_entropy.rs", "StateDigest.replica_id" | "StateDigest.generation") => "driven: MDIG / MREQ (rid= gen=), process_peer_digest keys its bookkeeping by replica_id",
        ("anti_entropy.rs", "SyncRequest.from_replica" | "SyncRequest.to_replica" | "SyncRequest.digest" | "SyncRequest.requested_buckets") => "driven: MREQ (all four fields compared), PULL envelope oracle",
        ("anti_entropy.rs", "SyncResponse.from_replica" | "SyncResponse.deltas" | "SyncResponse.digest") => "driven: MHANDLE (from, keys in answer order, digest root), MAPPLY, PULL",
        ("anti_entropy.rs", "AntiEntropyManager.config" | "AntiEntropyManager.replica_id" | "AntiEntropyManager.generation" | "AntiEntropyManager.peer_digests" | "AntiEntropyManager.divergent_peers" | "AntiEntropyManager.last_sync_time") => "driven: sessions (gen= / dp= / due= / need answers), process-peer-digest oracle",
        ("anti_entropy.rs", "AntiEntropyManager.pending_requests" | "AntiEntropyManager.pending_responses" | "AntiEntropyManager::drain_requests" | "AntiEntropyManager::drain_responses") => "driven: sessions check that they stay empty (nothing in src/ pushes to them)",
        ("anti_entropy.rs", "AntiEntropyManager::new" | "AntiEntropyManager::on_local_write" | "AntiEntropyManager::generate_digest" | "AntiEntropyManager::should_sync" | "AntiEntropyManager::process_peer_digest" | "AntiEntropyManager::create_sync_request" | "AntiEntropyManager::handle_sync_request" | "AntiEntropyManager::on_partition_healed" | "AntiEntropyManager::peers_needing_sync") => "driven: MNEW / MWRITE / MDIG / MDUE / MPROC / MREQ / MHANDLE / MHEAL / MNEED (three managers, interleaved flows), PULL",
        ("anti_entropy.rs", "AntiEntropyManager::get_keys_in_buckets") => "driven: G, SYNC / SYNC3 / HEAL",
        ("anti_entropy.rs", "AntiEntropyMessage::DigestExchange" | "AntiEntropyMessage::SyncRequest" | "AntiEntropyMessage::SyncResponse") => "NOT driven: an envelope enum that nothing in src/ constructs or matches; its three payloads are the digest / request / response registers of the sessions",
        ("multi_node.rs", "SimulatedNode::generate_digest" | "MultiNodeSimulation::run_anti_entropy_sync" | "MultiNodeSimulation::run_full_anti_entropy" | "MultiNodeSimulation::heal_partition" | "MultiNodeSimulation::partition" | "MultiNodeSimulation::can_communicate" | "SimulatedNode::apply_remote_deltas" | "MultiNodeSimulation::new") => "driven: SYNC (two nodes, 1-5 rounds), SYNC3 (three nodes, all pairs), HEAL (was partitioned × auto_anti_entropy)",
        ("multi_node.rs", _) => "not part of C18: the rest of the simulator (gossip rounds, clients, linearizability checker) is C06 / C20's subject",
        _ => return None,
    })
}

/// the coverage audit of C18 against the eleven classes of missed inputs (also DESIGN §4 C18 "coverage audit")
fn audit() -> serde_json::Value {
    json!([
      {"class": 1, "topic": "entry paths / variants never driven",
       "covered": "every public item of anti_entropy.rs and the anti-entropy fns of multi_node.rs is SCANNED FROM THE SOURCE the binary was built against and mapped to the op that drives it (113 items; an unaccounted item is C18:coverage:<file>:<item>-not-driven, a failed scan C18:coverage:source-scan-failed); three paths of a sync: simulator shortcut (SYNC, SYNC3 = run_full_anti_entropy over three nodes, HEAL = heal_partition × auto_anti_entropy), message protocol as pulls (PULL, bucket and full-state request) and as a STATE MACHINE between three managers (MNEW / MDIG / MPROC / MREQ / MHANDLE / MAPPLY / MWRITE / MDUE / MHEAL / MNEED)",
       "open": "AntiEntropyMessage (an envelope enum nothing constructs or matches); pending_requests / pending_responses have no producer (checked to stay empty)"},
      {"class": 2, "topic": "input alphabet",
       "covered": "values: plain SET / DEL values from real replicas, structured random values of all six CRDT kinds, values reachable by ops + delta delivery, and EXTREMES of every field (u64::MAX / 2^63 / 2^32 stamps, counts, sequences, expiry; rf 0 / 255; empty, binary (0x00, 0xff, all 256 bytes), 4 KiB payloads; empty / 100-byte / multi-byte / prefix-of-each-other strings as set elements, OR-set elements and hash fields; Some(empty map) vs None; Some(empty bytes) vs None); keys: empty, 120 bytes, multi-byte, prefixes of each other; EVERY value's byte stream is recomputed by the model and its SipHash compared (conflicts=0), raw SIP lines of every length 0..40 and random longer ones",
       "open": "non-UTF-8 keys / element names cannot exist (Rust String); Lamport times stay below u64::MAX (the clock's own overflow is C08's subject)"},
      {"class": 3, "topic": "comparisons at equality",
       "covered": "max_keys_per_sync below / at / above the responder's population on all three paths (counted: population<limit, =limit, >limit); sync_interval_ms: now = last + interval − 1 / + 0 / + 1 for a peer that is NOT divergent (corpus_bookkeeping, intervals 0 / 1 / 10 / 1000) and from the manager's real table in the sessions; MAX_MERKLE_TREE_DEPTH: ALLOC 19 / 20 / 21 / 22, KeyDigest::bucket at 19 / 20 / 21 / 22 / 64 / usize::MAX vs the digest size; bucket sort `len > 1` (buckets of exactly 1, 2, 3 keys); count == 0 of combine / of the size-mismatch branch (depth mismatch sessions)",
       "open": ""},
      {"class": 4, "topic": "configuration",
       "covered": "all four AntiEntropyConfig fields are generated: merkle_tree_depth 0-3, 8, 15-18 (thorough 17, 20, 21) and the allocation probes up to usize::MAX, DIFFERENT depths on the two sides; max_keys_per_sync 0, 1, 2, 5, 16, population-derived, 1000, usize::MAX; sync_interval_ms 0, 1, 10, 100, 1000, u64::MAX; auto_sync_on_heal both",
       "open": "depths 30..58 are never configured (code without the depth bound would really allocate 24 * 2^depth bytes)"},
      {"class": 5, "topic": "capacity thresholds", "covered": "the per-round key limit is the only internal limit: crossed on every path; 2^18 buckets in the corpus", "open": ""},
      {"class": 6, "topic": "fault kinds",
       "covered": "panics: digest allocation at extreme depths (fixed: c51a674), u64 underflow of should_sync / peers_needing_sync when the clock went backwards (MDUE / MNEED: `underflow`, modelled as AE.Due.underflow — a wrap-around to `due` in a build without overflow checks); any other panic inside a generated case is caught per scenario and reported as C18:panic:<location>",
       "open": "no I/O in scope"},
      {"class": 7, "topic": "history shapes",
       "covered": "1-5 rounds of each path; a state that changes between digest and transfer (local writes in every gap of a flow); answers applied late, twice, by a third node, a request answered a second time later; two or three interleaved pulls with different peers; three-node full passes; equal states / mutated copies / key-set differences; final clean-up to convergence",
       "open": ""},
      {"class": 8, "topic": "node-global state", "covered": "the manager's bookkeeping (generation, peer_digests, divergent_peers, last_sync_time) is part of the model state and of every session answer", "open": "the Lamport clock / executor write-through of apply_remote_deltas (C08 / C06)"},
      {"class": 9, "topic": "observations",
       "covered": "digest: root, count, max timestamp, bucket count, every non-empty bucket node; key hash and value hash of every entry; divergent buckets; the ANSWER ORDER of every response; request (from, to, buckets, digest root, generation), response (from, keys, digest root), divergent_peers after every step, should_sync / peers_needing_sync, generation; full state dumps after every merge",
       "open": "peer_digests is observed as 'contains the peer' only (its digest equals the processed message by construction)"},
      {"class": 10, "topic": "finding signatures",
       "covered": "the three starvation findings are keyed by path AND condition (limit.max(1) < population, a quiescent exchange, deliverable differences left); absorption audit: a short answer (take(limit − 1)) is C18:sync:*:response-incomplete / quiescent-not-converged, not a starvation finding",
       "open": ""},
      {"class": 11, "topic": "harness fragility",
       "covered": "corpus cases that need a particular HashMap iteration order are retried 200 times and a failure to construct one is C18:harness:corpus-case-not-constructed (was: silently skipped); a panic inside a scenario is a reported case (was: a dead harness); the source scan reads the tree named by harness/Cargo.toml; unchanged states are not re-sent (S-line cache, invalidated by every state-changing op)",
       "open": ""}
    ])
}

pub fn run(a: &Args) {
    let mut out = Out::new(&a.out);
    let mut rng = Rng::new(a.seed);
    let mut cr = Rng::new(18);
    corpus(&mut out, &mut cr, a.tier == "thorough");
    crate::srcscan::report(&mut out, "C18", "api_coverage(scanned from the source of the dependency)", &["src/replication/anti_entropy.rs", "src/simulator/multi_node.rs"], &coverage);
    out.extra.insert("audit".into(), audit());
    for i in 0..a.n {
        // a panic of the real code inside a scenario is a reported case, not a dead harness
        let prev = std::panic::take_hook();
        let msg = std::sync::Arc::new(std::sync::Mutex::new(String::new()));
        let m2 = msg.clone();
        std::panic::set_hook(Box::new(move |info| { *m2.lock().unwrap() = info.to_string(); }));
        let r = std::panic::catch_unwind(std::panic::AssertUnwindSafe(|| scenario(&mut out, &mut rng, i)));
        std::panic::set_hook(prev);
        if r.is_err() {
            let text = msg.lock().unwrap().clone();
            let short: String = text.chars().filter(|c| !c.is_whitespace() || *c == ' ').take(120).collect();
            out.violation(&format!("C18:panic:{}", short.split(':').take(3).collect::<Vec<_>>().join(":").replace(' ', "_")),
                &format!("the real code panicked inside generated case {} ({})", i, text), json!({"case": i, "seed": a.seed, "panic": text}));
        }
    }
    out.finish("case = one generated state content (0-60 keys; plain SET/DEL values from real replicas, structured random values of all six CRDT kinds, values reachable by ops + delta delivery) at a Merkle depth 0-3 or 8, driven as (i) two real HashMaps built from it in different insertion / merge orders and (ii) a mutated copy (value / key-set / expiry / non-LWW content / vc / rf / stamp changes), through StateDigest::from_state, differs_from, divergent_buckets, get_keys_in_buckets and 1-5 rounds of run_anti_entropy_sync with limits below and above the bucket population; distinct by (depth, canonical state); non-trivial iff some bucket holds >= 2 keys");
}
