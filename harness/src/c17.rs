//! C17 — a failing command changes nothing; a read-only command changes nothing.
//! Oracle (model-independent): snapshot of the visible keyspace before/after every command on the
//! real executor (in `redisx::do_step`); the generator is biased towards commands that fail
//! (wrong type, overflow, bad index, bad expire) in states with mixed types.  The same op lines
//! go through the model driver, which also compares the read-only classification.
use crate::out::Out;
use crate::redisx::*;
use crate::rng::Rng;
use crate::Args;
use redis_sim::redis::{Command, SDS};

fn s(x: &str) -> SDS {
    SDS::from_str(x)
}
fn k(x: &str) -> String {
    x.to_string()
}

/// two-key / multi-element commands outside the modelled families: oracle only
fn gen_unmodelled_fault(rng: &mut Rng) -> Command {
    let a = key(rng);
    let b = key(rng);
    match rng.below(12) {
        0 | 1 => Command::RPopLPush(a, b),
        2 | 3 => Command::LMove {
            source: a,
            dest: b,
            wherefrom: rng.pick(&["LEFT", "RIGHT"]).to_string(),
            whereto: rng.pick(&["LEFT", "RIGHT"]).to_string(),
        },
        4 => Command::HIncrBy(a, payload(rng), *rng.pick(&[1, i64::MAX, i64::MIN])),
        5 => Command::LSet(a, rng.below(9) as isize - 4, payload(rng)),
        6 => Command::SetBit(a, rng.below(20), rng.below(2) as u8),
        7 => Command::IncrByFloat(a, 1.0),
        8 => Command::Sort { key: a, store: Some(b) },
        9 => Command::LPush(a, vec![payload(rng), payload(rng)]),
        10 => Command::SAdd(a, vec![payload(rng), payload(rng)]),
        _ => Command::HSet(a, vec![(payload(rng), payload(rng)), (payload(rng), payload(rng))]),
    }
}

fn gen(rng: &mut Rng, now: u64) -> Command {
    match rng.below(10) {
        0..=1 => gen_other_type_cmd(rng),
        2..=3 => gen_unmodelled_fault(rng),
        _ => gen_cmd(rng, now),
    }
}

pub fn corpus(out: &mut Out) {
    // DESIGN.md §6.1, C17 row
    run_scripted(out, "C17", "rpoplpush-dst-wrongtype", vec![
        sc(0, true, Command::RPush(k("src"), vec![s("a")])),
        sc(0, true, Command::set(k("dst"), s("s"))),
        sc(0, true, Command::RPopLPush(k("src"), k("dst"))),
    ]);
    run_scripted(out, "C17", "lmove-dst-wrongtype", vec![
        sc(0, true, Command::RPush(k("src"), vec![s("a"), s("b")])),
        sc(0, true, Command::set(k("dst"), s("s"))),
        sc(0, true, Command::LMove { source: k("src"), dest: k("dst"), wherefrom: "LEFT".into(), whereto: "RIGHT".into() }),
    ]);
}

pub fn run(a: &Args) {
    let mut out = Out::new(&a.out);
    let mut rng = Rng::new(a.seed ^ 0x17);
    corpus(&mut out);
    for _ in 0..a.n {
        run_random_sequence(&mut out, &mut rng, "C17", &gen);
    }
    out.extra.insert("families_covered".into(), serde_json::json!(crate::c01::FAMILIES));
    out.finish("case = one sequence of 1..60 commands biased towards failing commands (wrong-type operands in mixed-type states, overflowing integers, out-of-range indices, invalid expire times, two-key commands) on a fresh real CommandExecutor; oracle after every command: reply is an error or Command::is_read_only() ⇒ visible keyspace (keys, types, values, PTTLs) unchanged; distinct by op text; non-trivial iff some command changed the keyspace and some reply was informative");
}
