//! C17 — a failing command changes nothing; a read-only command changes nothing.
//! Oracle (model-independent): snapshot of the visible keyspace before/after every command on the
//! real executor (in `redisx::do_step`); the generator is biased towards commands that fail
//! (wrong type, overflow, bad index, bad expire) in states with mixed types.  The same op lines
//! go through the model driver, which also compares the read-only classification.
use crate::out::Out;
use crate::redisx::*;
use crate::rng::Rng;
use crate::Args;
use redis_sim::redis::{Command, SDS};
#[allow(unused_imports)]
use crate::redisx::payload;

fn s(x: &str) -> SDS {
    SDS::from_str(x)
}
fn k(x: &str) -> String {
    x.to_string()
}

/// commands outside the modelled families (bitmaps, float counters, SORT, scans, object/debug
/// stubs, server commands, internal batch commands): snapshot oracle only
fn gen_unmodelled(rng: &mut Rng) -> Command {
    let a = key(rng);
    let b = key(rng);
    match rng.below(24) {
        0 => Command::SetBit(a, rng.below(20), rng.below(2) as u8),
        1 => Command::GetBit(a, rng.below(20)),
        2 => Command::IncrByFloat(a, *rng.pick(&[1.0, -0.5, 1e308])),
        3 | 4 => Command::Sort { key: a, store: if rng.chance(1, 2) { Some(b) } else { None } },
        5 => Command::BatchGet(vec![a, b]),
        6 => Command::BatchSet(vec![(a, payload(rng)), (b, payload(rng))]),
        7 => Command::Scan { cursor: 0, pattern: None, count: Some(3) },
        8 => Command::HScan { key: a, cursor: 0, pattern: None, count: None },
        9 => Command::ZScan { key: a, cursor: 0, pattern: None, count: None },
        10 => Command::ObjectEncoding(a),
        11 => Command::ObjectRefCount(a),
        12 => Command::ObjectIdleTime(a),
        13 => Command::ObjectFreq(a),
        14 => Command::DebugObject(a),
        15 => Command::Info,
        16 => Command::Ping(None),
        17 => Command::Echo(payload(rng)),
        18 => Command::Time,
        19 => Command::Wait(0, 0),
        20 => Command::ConfigGet("*".into()),
        21 => Command::Keys(rng.pick(&["a*", "?", "[a-c]", "k?", "*é"]).to_string()),
        22 => Command::CommandCount,
        _ => Command::Unknown("FOO".into()),
    }
}

fn gen(rng: &mut Rng, now: u64) -> Command {
    match rng.below(10) {
        0..=1 => gen_other_type_cmd(rng),
        2 => gen_unmodelled(rng),
        _ => gen_cmd(rng, now),
    }
}

pub fn corpus(out: &mut Out) {
    // DESIGN.md §6.1, C17 row
    run_scripted(out, "C17", "rpoplpush-dst-wrongtype", vec![
        sc(0, true, Command::RPush(k("src"), vec![s("a")])),
        sc(0, true, Command::set(k("dst"), s("s"))),
        sc(0, true, Command::RPopLPush(k("src"), k("dst"))),
    ]);
    run_scripted(out, "C17", "lmove-dst-wrongtype", vec![
        sc(0, true, Command::RPush(k("src"), vec![s("a"), s("b")])),
        sc(0, true, Command::set(k("dst"), s("s"))),
        sc(0, true, Command::LMove { source: k("src"), dest: k("dst"), wherefrom: "LEFT".into(), whereto: "RIGHT".into() }),
    ]);
}

pub fn run(a: &Args) {
    let mut out = Out::new(&a.out);
    let mut rng = Rng::new(a.seed ^ 0x17);
    corpus(&mut out);
    for _ in 0..a.n {
        run_random_sequence(&mut out, &mut rng, "C17", &gen);
    }
    out.extra.insert("families_covered".into(), serde_json::json!(crate::c01::FAMILIES));
    out.finish("case = one sequence of 1..60 commands biased towards failing commands (wrong-type operands in mixed-type states, overflowing integers, out-of-range indices, invalid expire times, two-key commands) on a fresh real CommandExecutor; oracle after every command: reply is an error or Command::is_read_only() ⇒ visible keyspace (keys, types, values, PTTLs) unchanged; distinct by op text; non-trivial iff some command changed the keyspace and some reply was informative");
}
