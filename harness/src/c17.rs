//! C17 — a failing command changes nothing; a read-only command changes nothing.
//! Oracle (model-independent): snapshot of the visible keyspace before/after every command on the
//! real executor (in `redisx::do_step`); the generator is biased towards commands that fail
//! (wrong type, overflow, bad index, bad expire) in states with mixed types.  The same op lines
//! go through the model driver, which also compares the read-only classification.
use crate::out::Out;
use crate::redisx::*;
use crate::rng::Rng;
use crate::Args;
use redis_sim::redis::{Command, SDS};
use serde_json::json;
#[allow(unused_imports)]
use crate::redisx::payload;

fn s(x: &str) -> SDS {
    SDS::from_str(x)
}
fn k(x: &str) -> String {
    x.to_string()
}

/// commands outside the modelled families (bitmaps, float counters, SORT, scans, object/debug
/// stubs, server commands, internal batch commands): snapshot oracle only
fn gen_unmodelled(rng: &mut Rng) -> Command {
    let a = key(rng);
    let b = key(rng);
    match rng.below(24) {
        0 => Command::SetBit(a, rng.below(20), rng.below(2) as u8),
        1 => Command::GetBit(a, rng.below(20)),
        2 => Command::IncrByFloat(a, *rng.pick(&[1.0, -0.5, 1e308])),
        3 | 4 => Command::Sort { key: a, store: if rng.chance(1, 2) { Some(b) } else { None } },
        5 => Command::BatchGet(vec![a, b]),
        6 => Command::BatchSet(vec![(a, payload(rng)), (b, payload(rng))]),
        7 => Command::Scan { cursor: 0, pattern: None, count: Some(3) },
        8 => Command::HScan { key: a, cursor: 0, pattern: None, count: None },
        9 => Command::ZScan { key: a, cursor: 0, pattern: None, count: None },
        10 => Command::ObjectEncoding(a),
        11 => Command::ObjectRefCount(a),
        12 => Command::ObjectIdleTime(a),
        13 => Command::ObjectFreq(a),
        14 => Command::DebugObject(a),
        15 => Command::Info,
        16 => Command::Ping(None),
        17 => Command::Echo(payload(rng)),
        18 => Command::Time,
        19 => Command::Wait(0, 0),
        20 => Command::ConfigGet("*".into()),
        21 => Command::Keys(rng.pick(&["a*", "?", "[a-c]", "k?", "*é"]).to_string()),
        22 => Command::CommandCount,
        _ => Command::Unknown("FOO".into()),
    }
}

fn gen(rng: &mut Rng, now: u64) -> Command {
    match rng.below(10) {
        0..=1 => gen_other_type_cmd(rng),
        2 => gen_unmodelled(rng),
        _ => gen_cmd(rng, now),
    }
}


// ------------------------------------------------------------------------------------------
// read-only classification sweep
//
// For a prepared state S (a replayable prefix of timed commands) and EVERY command variant v
// (every Command constructor of the data / key / server families with every boolean and option
// field both ways) the IMPLEMENTATION's own `v.is_read_only()` is taken.  If it says read-only:
// two twin executors are built by replaying the prefix; v runs on one of them only — first through
// `execute_readonly` (snapshot must not move), then through `execute` — and the full visible
// snapshots (keys, types, values, PTTLs) of the twins are compared NOW and again after the clock
// has been moved (clock only, `update_time_readonly`) to one ms before / exactly / one ms after
// every deadline that existed before v, so a silently dropped, added or shifted deadline shows up
// as a key that exists on one twin and not on the other.  Signature `C17:readonly-mutates:<CMD>`.

#[derive(Clone)]
struct Prep {
    t: u64,
    evict: bool,
    cmd: Command,
}

fn build(prefix: &[Prep]) -> Sess {
    let mut se = Sess::new(BASE_MS);
    for p in prefix {
        se.set_now(p.t, p.evict);
        let _ = se.exec(&p.cmd);
    }
    se
}

/// now, then (d-1, d, d+1) for every deadline d of a visible key, ascending, deduplicated
fn time_points(se: &mut Sess) -> Vec<u64> {
    let now = se.now;
    let mut pts = vec![now];
    let keys: Vec<String> = se.ex.get_data().keys().cloned().collect();
    for k in keys {
        let p = se.pttl(&k);
        if p > 0 && p < 4_000_000_000_000 {
            let d = now + p as u64;
            pts.extend_from_slice(&[d - 1, d, d + 1]);
        }
    }
    pts.sort();
    pts.dedup();
    pts.retain(|t| *t >= now);
    pts
}

fn snapshots(se: &mut Sess, pts: &[u64]) -> Vec<String> {
    pts.iter()
        .map(|t| {
            se.set_now(*t, false);
            se.dump()
        })
        .collect()
}

/// state of a command's primary key in the prepared state: none | missing | <type>:ttl | <type>:persist
fn key_state(se: &mut Sess, cmd: &Command) -> String {
    let k = match cmd.get_primary_key() {
        Some(k) => k.to_string(),
        None => return "nokey".into(),
    };
    let vis = matches!(
        se.ex.execute_readonly(&Command::Exists(vec![k.clone()])),
        redis_sim::redis::RespValue::Integer(1)
    );
    if !vis {
        return "missing".into();
    }
    let ty = match se.ex.get_data().get(&k) {
        Some(redis_sim::redis::Value::String(_)) => "string",
        Some(redis_sim::redis::Value::List(_)) => "list",
        Some(redis_sim::redis::Value::Set(_)) => "set",
        Some(redis_sim::redis::Value::Hash(_)) => "hash",
        Some(redis_sim::redis::Value::SortedSet(_)) => "zset",
        _ => "other",
    };
    format!("{}:{}", ty, if se.pttl(&k) >= 0 { "ttl" } else { "persist" })
}

fn opt4() -> Vec<(Option<i64>, Option<i64>, Option<i64>, Option<i64>)> {
    // every Some/None pattern of (ex, px, exat, pxat); values valid relative to BASE_MS-ish clocks
    let mut v = Vec::new();
    for m in 0..16u32 {
        v.push((
            if m & 1 != 0 { Some(100) } else { None },
            if m & 2 != 0 { Some(70_000) } else { None },
            if m & 4 != 0 { Some(5_000) } else { None },
            if m & 8 != 0 { Some(5_000_000) } else { None },
        ));
    }
    v
}

/// every command variant on key `a` (second key `b`), every boolean / option field both ways
pub(crate) fn all_variants(rng: &mut Rng, a: &str, b: &str, with_single: bool) -> Vec<Command> {
    let a = a.to_string();
    let b = b.to_string();
    let bools = [false, true];
    let mut v: Vec<Command> = Vec::new();
    // strings
    v.push(Command::Get(a.clone()));
    for (ex, px, exat, pxat) in opt4() {
        for nx in bools {
            for xx in bools {
                for get in bools {
                    for keepttl in bools {
                        v.push(Command::Set { key: a.clone(), value: payload(rng), ex, px, exat, pxat, nx, xx, get, keepttl });
                    }
                }
            }
        }
        for persist in bools {
            v.push(Command::GetEx { key: a.clone(), ex, px, exat, pxat, persist });
        }
    }
    // an INVALID value in every time option (<= 0, beyond i64 after the unit conversion): the reply is
    // an error, so nothing — in particular no deadline — may have moved by then
    for bad in [0i64, -1, i64::MIN, i64::MAX] {
        for slot in 0..4 {
            // PXAT accepts every positive value
            if slot == 3 && bad > 0 {
                continue;
            }
            let o = |i: usize| if i == slot { Some(bad) } else { None };
            for flag in bools {
                v.push(Command::GetEx { key: a.clone(), ex: o(0), px: o(1), exat: o(2), pxat: o(3), persist: flag });
                v.push(Command::Set { key: a.clone(), value: payload(rng), ex: o(0), px: o(1), exat: o(2), pxat: o(3), nx: false, xx: false, get: flag, keepttl: false });
            }
        }
    }
    v.push(Command::SetNx(a.clone(), payload(rng)));
    v.push(Command::Append(a.clone(), payload(rng)));
    v.push(Command::GetSet(a.clone(), payload(rng)));
    v.push(Command::StrLen(a.clone()));
    v.push(Command::MGet(vec![a.clone(), b.clone()]));
    v.push(Command::MSet(vec![(a.clone(), payload(rng)), (b.clone(), payload(rng))]));
    v.push(Command::MSetNx(vec![(a.clone(), payload(rng)), (b.clone(), payload(rng))]));
    v.push(Command::BatchSet(vec![(a.clone(), payload(rng)), (b.clone(), payload(rng))]));
    v.push(Command::BatchGet(vec![a.clone(), b.clone()]));
    v.push(Command::GetRange(a.clone(), 0, -1));
    v.push(Command::GetRange(a.clone(), -100, -200));
    v.push(Command::SetRange(a.clone(), 1, payload(rng)));
    v.push(Command::SetRange(a.clone(), 3, SDS::new(vec![])));
    v.push(Command::SetBit(a.clone(), 7, 1));
    v.push(Command::GetBit(a.clone(), 7));
    v.push(Command::GetBit(a.clone(), 1 << 20));
    v.push(Command::GetDel(a.clone()));
    v.push(Command::Incr(a.clone()));
    v.push(Command::Decr(a.clone()));
    v.push(Command::IncrBy(a.clone(), 5));
    v.push(Command::DecrBy(a.clone(), 5));
    v.push(Command::IncrByFloat(a.clone(), 1.5));
    // keys
    v.push(Command::Del(vec![a.clone(), b.clone()]));
    v.push(Command::Exists(vec![a.clone(), b.clone(), a.clone()]));
    v.push(Command::TypeOf(a.clone()));
    for pat in ["*", "?", "[a-c]*", "k?", "*é", "nomatch"] {
        v.push(Command::Keys(pat.to_string()));
    }
    v.push(Command::FlushDb);
    v.push(Command::FlushAll);
    v.push(Command::DbSize);
    v.push(Command::RandomKey);
    v.push(Command::Rename(a.clone(), b.clone()));
    v.push(Command::RenameNx(a.clone(), b.clone()));
    v.push(Command::Rename(a.clone(), a.clone()));
    // expiry
    for nx in bools {
        for xx in bools {
            for gt in bools {
                for lt in bools {
                    for secs in [100i64, 1, 0, -1] {
                        v.push(Command::Expire { key: a.clone(), seconds: secs, nx, xx, gt, lt });
                        v.push(Command::PExpire { key: a.clone(), milliseconds: secs * 1000, nx, xx, gt, lt });
                    }
                }
            }
        }
    }
    v.push(Command::ExpireAt(a.clone(), 5_000));
    v.push(Command::ExpireAt(a.clone(), 1));
    v.push(Command::PExpireAt(a.clone(), 5_000_000));
    v.push(Command::PExpireAt(a.clone(), 1));
    v.push(Command::Ttl(a.clone()));
    v.push(Command::Pttl(a.clone()));
    v.push(Command::ExpireTime(a.clone()));
    v.push(Command::PExpireTime(a.clone()));
    v.push(Command::Persist(a.clone()));
    // lists
    v.push(Command::LPush(a.clone(), vec![payload(rng)]));
    v.push(Command::RPush(a.clone(), vec![payload(rng), payload(rng)]));
    v.push(Command::LPop(a.clone()));
    v.push(Command::RPop(a.clone()));
    v.push(Command::LLen(a.clone()));
    for i in [0isize, -1, 100] {
        v.push(Command::LIndex(a.clone(), i));
        v.push(Command::LSet(a.clone(), i, payload(rng)));
    }
    v.push(Command::LRange(a.clone(), 0, -1));
    v.push(Command::LRange(a.clone(), 5, 1));
    v.push(Command::LTrim(a.clone(), 0, -1));
    v.push(Command::LTrim(a.clone(), 1, 0));
    v.push(Command::RPopLPush(a.clone(), b.clone()));
    v.push(Command::RPopLPush(a.clone(), a.clone()));
    for f in ["LEFT", "RIGHT"] {
        for t in ["LEFT", "RIGHT"] {
            v.push(Command::LMove { source: a.clone(), dest: b.clone(), wherefrom: f.into(), whereto: t.into() });
        }
    }
    // sets
    v.push(Command::SAdd(a.clone(), vec![member(rng), member(rng)]));
    v.push(Command::SRem(a.clone(), vec![member(rng)]));
    v.push(Command::SMembers(a.clone()));
    v.push(Command::SIsMember(a.clone(), member(rng)));
    v.push(Command::SCard(a.clone()));
    v.push(Command::SPop(a.clone(), None));
    v.push(Command::SPop(a.clone(), Some(0)));
    v.push(Command::SPop(a.clone(), Some(2)));
    // hashes
    v.push(Command::HSet(a.clone(), vec![(member(rng), payload(rng))]));
    v.push(Command::HGet(a.clone(), member(rng)));
    v.push(Command::HDel(a.clone(), vec![member(rng)]));
    v.push(Command::HGetAll(a.clone()));
    v.push(Command::HKeys(a.clone()));
    v.push(Command::HVals(a.clone()));
    v.push(Command::HLen(a.clone()));
    v.push(Command::HExists(a.clone(), member(rng)));
    v.push(Command::HIncrBy(a.clone(), member(rng), 1));
    // sorted sets
    for nx in bools {
        for xx in bools {
            for gt in bools {
                for lt in bools {
                    for ch in bools {
                        v.push(Command::ZAdd { key: a.clone(), pairs: vec![(2.0, member(rng))], nx, xx, gt, lt, ch });
                    }
                }
            }
        }
    }
    v.push(Command::ZRem(a.clone(), vec![member(rng)]));
    for ws in bools {
        v.push(Command::ZRange(a.clone(), 0, -1, ws));
        v.push(Command::ZRevRange(a.clone(), 0, -1, ws));
        for limit in [None, Some((0isize, 2usize)), Some((-1, 2))] {
            v.push(Command::ZRangeByScore { key: a.clone(), min: "-inf".into(), max: "+inf".into(), with_scores: ws, limit });
        }
        v.push(Command::ZRangeByScore { key: a.clone(), min: "abc".into(), max: "(1".into(), with_scores: ws, limit: None });
    }
    v.push(Command::ZScore(a.clone(), member(rng)));
    v.push(Command::ZRank(a.clone(), member(rng)));
    v.push(Command::ZCard(a.clone()));
    v.push(Command::ZCount(a.clone(), "-inf".into(), "(5".into()));
    v.push(Command::ZCount(a.clone(), "x".into(), "5".into()));
    // scans
    for pattern in [None, Some("*".to_string()), Some("a*".to_string())] {
        for count in [None, Some(1usize), Some(100)] {
            v.push(Command::Scan { cursor: 0, pattern: pattern.clone(), count });
            v.push(Command::HScan { key: a.clone(), cursor: 0, pattern: pattern.clone(), count });
            v.push(Command::ZScan { key: a.clone(), cursor: 0, pattern: pattern.clone(), count });
        }
    }
    // SORT, object / debug stubs, server commands
    v.push(Command::Sort { key: a.clone(), store: None });
    v.push(Command::Sort { key: a.clone(), store: Some(b.clone()) });
    v.push(Command::ObjectHelp);
    v.push(Command::ObjectEncoding(a.clone()));
    v.push(Command::ObjectRefCount(a.clone()));
    v.push(Command::ObjectIdleTime(a.clone()));
    v.push(Command::ObjectFreq(a.clone()));
    v.push(Command::DebugObject(a.clone()));
    v.push(Command::DebugSleep(0.0));
    v.push(Command::DebugSet("x".into(), "y".into()));
    v.push(Command::Info);
    v.push(Command::Ping(None));
    v.push(Command::Ping(Some(payload(rng))));
    v.push(Command::Echo(payload(rng)));
    v.push(Command::Time);
    v.push(Command::Wait(0, 0));
    v.push(Command::Select(0));
    v.push(Command::ConfigGet("*".into()));
    v.push(Command::ConfigSet("maxmemory".into(), "0".into()));
    v.push(Command::ConfigResetStat);
    v.push(Command::CommandCommand);
    v.push(Command::CommandCount);
    v.push(Command::FunctionFlush);
    v.push(Command::ClientSetName("n".into()));
    v.push(Command::ClientGetName);
    v.push(Command::ClientId);
    v.push(Command::ClientInfo);
    v.push(Command::AclWhoami);
    v.push(Command::AclList);
    v.push(Command::AclUsers);
    v.push(Command::AclGetUser { username: "default".into() });
    v.push(Command::AclCat { category: None });
    v.push(Command::AclGenPass { bits: None });
    v.push(Command::AclDryrun { username: "default".into(), command: "GET".into(), args: vec![a.clone()] });
    v.push(Command::AclLog { count: None });
    v.push(Command::AclLog { count: Some(1) });
    v.push(Command::AclLogReset);
    v.push(Command::Unknown("FOO".into()));
    v.push(Command::Unknown("XADD".into()));
    // transaction / script-cache / connection-level variants: executed too (each on a fresh twin)
    v.push(Command::Multi);
    v.push(Command::Exec);
    v.push(Command::Discard);
    v.push(Command::Watch(vec![a.clone(), b.clone()]));
    v.push(Command::Unwatch);
    v.push(Command::ScriptLoad("return 1".into()));
    v.push(Command::ScriptExists(vec!["0000000000000000000000000000000000000000".into()]));
    v.push(Command::ScriptFlush);
    v.push(Command::Auth { username: None, password: "p".into() });
    v.push(Command::Auth { username: Some("u".into()), password: "p".into() });
    v.push(Command::AclSetUser { username: "u".into(), rules: vec!["on".into()] });
    v.push(Command::AclDelUser { usernames: vec!["u".into()] });
    v.push(Command::AclCat { category: Some("read".into()) });
    v.push(Command::AclGenPass { bits: Some(64) });
    // scripts: one whose first call can fail, one that only reads, one that fails inside Lua, an unknown sha
    v.push(script_of(&[Command::Incr(a.clone()), Command::set(b.clone(), payload(rng))]).expect("script"));
    v.push(script_of(&[Command::LLen(a.clone()), Command::Get(a.clone())]).expect("script"));
    v.push(script_of(&[Command::HGet(a.clone(), member(rng)), Command::SIsMember(a.clone(), member(rng))]).expect("script"));
    v.push(Command::Eval { script: "return redis.call('NOSUCHCOMMAND', KEYS[1])".into(), keys: vec![a.clone()], args: vec![] });
    v.push(Command::Eval { script: "error('boom')".into(), keys: vec![], args: vec![] });
    v.push(Command::EvalSha { sha1: "0000000000000000000000000000000000000000".into(), keys: vec![a.clone()], args: vec![] });
    if !with_single {
        // only the variants that name a second key (every (src, dst) pair is swept for these)
        v.retain(|c| {
            matches!(
                c,
                Command::Rename(..) | Command::RenameNx(..) | Command::RPopLPush(..) | Command::LMove { .. }
                    | Command::Sort { store: Some(_), .. } | Command::MSet(_) | Command::MSetNx(_) | Command::MGet(_)
                    | Command::Del(_) | Command::Exists(_) | Command::BatchSet(_) | Command::BatchGet(_) | Command::Watch(_)
            )
        });
    }
    v
}

/// one instance of the variants the sweep does not execute (for the coverage table only)
pub(crate) fn not_executed_samples() -> Vec<Command> {
    vec![] // every variant is executed since EVAL / EVALSHA joined the sweep
}

/// the seed-like fixture: every type with and without a deadline over the common key alphabet
fn fixture_prefix(variant: u64) -> Vec<Prep> {
    let t = BASE_MS;
    let px = |key: &str, ms: i64| Command::PExpire { key: k(key), milliseconds: ms, nx: false, xx: false, gt: false, lt: false };
    let mut set_a = Command::set(k("a"), s("token"));
    if let Command::Set { px: p, .. } = &mut set_a {
        *p = Some(5000);
    }
    let z = Command::ZAdd { key: k("é"), pairs: vec![(1.0, s("m")), (2.0, s("n"))], nx: false, xx: false, gt: false, lt: false, ch: false };
    let mut cmds = vec![
        set_a,                                            // string with TTL  (SET s v PX 5000)
        Command::set(k("b"), s("10")),                    // string without
        Command::RPush(k("c"), vec![s("x"), s("y")]),     // list with TTL
        px("c", 9000),
    ];
    match variant % 4 {
        0 => {
            cmds.push(Command::HSet(k("kk"), vec![(s("f"), s("1")), (s("g"), s("v"))]));
            cmds.push(z);
            cmds.push(px("é", 7000));
        }
        1 => {
            cmds.push(Command::SAdd(k("kk"), vec![s("3"), s("10")]));
            cmds.push(px("kk", 3000));
            cmds.push(z);
        }
        2 => {
            cmds.push(Command::HSet(k("kk"), vec![(s("f"), s("1"))]));
            cmds.push(px("kk", 2500));
            cmds.push(Command::SAdd(k("é"), vec![s("m1")]));
            cmds.push(px("é", 7000));
        }
        _ => {
            cmds.push(Command::Persist(k("c")));                       // list without a deadline
            cmds.push(Command::SAdd(k("kk"), vec![s("m1"), s("m2")])); // set without
            cmds.push(Command::HSet(k("é"), vec![(s("f"), s("1"))]));
            cmds.push(px("é", 7000));
        }
    }
    cmds.into_iter().map(|cmd| Prep { t, evict: true, cmd }).collect()
}

fn random_prefix(rng: &mut Rng) -> Vec<Prep> {
    let mut scratch = Sess::new(BASE_MS);
    let mut v = Vec::new();
    for _ in 0..rng.range(4, 25) {
        let t = next_time(rng, &mut scratch);
        let evict = !rng.chance(1, 5);
        scratch.set_now(t, evict);
        let cmd = gen(rng, t);
        // SPOP / RANDOMKEY pick by hash order, which differs between twin executors
        if matches!(cmd, Command::SPop(..)) {
            continue;
        }
        let _ = scratch.exec(&cmd);
        v.push(Prep { t, evict, cmd });
    }
    v
}

fn sweep_state(out: &mut Out, rng: &mut Rng, prefix: &[Prep], srcs: &[&str], dsts: &[&str], label: &str) {
    let human: Vec<String> = prefix
        .iter()
        .map(|p| format!("t={}{} {:?}", p.t, if p.evict { "" } else { " (clock only)" }, p.cmd))
        .collect();
    let mut twin = build(prefix);
    let pts = time_points(&mut twin);
    let mut probe = build(prefix); // only used to look at key states
    let base = snapshots(&mut twin, &pts);
    out.count(&format!("sweep:states:{}", label));
    for a in srcs {
        for (bi, b) in dsts.iter().enumerate() {
            for cmd in all_variants(rng, a, b, bi == 0) {
                let (vname, cover) = variant_info(&cmd);
                let ro = cmd.is_read_only();
                let ks = key_state(&mut probe, &cmd);
                out.count(&format!("sweep:{}:{}:{}", cmd.name(), if ro { "read-only" } else { "write" }, ks));
                out.count(&format!("variant:{}", vname));
                if matches!(cover, Cover::NotExecuted(_)) {
                    continue;
                }
                let mut se = build(prefix);
                if se.dump() != base[0] {
                    // the same prefix replayed on a fresh executor gives another keyspace: the sweep
                    // would compare nothing — never skipped silently
                    out.violation(
                        "C17:harness:twin-diverged",
                        "replaying the same prepared prefix on a fresh executor gave a different visible keyspace: the twin comparison of the sweep is void for this state",
                        json!({"prepared_state": human, "first": base[0], "second": se.dump()}),
                    );
                    continue;
                }
                let replay = |what: &str, at: u64, got: &str, want: &str, reply: &str| {
                    json!({"prepared_state": human, "command": format!("{:?}", cmd), "entry": what,
                           "read_only_by_Command::is_read_only()": ro, "reply": reply,
                           "clock_at_comparison": at, "clock_at_command": pts[0],
                           "snapshot_with_command": got, "snapshot_without_command": want})
                };
                // 1. the &self entry point (only for commands the implementation calls read-only)
                if ro {
                    let ex = &se.ex;
                    let r0 = std::panic::catch_unwind(std::panic::AssertUnwindSafe(|| ex.execute_readonly(&cmd)));
                    if r0.is_err() {
                        out.violation(&format!("C17:crash:execute_readonly:{}", cmd.name()), "CommandExecutor::execute_readonly panicked",
                            replay("execute_readonly", pts[0], "crash", &base[0], "crash"));
                        continue;
                    }
                    let d0 = se.dump();
                    if d0 != base[0] {
                        out.violation(
                            &format!("C17:readonly-mutates:{}", cmd.name()),
                            &format!("{:?} is classified read-only but execute_readonly changed the visible keyspace: [{}] -> [{}]", cmd, base[0], d0),
                            replay("execute_readonly", pts[0], &d0, &base[0], &format!("{:?}", r0.ok().map(|r| reply_text(&r, Order::AsIs)))),
                        );
                        continue;
                    }
                }
                // 2. the normal entry point
                let (reply, is_err) = match se.exec(&cmd) {
                    Some(r) => (reply_text(&r, reply_order(&cmd)), is_error(&r)),
                    None => {
                        out.violation(&format!("C17:crash:{}", cmd.name()), "CommandExecutor::execute panicked",
                            replay("execute", pts[0], "crash", &base[0], "crash"));
                        continue;
                    }
                };
                out.count(&format!("sweep-outcome:{}:{}", vname, if is_err { "error" } else if ro { "read-only" } else { "write-ok" }));
                if !(ro || is_err) {
                    continue; // a successful write: the property says nothing
                }
                // 3. now and around every pre-existing deadline the twins must look the same
                let got = snapshots(&mut se, &pts);
                if let Some(i) = (0..pts.len()).find(|i| got[*i] != base[*i]) {
                    let when = if i == 0 { "immediately".to_string() } else { format!("once the clock reaches t={} (+{} ms)", pts[i], pts[i] - pts[0]) };
                    let sig = if is_err {
                        format!("C17:error-mutates:{}:{}", cmd.name(), reply.trim_start_matches('-'))
                    } else {
                        format!("C17:readonly-mutates:{}", cmd.name())
                    };
                    out.violation(
                        &sig,
                        &format!(
                            "{:?} replied {} ({}) but the visible keyspace differs {}: with the command [{}], without it [{}]",
                            cmd, reply,
                            if is_err { "an error" } else { "classified read-only by Command::is_read_only()" },
                            when, got[i], base[i]
                        ),
                        replay("execute", pts[i], &got[i], &base[i], &reply),
                    );
                }
                out.case(&format!("sweep|{}|{:?}|{:?}", label, human, cmd), base[0] != "0");
            }
        }
    }
}

/// the `Command` variants as the coverage table of `redisx::variant_info` sees them
const MISSING_KEY: &str = "zz";

fn oracle_sweep(out: &mut Out, rng: &mut Rng, n_states: u64) {
    // fixtures: every key (and a missing one) as source, every key (and a missing one) as destination
    let mut all: Vec<&str> = KEYS.to_vec();
    all.push(MISSING_KEY);
    for v in 0..4 {
        sweep_state(out, rng, &fixture_prefix(v), &all, &all, "fixture");
    }
    for _ in 0..n_states {
        let prefix = random_prefix(rng);
        let k1 = *rng.pick(&KEYS);
        let k2 = *rng.pick(&KEYS);
        let d1 = *rng.pick(&KEYS);
        sweep_state(out, rng, &prefix, &[k1, k2], &[d1], "random");
    }
    // coverage table: variant -> class, reason, how often the sweep built it
    let mut rows: std::collections::BTreeMap<String, serde_json::Value> = std::collections::BTreeMap::new();
    let mut samples = all_variants(rng, "a", "b", true);
    samples.extend(not_executed_samples());
    for c in &samples {
        let (name, cover) = variant_info(c);
        let (class, reason) = match cover {
            Cover::Modelled => ("modelled (M7 + generators + oracles)", ""),
            Cover::OracleOnly(r) => ("oracle-only (C17 snapshot oracles, no model)", r),
            Cover::NotExecuted(r) => ("not executed", r),
        };
        let n = out.dist.get(&format!("variant:{}", name)).copied().unwrap_or(0);
        if n == 0 && !matches!(cover, Cover::NotExecuted(_)) {
            eprintln!("coverage table: variant {} is classified as executed but the sweep built no instance of it", name);
            std::process::exit(3);
        }
        rows.insert(name.to_string(), json!({"class": class, "reason": reason, "instances_swept": n}));
    }
    out.extra.insert("command_variant_table".into(), json!(rows));
    out.extra.insert("command_variants_total".into(), json!(rows.len()));
}

/// the read-only classification three ways: the list in the SOURCE of `Command::is_read_only`
/// (build.rs), what the binary answers for an instance, and — through the op lines of
/// `ro_table_pass` — the model's `isReadOnly`
fn source_tables(out: &mut Out, rng: &mut Rng) {
    let mut samples = all_variants(rng, "a", "b", true);
    samples.extend(not_executed_samples());
    let mut rows: std::collections::BTreeMap<String, serde_json::Value> = std::collections::BTreeMap::new();
    let mut seen: std::collections::BTreeMap<&'static str, (u64, u64)> = std::collections::BTreeMap::new();
    for c in &samples {
        let (name, _) = variant_info(c);
        let e = seen.entry(name).or_insert((0, 0));
        if c.is_read_only() {
            e.0 += 1;
        } else {
            e.1 += 1;
        }
    }
    if !READ_ONLY_IS_PLAIN_LIST {
        out.violation(
            "C17:source:read-only-classification-not-a-plain-variant-list",
            "Command::is_read_only is no longer one matches!() over plain variant patterns (`X`, `X(_, …)`, `X { .. }`): a classification that depends on field values (or a second list) is not covered by the per-variant table of this check",
            json!({"file": "src/redis/command.rs"}),
        );
    }
    for v in COMMAND_VARIANTS {
        match seen.get(v) {
            None => out.violation(
                &format!("C17:coverage:variant-not-driven:{}", v),
                &format!("`Command::{}` is in the enum (src/redis/command.rs) but the sweep builds no instance of it", v),
                json!({"variant": v}),
            ),
            Some((ro, wr)) => {
                let src = READ_ONLY_VARIANTS.contains(v);
                if *ro > 0 && *wr > 0 {
                    out.violation(
                        &format!("C17:source:read-only-depends-on-fields:{}", v),
                        &format!("instances of `Command::{}` are classified read-only or not depending on their fields", v),
                        json!({"variant": v, "read_only_instances": ro, "write_instances": wr}),
                    );
                } else if src != (*ro > 0) {
                    out.violation(
                        &format!("C17:source:read-only-list-differs-from-classification:{}", v),
                        &format!("`Command::{}`: listed in the source of is_read_only = {}, but is_read_only() of an instance = {}", v, src, *ro > 0),
                        json!({"variant": v}),
                    );
                }
                rows.insert(v.to_string(), json!({"in_source_list": src, "is_read_only()": *ro > 0, "instances": ro + wr}));
            }
        }
    }
    for name in seen.keys() {
        if !COMMAND_VARIANTS.contains(name) {
            eprintln!("source scan of `enum Command` is stale: the binary has a variant {} the scan did not see", name);
            std::process::exit(3);
        }
    }
    for v in READ_ONLY_VARIANTS {
        if !COMMAND_VARIANTS.contains(v) {
            eprintln!("source scan of is_read_only names {} which is not a variant", v);
            std::process::exit(3);
        }
    }
    out.extra.insert("read_only_table(source list vs binary)".into(), json!(rows));
    out.extra.insert("command_variants_in_source".into(), json!(COMMAND_VARIANTS.len()));
}

/// every modelled variant once as an op line, so that the model's `isReadOnly` is compared with
/// `Command::is_read_only()` for the WHOLE table on every run (not only for what the random
/// sequences happen to generate)
fn ro_table_pass(out: &mut Out, rng: &mut Rng) {
    let mut se = reset(out, BASE_MS);
    let mut seq: Vec<String> = Vec::new();
    for p in fixture_prefix(0) {
        seq.push(format!("{:?}", p.cmd));
        do_step(out, &mut se, &p.cmd, "C17", &seq);
    }
    let dummy = redis_sim::redis::RespValue::BulkString(None);
    let mut n = 0u64;
    for cmd in all_variants(rng, "a", "b", true) {
        if (enc_cmd(&cmd, &dummy).is_none() && enc_xcmd(&cmd).is_none()) || matches!(cmd, Command::FlushDb | Command::FlushAll) {
            continue;
        }
        seq.push(format!("{:?}", cmd));
        do_step(out, &mut se, &cmd, "C17", &seq);
        n += 1;
        if seq.len() > 40 {
            seq.drain(..20);
        }
    }
    out.count_n("ro-table-pass:modelled-instances", n);
}

pub fn corpus(out: &mut Out) {
    // DESIGN.md §6.1, C17 row
    run_scripted(out, "C17", "rpoplpush-dst-wrongtype", vec![
        sc(0, true, Command::RPush(k("src"), vec![s("a")])),
        sc(0, true, Command::set(k("dst"), s("s"))),
        sc(0, true, Command::RPopLPush(k("src"), k("dst"))),
    ]);
    // round-2 seed C17-getex-persist-classified-read-only: if GETEX … PERSIST is ever classified
    // read-only, the snapshot oracle sees the TTL go from 5000 to -1
    run_scripted(out, "C17", "getex-persist-on-key-with-ttl", vec![
        sc(0, true, {
            let mut c = Command::set(k("s"), s("v"));
            if let Command::Set { px, .. } = &mut c {
                *px = Some(5000);
            }
            c
        }),
        sc(0, true, Command::GetEx { key: k("s"), ex: None, px: None, exat: None, pxat: None, persist: true }),
    ]);
    // round-3 seed C17-sort-store-clears-ttl-before-type-check: dst list with a TTL, src hash
    run_scripted(out, "C17", "sort-store-wrongtype-src", vec![
        sc(0, true, Command::RPush(k("dst"), vec![s("1"), s("2")])),
        sc(0, true, Command::PExpire { key: k("dst"), milliseconds: 9000, nx: false, xx: false, gt: false, lt: false }),
        sc(0, true, Command::HSet(k("src"), vec![(s("f"), s("v"))])),
        sc(0, true, Command::Sort { key: k("src"), store: Some(k("dst")) }),
        sc(0, true, Command::Pttl(k("dst"))),
    ]);
    // the property as stated covers scripts: a redis.call that fails after an earlier call has written
    // aborts the script with the error and the earlier write stays (Redis' own semantics: no rollback)
    run_scripted(out, "C17", "script-partial-effects", vec![
        sc(0, true, Command::RPush(k("l"), vec![s("x")])),
        sc_script(0, true, vec![Command::set(k("a"), s("x")), Command::Incr(k("l"))]),
        sc(0, true, Command::Get(k("a"))),
    ]);
    // … a script whose FIRST call fails changes nothing, and so does one that only reads before failing
    run_scripted(out, "C17", "script-first-call-fails", vec![
        sc(0, true, Command::RPush(k("l"), vec![s("x")])),
        sc_script(0, true, vec![Command::Incr(k("l")), Command::set(k("a"), s("x"))]),
        sc_script(0, true, vec![Command::LLen(k("l")), Command::Get(k("l")), Command::Del(vec![k("l")])]),
        sc(0, true, Command::Exists(vec![k("a"), k("l")])),
    ]);
    run_scripted(out, "C17", "lmove-dst-wrongtype", vec![
        sc(0, true, Command::RPush(k("src"), vec![s("a"), s("b")])),
        sc(0, true, Command::set(k("dst"), s("s"))),
        sc(0, true, Command::LMove { source: k("src"), dest: k("dst"), wherefrom: "LEFT".into(), whereto: "RIGHT".into() }),
    ]);
}

pub fn run(a: &Args) {
    let mut out = Out::new(&a.out);
    let mut rng = Rng::new(a.seed ^ 0x17);
    corpus(&mut out);
    source_tables(&mut out, &mut rng.fork());
    ro_table_pass(&mut out, &mut rng.fork());
    for _ in 0..a.n {
        run_random_sequence(&mut out, &mut rng, "C17", &gen, 5);
    }
    report_executor_api(&mut out, "C17");
    out.extra.insert("audit".into(), audit_c17());
    let n_states = (a.n / 50).clamp(20, 1000);
    oracle_sweep(&mut out, &mut rng, n_states);
    // per-command × classification × key-state table of the sweep, for the evidence
    let table: std::collections::BTreeMap<String, u64> =
        out.dist.iter().filter(|(k, _)| k.starts_with("sweep:")).map(|(k, v)| (k.clone(), *v)).collect();
    out.extra.insert("readonly_sweep_distribution".into(), serde_json::json!(table));
    out.extra.insert("families_covered".into(), serde_json::json!(crate::c01::FAMILIES));
    out.finish("case = one sequence of 1..60 commands biased towards failing commands (wrong-type operands in mixed-type states, overflowing integers, out-of-range indices, invalid expire times, two-key commands) on a fresh real CommandExecutor; oracle after every command: reply is an error or Command::is_read_only() ⇒ visible keyspace (keys, types, values, PTTLs) unchanged; distinct by op text; non-trivial iff some command changed the keyspace and some reply was informative. PLUS the oracle sweep: for prepared states (4 fixtures with every type with AND without a deadline — every key and a missing key as source and as destination — and random prefixes) EVERY variant of the Command enum (exhaustive-match table; every boolean/option field both ways; modelled or not) except EVAL/EVALSHA is run on a twin executor; whenever the reply is an error or the implementation's own Command::is_read_only() says read-only (then also through execute_readonly) the twins' full snapshots are compared now and at one ms before / at / after every pre-existing deadline; a sweep case is non-trivial iff the prepared keyspace is non-empty");
}
