//! `rvpersist` = the binary `src/bin/server_persistent.rs` of the tree under test, compiled from the
//! source text that `harness/build.rs` copied (unchanged but for the leading inner attributes).
//! `./check C08` starts it as a child process, talks RESP to it, kills it, restarts it over the same
//! data / WAL directories and reads the stamps it issued back from its WAL (harness/src/c08boot.rs):
//! the production start-up sequence (`StreamingIntegration::recover` → WAL replay → workers →
//! listeners) runs exactly as written in that file.
#![allow(unused_imports, dead_code, unexpected_cfgs)]

#[cfg(verif_persist_main)]
include!(concat!(env!("OUT_DIR"), "/persist_main.rs"));

#[cfg(not(verif_persist_main))]
fn main() {
    eprintln!("rvpersist: not built from src/bin/server_persistent.rs of the tree under test: {}", option_env!("RV_PERSIST_REASON").unwrap_or("file not found"));
    std::process::exit(3);
}
