//! Output files of one harness run: ops.txt (input of the model driver), impl.txt (what the
//! real code answered, one canonical line per op), oracle.json (direct property-oracle
//! failures on the real code), stats.json (measured input distribution).
use serde_json::{json, Value};
use std::collections::{BTreeMap, HashSet};
use std::fs;
use std::io::Write;
use std::path::{Path, PathBuf};

pub struct Out {
    pub dir: PathBuf,
    ops: Vec<String>,
    imp: Vec<String>,
    pub oracle: Vec<Value>,
    pub dist: BTreeMap<String, u64>,
    pub samples: Vec<Value>,
    distinct: HashSet<u64>,
    pub evaluations: u64,
    pub nontrivial: u64,
    pub extra: BTreeMap<String, Value>,
}

fn fnv(s: &str) -> u64 {
    let mut h: u64 = 0xcbf29ce484222325;
    for b in s.bytes() {
        h ^= b as u64;
        h = h.wrapping_mul(0x100000001b3);
    }
    h
}

impl Out {
    pub fn new(dir: &Path) -> Self {
        fs::create_dir_all(dir).expect("create out dir");
        Out {
            dir: dir.to_path_buf(),
            ops: Vec::new(),
            imp: Vec::new(),
            oracle: Vec::new(),
            dist: BTreeMap::new(),
            samples: Vec::new(),
            distinct: HashSet::new(),
            evaluations: 0,
            nontrivial: 0,
            extra: BTreeMap::new(),
        }
    }
    /// one op line for the model and the implementation's canonical answer
    pub fn op(&mut self, op: String, imp: String) {
        debug_assert!(!op.contains('\n') && !imp.contains('\n'));
        self.ops.push(op);
        self.imp.push(imp);
    }
    /// the op lines and the implementation's answers recorded so far
    pub fn lines(&self) -> (&[String], &[String]) {
        (&self.ops, &self.imp)
    }
    pub fn n_ops(&self) -> usize {
        self.ops.len()
    }
    pub fn count(&mut self, key: &str) {
        *self.dist.entry(key.to_string()).or_insert(0) += 1;
    }
    pub fn count_n(&mut self, key: &str, n: u64) {
        *self.dist.entry(key.to_string()).or_insert(0) += n;
    }
    /// register one evaluated case; `canon` identifies it, `nontrivial` by the property's rule
    pub fn case(&mut self, canon: &str, nontrivial: bool) {
        self.evaluations += 1;
        if nontrivial && self.distinct.insert(fnv(canon)) {
            self.nontrivial += 1;
        }
    }
    pub fn sample(&mut self, v: Value) {
        if self.samples.len() < 5 {
            self.samples.push(v);
        }
    }
    /// a failure of the property on the real code (independent of the model)
    pub fn violation(&mut self, signature: &str, what: &str, replay: Value) {
        let n = self.oracle.iter().filter(|v| v["signature"] == signature).count();
        self.count(&format!("oracle:{}", signature));
        if n < 3 {
            self.oracle.push(json!({"signature": signature, "what": what, "replay": replay}));
        }
    }
    pub fn finish(mut self, rule: &str) {
        // a failure of the value mirror (serialised shape of a replicated value changed) is a named case
        for (what, js) in crate::enc::take_mirror_errors() {
            let prop = crate::PROP.get().cloned().unwrap_or_else(|| "C??".into());
            self.violation(&format!("{}:mirror:shape-changed", prop), &format!("the serialised shape of a replicated value is not the one this harness knows ({}): files / peers written by the previous code cannot be read back the same way", what), json!({"where": what, "json": js}));
        }
        let mut f = fs::File::create(self.dir.join("ops.txt")).unwrap();
        for l in &self.ops {
            writeln!(f, "{}", l).unwrap();
        }
        let mut f = fs::File::create(self.dir.join("impl.txt")).unwrap();
        for l in &self.imp {
            writeln!(f, "{}", l).unwrap();
        }
        fs::write(
            self.dir.join("oracle.json"),
            serde_json::to_string_pretty(&self.oracle).unwrap(),
        )
        .unwrap();
        let stats = json!({
            "evaluations": self.evaluations,
            "distinct_nontrivial": self.nontrivial,
            "rule": rule,
            "ops": self.ops.len(),
            "distribution": self.dist,
            "samples": self.samples,
            "extra": self.extra,
        });
        fs::write(
            self.dir.join("stats.json"),
            serde_json::to_string_pretty(&stats).unwrap(),
        )
        .unwrap();
    }
}
